"""C12 -- the sparse LDL' engine is correct or reports errors (structural clauses)"""
import re
from engine.mir import last_seg, show, AnchorError, strip_generics
from engine.preds import canon, Walker
from engine.effects import IDX
from .common import *

CONFIGS = ['default']
CONFIGS_THOROUGH = ['default', 'full']
TECHNIQUE = 'dominance (validate-before-construct), error-discipline dataflow (no Result dropped), value-set rule for the permutation marker, sibling agreement of the two pivot sites, call-graph fences around unchecked code'
EXPLANATION = (
    "Backward stability, inertia values and bit-identical refactorisation are numerical / value-level and NOT decided. "
    "Decided on the MIR of the current tree: (R1) structure validation dominates construction, its three failure "
    "conditions return three distinct errors, and no Result<_, QDLDLError> produced in the module is dropped; (R2) the "
    "inverse-permutation builders use a marker that no index can equal (sentinel soundness); (R3) the unchecked "
    "triangular solves are reachable only through solve(), behind the is_symbolic and length assertions; permutation "
    "vectors fed to the unchecked gathers come from AMD or passed _invperm; (R4) refactor clears the symbolic flag "
    "before factoring; (R5) the KKT wrapper forwards Dsigns, regularisation parameters and the ordering; (R6) the two "
    "pivot-processing sites (k=0 and k>=1) have the same decision structure; (R7) every buffer that is accumulated "
    "into during the numeric pass is wholly reset at the start of the pass; (R8) at both pivot sites D[k] == 0 is tested, "
    "and returns ZeroPivot, on every path before 1/D[k] is formed - with or without regularisation; (R9) is_triu, on which "
    "the NotUpperTriangular rejection rests, examines every stored entry of every column; (R10) update / scale / offset of the "
    "engine's copy go through the entry map in every arm (back-end rule re-run); (R11) the first pivot is read from the value "
    "array only when column 0 of the permuted matrix is non-empty (finding F8, fixed)."
    ' (R12) every pass of the row loop reaches the pivot block (no `continue` past regularise / zero test / sign count / inverse), and the numeric pass leaves it only through the Dinv store or the ZeroPivot return.'
    ' (R13) is_triu scans the entries of every non-empty column (C16.R7 re-run).')
ASSUMPTIONS = ['rustc MIR construction and trait resolution are correct', 'amd::order returns a valid permutation']


def error_discipline(rep, F, tag):
    R = rep.rule('C12.R1', 'validation dominates construction; distinct errors; no QDLDL Result is dropped')

    def body():
        new = F.one(name='new', adt='QDLDLFactorisation')
        cs = one_call(new, 'check_structure')
        qn = one_call(new, '_qdldl_new')
        R.check(new.dominates(cs.bb, qn.bb), 'validate-first' + tag, 'check_structure does not dominate _qdldl_new', new.loc(qn.sp))
        R.check(canon(new.sym_operand(cs.args[0])) == canon(new.sym_operand(qn.args[0])) == 'arg1', 'validate-same-matrix' + tag,
                'check_structure and _qdldl_new do not receive the same matrix', new.loc(cs.sp))
        # on the Err branch of check_structure the constructor is not reached
        for val, ret, ev, tr in Walker(new).leaves():
            k = [x for x in val if x.startswith('discr(branch(check_structure(')]
            built = any(e[0] == 'call' and e[1] == '_qdldl_new' for e in ev)
            if k:
                R.check(built == (val[k[0]] == 0), 'err-stops|%d%s' % (val[k[0]], tag), 'construction %s after check_structure %s' % (
                    'runs' if built else 'skipped', 'Ok' if val[k[0]] == 0 else 'Err'), new.loc())
        chk = F.one(name='check_structure')
        errs = {}
        for val, ret, ev, tr in Walker(chk).leaves():
            r = canon(chk.sym_local(0)) if ret[0] != 's' else ret[1]
            last = [k for k in val][-1] if val else None
            # which variant is returned on this leaf: look at the stores into _0 along the trace
            out = None
            for b in tr:
                for st in chk.blocks[b]['s']:
                    if 'p' in st and 'rv' in st and st['p']['l'] == 0:
                        out = canon(chk.sym_rvalue(st['rv']))
            errs[tuple(sorted(val.items()))] = out
        variants = set()
        for v, out in errs.items():
            d = dict(v)
            bad = [k for k, x in d.items() if x == 0]
            if bad:
                R.check(out is not None and 'Result::Err' in out, 'rejects|%s%s' % (bad[-1].split('(')[0], tag),
                        'check_structure returns %s when %s fails' % (out, bad[-1]), chk.loc())
                if out:
                    variants.add(out)
            else:
                R.check(out is not None and 'Result::Ok' in out, 'accepts' + tag, 'check_structure returns %s on a valid matrix' % out, chk.loc())
        atoms = set(k for v in errs for k, _ in v)
        R.check(any(k.startswith('is_square(') for k in atoms) and any(k.startswith('is_triu(') for k in atoms) and any(k.startswith('all(') for k in atoms),
                'three-tests' + tag, 'check_structure tests %s; expected is_square, is_triu and the empty-column scan' % sorted(atoms), chk.loc())
        R.check(len(variants) == 3, 'three-errors' + tag, 'check_structure produces %d distinct errors: %s' % (len(variants), sorted(variants)), chk.loc())
        # no dropped Result<_, QDLDLError>
        n = 0
        for f in F.fns:
            if not f.file.endswith('qdldl/qdldl.rs') or f.from_expansion or f.impl_exp:
                continue
            for c in f.calls:
                if 'QDLDLError>' not in (c.callee.fty or ''):
                    continue
                if not re.search(r'->\s*(std::result::)?Result<', c.callee.fty):
                    continue
                n += 1
                d = c.dest
                if d['p']:
                    continue
                l = d['l']
                used = False
                if l == 0:
                    used = True
                for bi, b in enumerate(f.blocks):
                    for st in b['s']:
                        if 'rv' in st:
                            for op in ([st['rv'].get('a'), st['rv'].get('b')] + st['rv'].get('ops', [])):
                                if isinstance(op, dict):
                                    pl = op.get('c') or op.get('m')
                                    if pl is not None and pl['l'] == l:
                                        used = True
                            if st['rv'].get('k') in ('ref', 'discr') and st['rv']['p']['l'] == l:
                                used = True
                    t = b['t']
                    if t['k'] == 'call':
                        for a in t['args']:
                            pl = a.get('c') or a.get('m')
                            if pl is not None and pl['l'] == l:
                                used = True
                    if t['k'] == 'switch':
                        pl = t['d'].get('c') or t['d'].get('m')
                        if pl is not None and pl['l'] == l:
                            used = True
                R.check(used, 'result-used|%s<-%s%s' % (short(f.key), c.callee.name, tag),
                        'the Result of %s is dropped in %s: an error would be silently ignored' % (c.callee.name, f.key), f.loc(c.sp))
        R.check(n >= 5, 'result-sites' + tag, 'only %d fallible QDLDL calls found' % n)
        # both pivot sites return ZeroPivot under D == 0
        fi = F.one(name='_factor_inner')
        zp = adt_constructions(F, 'QDLDLError', 'ZeroPivot')
        R.check(len([z for z in zp if z[0].key == fi.key]) == 2, 'zero-pivot-sites' + tag, 'ZeroPivot is produced at %d sites of _factor_inner, expected 2' % len([z for z in zp if z[0].key == fi.key]), fi.loc())

    R.guard(body)


def sentinel(rep, F, tag):
    R = rep.rule('C12.R2', 'inverse-permutation builders: the "unset" marker cannot collide with a stored index')

    def body():
        fs = [f for f in F.fns if f.name in ('_invperm', 'invperm') and f.dk == 'Fn']
        R.check(len(fs) >= 2, 'anchors' + tag, 'found %d inverse-permutation builders' % len(fs))
        for f in fs:
            marker = None
            for c in f.calls:
                if c.callee.name == 'from_elem':
                    marker = canon(f.sym_operand(c.args[0]))
            if marker is None:
                R.bad('marker|%s%s' % (short(f.key), tag), 'no marker array in %s' % f.key, f.loc())
                continue
            # the equality test against the marker
            tests = []
            for bi, b in enumerate(f.blocks):
                for st in b['s']:
                    if 'rv' in st and st['rv']['k'] == 'bin' and st['rv']['op'] in ('Eq', 'Ne'):
                        tests.append(canon(f.sym_rvalue(st['rv'])))
            R.check(any(marker in t for t in tests), 'marker-tested|%s%s' % (short(f.key), tag),
                    '%s never compares against its marker %s (tests: %s)' % (f.key, marker, tests), f.loc())
            m = re.match(r'(\d+)_(usize|u64|i64|isize|u32)', marker)
            sound = False
            if m:
                sound = int(m.group(1)) >= 2 ** 31
            elif 'MAX' in marker or marker in ('true', 'false'):
                sound = True
            R.check(sound, 'marker-sound|%s%s' % (short(f.key), tag),
                    '%s marks unset entries with %s, which is also a valid index (position 0..n): a repeated '
                    'entry pointing at that position is accepted as a permutation' % (f.key, marker), f.loc())

    R.guard(body)


def fences(rep, F, G, tag):
    R = rep.rule('C12.R3', 'unchecked code is fenced: who-may-call, dominating assertions, permutation provenance')

    def body():
        unsafe_fns = [f for f in F.fns if f.file.endswith('qdldl/qdldl.rs') and any(u.get('user') for u in f.unsafe_blocks)]
        names = sorted(f.name for f in unsafe_fns)
        expected = {'_factor_inner', '_lsolve_unsafe', '_ltsolve_unsafe', '_dltsolve_unsafe', 'permute', 'ipermute'}
        for f in unsafe_fns:
            R.check(f.name in expected, 'unsafe-inventory|%s%s' % (f.name, tag),
                    '%s contains an unsafe block that no fence covers' % f.key, f.loc())
        R.check(len(unsafe_fns) >= 5, 'unsafe-count' + tag, 'only %d functions with unsafe blocks in the qdldl module: %s' % (len(unsafe_fns), names))
        sv = F.one(name='_solve')
        for nm in ('_lsolve_unsafe', '_ltsolve_unsafe', '_dltsolve_unsafe'):
            fs = F.find(name=nm)
            for f in fs:
                cs = set(G.callers_of(f.key))
                R.check(cs <= {sv.key}, 'callers|%s%s' % (nm, tag), '%s is called from %s; only _solve may' % (nm, sorted(short(c) for c in cs - {sv.key})), f.loc())
        solve = F.one(name='solve', adt='QDLDLFactorisation')
        cs = set(G.callers_of(sv.key))
        R.check(cs == {solve.key}, 'callers|_solve' + tag, '_solve is called from %s' % sorted(short(c) for c in cs), sv.loc())
        sc = one_call(solve, '_solve')
        leaves = Walker(solve).leaves()
        for val, ret, ev, tr in leaves:
            reached = any(e[0] == 'call' and e[1] == '_solve' for e in ev)
            if reached:
                sym = [k for k in val if 'is_symbolic' in k]
                ln = [k for k in val if k.startswith('eq(') and 'len(' in k]
                R.check(bool(sym) and all((val[k] == 0) for k in sym if not k.startswith('not(')), 'assert-not-symbolic' + tag,
                        '_solve is reached without asserting !is_symbolic', solve.loc(sc.sp))
                R.check(bool(ln) and all(val[k] == 1 for k in ln), 'assert-length' + tag, '_solve is reached without the b.len() == D.len() assertion', solve.loc(sc.sp))
                if ln:
                    R.check('len(arg2)' in ln[0] and 'self.D' in ln[0], 'assert-length-operands' + tag, 'length assertion compares %s' % ln[0], solve.loc())
        # _solve receives the factor arrays of self
        a = [canon(solve.sym_operand(x)) for x in sc.args]
        R.check(a[:4] == ['self.L.colptr', 'self.L.rowval', 'self.L.nzval', 'self.Dinv'], '_solve-args' + tag, '_solve(%s)' % a, solve.loc(sc.sp))
        # permutation provenance inside the module
        for f in F.fns:
            if not f.file.endswith('qdldl/qdldl.rs'):
                continue
            for c in f.calls:
                if c.callee.name in ('permute', 'ipermute') and 'qdldl' in (c.callee.key or ''):
                    p = canon(f.sym_operand(c.args[2]))
                    ok = p in ('self.perm', 'self.iperm') or p.startswith('var:perm') or p.startswith('var:iperm') or 'get_amd_ordering' in p or '_invperm' in p
                    R.check(ok, 'perm-source|%s|%s%s' % (short(f.key), p[:30], tag), '%s gathers with permutation %s of unknown provenance' % (f.key, p), f.loc(c.sp))
        qn = F.one(name='_qdldl_new')
        # perm / iperm locals: defined from the user perm only together with a successful _invperm
        ip = one_call(qn, '_invperm')
        amd = one_call(qn, 'get_amd_ordering')
        ps = one_call(qn, 'permute_symmetric')
        R.check(canon(qn.sym_operand(ps.args[1])).startswith('var:iperm'), 'permute_symmetric-arg' + tag, 'permute_symmetric uses %s' % canon(qn.sym_operand(ps.args[1])), qn.loc(ps.sp))
        for l in qn.local_by_name('iperm'):
            for d in qn.defs.get(l, []):
                if d[0] == 's':
                    v = canon(qn.sym_rvalue(qn.blocks[d[1]]['s'][d[2]]['rv']))
                    R.check('_invperm(' in v or 'get_amd_ordering(' in v, 'iperm-def|%s%s' % (v[:40], tag), 'iperm assigned from %s' % v, qn.loc())
        # the user permutation handed to _invperm is the one stored
        R.check('opts' in canon(qn.sym_operand(ip.args[0])) or 'unwrap_or_default' in canon(qn.sym_operand(ip.args[0])), '_invperm-arg' + tag, '_invperm(%s)' % canon(qn.sym_operand(ip.args[0])), qn.loc(ip.sp))

    R.guard(body)


def symbolic_guard(rep, F, tag):
    R = rep.rule('C12.R4', 'refactor clears is_symbolic before factoring and passes the cleared flag')

    def body():
        f = F.one(name='refactor', adt='QDLDLFactorisation')
        fc = one_call(f, '_factor')
        st = None
        for bi, si, s in f.assignments():
            if s['p']['p'] and canon(f.sym_place(s['p'])) == 'self.is_symbolic':
                st = (bi, canon(f.sym_rvalue(s['rv'])))
        R.check(st is not None and st[1] == 'false' and f.dominates(st[0], fc.bb), 'clears-flag' + tag, 'refactor does not clear is_symbolic before _factor: %s' % (st,), f.loc())
        a = [canon(f.sym_operand(x)) for x in fc.args]
        R.check(a == ['self.L', 'self.D', 'self.Dinv', 'self.workspace', 'self.is_symbolic'], '_factor-args' + tag, '_factor(%s)' % a, f.loc(fc.sp))
        r0 = canon(f.sym_local(0))
        R.check(r0.startswith('_factor('), 'returns-result' + tag, 'refactor returns %s' % r0, f.loc())
        ff = F.one(name='_factor')
        # positive_inertia <- result of _factor_inner
        inner = one_call(ff, '_factor_inner')
        ok = False
        for bi, si, s in ff.assignments():
            if s['p']['p'] and canon(ff.sym_place(s['p'])).endswith('.positive_inertia'):
                v = canon(ff.sym_rvalue(s['rv']))
                ok = '_factor_inner(' in v
        R.check(ok, 'inertia-source' + tag, 'positive_inertia is not taken from _factor_inner', ff.loc())

    R.guard(body)


def wrapper(rep, F, tag):
    R = rep.rule('C12.R5', 'KKT wrapper forwards signs, regularisation parameters and ordering')

    def body():
        f = F.one(name='new', adt='QDLDLDirectLDLSolver')
        want = {
            'Dsigns': lambda a: 'arg2' in a,
            'regularize_eps': lambda a: a.endswith('.dynamic_regularization_eps'),
            'regularize_delta': lambda a: a.endswith('.dynamic_regularization_delta'),
        }
        for nm, pred in want.items():
            cs = [c for c in f.calls if c.callee.name == nm]
            R.check(len(cs) == 1 and pred(canon(f.sym_operand(cs[0].args[1]))), 'forward|%s%s' % (nm, tag),
                    'QDLDL option %s receives %s' % (nm, [canon(f.sym_operand(c.args[1])) for c in cs]), f.loc())
        ok = False
        for bi, si, s in f.assignments():
            if s['p']['p'] and canon(f.sym_place(s['p'])).endswith('.perm'):
                ok = canon(f.sym_rvalue(s['rv'])) == 'arg4'
        R.check(ok, 'forward|perm' + tag, 'the ordering argument is not forwarded into the QDLDL options', f.loc())
        nw = [c for c in f.calls if c.callee.name == 'new' and 'QDLDLFactorisation' in (c.callee.key or '')]
        R.check(len(nw) == 1 and canon(f.sym_operand(nw[0].args[0])) == 'arg1', 'forward|matrix' + tag, 'QDLDLFactorisation::new does not receive the KKT matrix', f.loc())
        rf = F.one(name='refactor', adt='QDLDLDirectLDLSolver')
        r0 = canon(rf.sym_local(0))
        R.check(r0.startswith('is_finite(') and 'Dinv' in r0, 'refactor-reports' + tag, 'wrapper refactor returns %s' % r0, rf.loc())

    R.guard(body)


def _norm_idx(s, kvar):
    s = re.sub(r'\[0_usize\]', '[K]', s)
    s = s.replace('[%s]' % kvar, '[K]')
    s = re.sub(r', 0_usize\)', ', K)', s)
    s = s.replace(', %s)' % kvar, ', K)')
    s = re.sub(r'@[^ ,)]*#\d+', '', s)
    return s


def pivot_sites(rep, F, tag):
    R = rep.rule('C12.R6', 'the first-pivot block and the in-loop pivot block have the same decision structure')

    def body():
        f = F.one(name='_factor_inner')
        # the two stores into Dinv
        sites = []
        for bi, si, st in f.assignments():
            if not st['p']['p']:
                continue
            t = canon(f.sym_place(st['p']))
            if t.startswith('arg9[') or t.startswith('index_mut(arg9'):
                sites.append((bi, t, canon(f.sym_rvalue(st['rv']))))
        R.check(len(sites) == 2, 'dinv-sites' + tag, 'Dinv is written at %d sites, expected 2 (pivot 0 and pivots k>=1): %s' % (len(sites), sites), f.loc())
        if len(sites) != 2:
            return
        tables = []
        for bi, t, v in sites:
            # region start: the closest dominating switch on logical_factor (arg15)
            doms = [b for b in f.dominators()[bi] if f.blocks[b]['t']['k'] == 'switch' and 'arg15' in canon(f.sym_operand(f.blocks[b]['t']['d']))]
            if not doms:
                raise AnchorError('no logical_factor guard dominating the pivot store')
            # closest = the one dominated by all others
            start = max(doms, key=lambda b: len(f.dominators()[b]))
            tsw = f.blocks[start]['t']
            k = canon(f.sym_operand(tsw['d']))
            neg = k.startswith('not(')
            zero_t = [tb for v_, tb in tsw['ts'] if int(v_) == 0]
            numeric_succ = tsw['o'] if neg else (zero_t[0] if zero_t else tsw['o'])
            # `logical_factor` false => numeric pass.  discr==0 <=> tested value false
            if not neg:
                numeric_succ = zero_t[0] if zero_t else tsw['o']
            else:
                numeric_succ = tsw['o']
            kvar = 'var:k' if 'var:' in t else None
            idx = re.search(r'\[(.*?)\]', t)
            kv = idx.group(1) if idx else '0_usize'
            rows = set()
            for val, ret, ev, tr in Walker(f, cut_loops=True).leaves(start=numeric_succ, stop={bi}):
                if ret[0] not in ('stop', 'c', 's') and not (ret[0] == 'diverge'):
                    pass
                # the *load* of the pivot differs by construction (pivot 0 is read before the column loop, under a guard on
                # the column pointers; pivot k is accumulated by the loop): compare what happens to the loaded value
                is_load_guard = lambda k_: ('arg2[0_usize]' in k_ and 'arg2[1_usize]' in k_)
                is_load = lambda e: e[0] == 'store' and str(e[1]).startswith(('arg8[', 'index_mut(arg8')) and (str(e[2]).startswith(('arg4[', 'index(arg4')) or str(e[2]) == 'zero()')
                conds = tuple(sorted((_norm_idx(k_, kv), v_) for k_, v_ in val.items() if not is_load_guard(k_)))
                evs = tuple(_norm_idx('%s:%s:%s' % (e[0], e[1], e[2]), kv) for e in ev if (e[0] == 'store' and not is_load(e)) or (
                    e[0] == 'call' and e[1] not in ('index', 'index_mut', 'deref', 'deref_mut', 'zero', 'one')))
                outcome = ret[0] if ret[0] in ('stop',) else ('return' if ret[0] in ('c', 's') else ret[0])
                rows.add((conds, evs, outcome))
            tables.append(rows)
            # no reciprocal of an untested pivot: every path of the numeric pass that reaches the Dinv store has
            # decided D[k] == 0 (false), whatever the regularisation settings; the true edge returns the error
            zt = lambda c_: [(k_, v_) for k_, v_ in c_ if k_.startswith('eq(') and 'zero()' in k_ and ('arg8[' in k_ or 'index(arg8' in k_)]
            reach = [r for r in rows if r[2] == 'stop']
            RZ = rep.rule('C12.R8', 'a zero pivot is reported on every path: D[k] == 0 is tested (and returns ZeroPivot) before 1/D[k] is formed, with or without regularisation')
            RZ.check(bool(reach) and all(zt(r[0]) and all(v_ == 0 for k_, v_ in zt(r[0])) for r in reach), 'zero-test-before-inverse|%s%s' % ('first' if len(tables) == 1 else 'loop', tag),
                     'a path of the numeric pass reaches Dinv[k] = 1/D[k] without having tested D[k] == 0 (conditions on such a path: %s): '
                     'with regularisation enabled but eps <= 0 or delta == 0 a zero pivot yields Dinv = inf instead of ZeroPivot' % (
                         [dict(r[0]) for r in reach if not zt(r[0])][:1],), f.loc())
            RZ.check(any(zt(r[0]) and any(v_ == 1 for k_, v_ in zt(r[0])) and r[2] == 'return' for r in rows), 'zero-test-returns|%s%s' % ('first' if len(tables) == 1 else 'loop', tag),
                     'no path on which D[k] == 0 returns from the factorisation', f.loc())
        a, b = tables
        if a == b:
            R.ok('sites-agree' + tag, {'rows': len(a)})
        else:
            d1 = sorted(a - b)[:1]
            d2 = sorted(b - a)[:1]
            R.bad('sites-agree' + tag,
                  'the pivot-0 block and the pivot-k block of _factor_inner differ in their regularise / zero-test / '
                  'positive-count / inverse structure: only-in-first=%s only-in-loop=%s' % (d1, d2), f.loc())
        # regularize_count reset at entry
        first = None
        for bi, si, st in f.assignments():
            if st['p']['p'] and canon(f.sym_place(st['p'])) == 'arg20':
                first = (bi, canon(f.sym_rvalue(st['rv'])))
                break
        R.check(first is not None and first[1].startswith('0') and first[0] == 0, 'regularize_count-reset' + tag, 'regularize_count not reset at entry: %s' % (first,), f.loc())

    R.guard(body)


def reset_complete(rep, F, E, tag):
    R = rep.rule('C12.R7', 'buffers accumulated into during the numeric pass are wholly reset at the start of every pass')

    def body():
        f = F.one(name='_factor_inner')
        accum = {}
        for c in f.calls:
            if c.callee.name in ('sub_assign', 'add_assign', 'mul_assign', 'div_assign'):
                for r, ch in E.aps(f, f.sym_operand(c.args[0])):
                    if r[0] == 'param' and (not ch or all(e == IDX for e in ch)):
                        # a slice parameter (not a scalar counter)
                        if f.local_ty(r[1]).startswith('&mut ['):
                            accum.setdefault(r[1], []).append(c)
        R.check(len(accum) >= 2, 'accumulators' + tag, 'found %d accumulated buffers in _factor_inner (expected y_vals and D)' % len(accum), f.loc())
        loops = f.loops()
        for p, sites in sorted(accum.items()):
            fills = []
            for c in f.calls:
                if c.callee.name in ('fill', 'copy_from_slice', 'set', 'fill_with'):
                    for r, ch in E.aps(f, f.sym_operand(c.args[0])):
                        if r == ('param', p) and not ch:
                            fills.append(c)
            ok = bool(fills) and all(any(f.dominates(x.bb, s.bb) and not any(x.bb in body for body in loops.values()) for x in fills) for s in sites)
            R.check(ok, 'reset|%s%s' % (f.local_name(p), tag),
                    'buffer %s is accumulated into (%s) but is not wholly reset before the elimination loop: a '
                    'refactorisation would start from the previous pass\'s values' % (f.local_name(p), sites[0].callee.name), f.loc(sites[0].sp))

    R.guard(body)


def triu_test(rep, F, tag):
    """check_structure relies on CscMatrix::is_triu to reject inputs with entries below the diagonal; the factorisation
    never sorts or re-validates.  is_triu must quantify over *every* stored entry of every column (QDLDL accepts
    unsorted columns, so looking at the last entry of a column is not enough)."""
    R = rep.rule('C12.R9', 'is_triu examines every stored entry of every column (row > col anywhere => false); check_structure calls it')

    def body():
        f = F.one(name='is_triu', adt='CscMatrix')
        qs = [c for c in f.calls if c.callee.name in ('any', 'all')]
        ok = False
        why = '%d any/all calls' % len(qs)
        if len(qs) == 1:
            q = qs[0]
            src = canon(f.sym_operand(q.args[0])).replace('withoverflow', '').replace(').0', ')')
            m = re.fullmatch(r'iter\(index\(self\.rowval, Range::Range\(index\(self\.colptr, (.*)\), index\(self\.colptr, add\((.*), 1_usize\)\)\)\)\)', src)
            cl = [canon(g.sym_local(0)) for g in F.closures_of.get(f.key, [])]
            col_ok = m is not None and m.group(1) == m.group(2) and re.fullmatch(r'next\(into_iter\(Range::Range\(0_usize, (ncols\(self\)|self\.n)\)\)\)@Some\.0', m.group(1)) is not None
            if q.callee.name == 'any':
                pred_ok = len(cl) == 1 and re.fullmatch(r'lt\(arg1\._ref__\w+, arg2\)', cl[0]) is not None
            else:
                pred_ok = len(cl) == 1 and re.fullmatch(r'le\(arg2, arg1\._ref__\w+\)', cl[0]) is not None
            ok = col_ok and pred_ok
            why = 'quantifier %s over %s with predicate %s' % (q.callee.name, src[:140], cl)
            # decision: a hit returns false, exhausting the columns returns true
            outs = set()
            for val, ret, ev, tr in Walker(f, cut_loops=True).leaves():
                hit = [v for k, v in val.items() if k.startswith(q.callee.name + '(')]
                if ret[0] == 'c' and hit:
                    outs.add((q.callee.name, hit[0], ret[1]))
                if ret[0] == 'c' and not hit:
                    outs.add(('end', None, ret[1]))
            want = {('any', 1, 0), ('end', None, 1)} if q.callee.name == 'any' else {('all', 0, 0), ('end', None, 1)}
            ok = ok and outs == want
            why += '; outcomes %s' % sorted(outs, key=str)
        if not qs:
            # an explicit inner loop over the column's entries is the same test
            pat = re.compile(r'lt\((next\(into_iter\(Range::Range\(0_usize, (ncols\(self\)|self\.n)\)\)\)@Some\.0), next\((into_iter|iter)\((iter\()?index\(self\.rowval, Range::Range\(index\(self\.colptr, .*\)@Some\.0\)')
            hits = set()
            for val, ret, ev, tr in Walker(f, cut_loops=True).leaves():
                for k, v in val.items():
                    if pat.match(k.replace('withoverflow', '')) and v == 1 and ret[0] == 'c':
                        hits.add(ret[1])
            ok = hits == {0}
            why += '; explicit-loop form: %s' % sorted(hits)
        R.check(ok, 'all-entries' + tag, 'is_triu does not test every stored entry of every column against row > col (%s): an unsorted column can hide a '
                'sub-diagonal entry, which permute_symmetric then silently drops' % why, f.loc())
        cs = F.one(name='check_structure')
        R.check(len(calls_named(cs, 'is_triu')) == 1, 'used' + tag, 'check_structure does not call is_triu', cs.loc())
        # decision table of check_structure: Ok only if square, upper triangular and every column non-empty (strict colptr growth)
        cl = [canon(g.sym_local(0)) for g in F.closures_of.get(cs.key, [])]
        for val, ret, ev, tr in Walker(cs).leaves():
            if ret[0] == 's' and str(ret[1]).startswith('Result::Ok'):
                sq = val.get('is_square(arg1)') == 1
                tri = val.get('is_triu(arg1)') == 1
                ne_all = val.get('all(windows(arg1.colptr, 2_usize), closure())') == 1 and cl == ['lt(arg2[0_usize], arg2[1_usize])']
                ne_any = val.get('any(windows(arg1.colptr, 2_usize), closure())') == 0 and cl in (['le(arg2[1_usize], arg2[0_usize])'], ['eq(arg2[0_usize], arg2[1_usize])'])
                R.check(sq and tri and (ne_all or ne_any), 'structure-accepts-only' + tag,
                        'check_structure returns Ok under %s with column test %s: a matrix is accepted only if it is square, upper triangular and '
                        'colptr grows strictly (every column has an entry)' % ({k: v for k, v in val.items()}, cl), cs.loc())

    R.guard(body)


def first_pivot_guard(rep, F, tag):
    """The first pivot is read from the value array before the column loop.  In an upper-triangular matrix column 0 holds at
    most the (0,0) entry, but it can be structurally absent - check_structure only rejects empty columns of the *input*, and
    a symmetric permutation moves a missing diagonal entry to the front.  An unguarded Ax[0] then takes the first stored
    entry of a later column as the pivot and a wrong matrix is factored silently."""
    R = rep.rule('C12.R11', 'the first pivot is read only if column 0 of the permuted matrix is non-empty (or the permuted matrix is checked for empty columns)')

    def body():
        f = F.one(name='_factor_inner')
        # does any stage after the permutation reject empty columns?
        later_check = False
        for nm in ('_etree', '_qdldl_new'):
            for g in F.find(name=nm):
                for bi, si, st in g.assignments():
                    rv = st['rv']
                    if rv['k'] == 'agg' and rv['ak']['a'] == 'adt' and rv['ak'].get('variant') == 'EmptyColumn':
                        later_check = True
        sites = []
        for bi, si, st in f.assignments():
            if st['p']['p']:
                t = canon(f.sym_place(st['p']))
                v = canon(f.sym_rvalue(st['rv']))
                if (t.startswith('arg8[0_usize]') or t.startswith('index_mut(arg8, 0_usize)')) and re.match(r'(arg4\[|index\(arg4, )', v):
                    sites.append((bi, v, st['sp']))
        guarded = []
        for val, ret, ev, tr in Walker(f, cut_loops=True).leaves():
            for bi, v, sp in sites:
                if bi in tr:
                    g = [k for k in val if re.search(r'arg2\[(0|1)_usize\]', k) and re.search(r'arg2\[(1|0)_usize\]', k.replace('arg2[0_usize]', '', 1) if 'arg2[0_usize]' in k else k)]
                    g = [k for k in val if ('arg2[0_usize]' in k and 'arg2[1_usize]' in k) or (k.startswith(('lt(0_usize, arg2[1_usize])', 'ne(0_usize, arg2[1_usize])', 'ne(arg2[1_usize], 0_usize)', 'eq(0_usize, arg2[1_usize])', 'eq(arg2[1_usize], 0_usize)')))]
                    guarded.append(bool(g))
        ok = later_check or (bool(guarded) and all(guarded)) or not sites
        R.check(ok, 'first-pivot-present' + tag,
                '_factor_inner reads the first pivot as %s without testing that column 0 of the (permuted) matrix has an entry, and nothing after the '
                'permutation rejects empty columns: an input whose diagonal entry at perm[0] is structurally absent is factored as a different matrix '
                '(A = triu[[1,7],[.,.]], perm = [1,0]: accepted, solve wrong) instead of ZeroPivot / a regularised zero pivot' % [v for b_, v, s_ in sites], f.loc())

    R.guard(body)


def every_pivot_finished(rep, F, tag):
    """Row k of the factorisation ends with the pivot block: regularise, test for zero, count the sign, store 1/D[k].  No pass of the row
    loop may skip it - a row of L that happens to be empty (no entries above the diagonal) still has a pivot, and one that is skipped leaves
    a stale D[k] / Dinv[k] from the previous factorisation, an unreported zero pivot and a wrong inertia count."""
    R = rep.rule('C12.R12', 'every pass of the row loop of _factor_inner reaches the pivot block (regularise / zero test / sign count / inverse)')

    def body():
        f = F.one(name='_factor_inner')
        stores = []
        for bi, si, st in f.assignments():
            if st['p']['p']:
                t = canon(f.sym_place(st['p']))
                if (t.startswith('arg9[') or t.startswith('index_mut(arg9')) and t != 'arg9[0_usize]':
                    stores.append(bi)
        if len(stores) != 1:
            raise AnchorError('in-loop Dinv store matched %d sites' % len(stores))
        bi = stores[0]
        loops = f.loops()
        outer = [h for h, body_ in loops.items() if bi in body_]
        if not outer:
            raise AnchorError('the Dinv[k] store is not inside a loop')
        h = max(outer, key=lambda x: len(loops[x]))
        doms = [b for b in f.dominators()[bi] if f.blocks[b]['t']['k'] == 'switch' and 'arg15' in canon(f.sym_operand(f.blocks[b]['t']['d'])) and b in loops[h]]
        if not doms:
            raise AnchorError('no logical_factor test dominating the pivot block inside the row loop')
        g = max(doms, key=lambda b: len(f.dominators()[b]))
        # (a) every way round the row loop goes through the logical_factor test that opens the pivot block
        skip = [s for s in f.succ[h] if s in loops[h] and h in f.reachable_from(s, avoid={g})]
        R.check(not skip, 'pass-reaches-pivot-block' + tag,
                'a pass of the row loop of _factor_inner can return to the loop head without reaching the pivot block (a `continue` or a skipped row): '
                'that row keeps a stale D[k] and Dinv[k], its zero pivot is not reported and its sign is not counted', f.loc())
        # (b) in the numeric pass the block ends with the inverse (or with the ZeroPivot return)
        tsw = f.blocks[g]['t']
        k = canon(f.sym_operand(tsw['d']))
        zero_t = [tb for v_, tb in tsw['ts'] if int(v_) == 0]
        numeric = tsw['o'] if k.startswith('not(') else (zero_t[0] if zero_t else tsw['o'])
        R.check(h not in f.reachable_from(numeric, avoid={bi}), 'numeric-pass-stores-inverse' + tag,
                'the numeric pass can finish a row without storing Dinv[k]', f.loc())

    R.guard(body)


def run(ctx, rep, tier):
    for cfg in (CONFIGS_THOROUGH if tier == 'thorough' else CONFIGS):
        F = ctx.facts(cfg)
        E = ctx.eff(cfg)
        G = ctx.cg(cfg)
        tag = '' if cfg == 'default' else '[%s]' % cfg
        error_discipline(rep, F, tag)
        sentinel(rep, F, tag)
        fences(rep, F, G, tag)
        symbolic_guard(rep, F, tag)
        wrapper(rep, F, tag)
        pivot_sites(rep, F, tag)
        reset_complete(rep, F, E, tag)
        triu_test(rep, F, tag)
        first_pivot_guard(rep, F, tag)
        every_pivot_finished(rep, F, tag)
        # the NotUpperTriangular rejection rests on is_triu scanning every column (C16.R7 re-run)
        from . import c16
        c16.triangle(rep, F, tag, 'C12.R13')
        # "refactoring after value updates equals factoring the updated matrix": update / scale / offset go through the
        # entry map AtoPAPt in every arm (C08.R5 back-end rule re-run)
        from . import c08, c04
        c08.kkt_mirror(c04._Ren(rep, 'C08.R5', 'C12.R10'), F, E, G, tag)
