"""C02 -- infeasibility verdicts carry a valid certificate (structural clauses)"""
from . import shared

CONFIGS = ['default', 'full']
TECHNIQUE = 'MIR decision-table extraction, who-may-write effects, units abstract interpretation (d,e,c exponents)'
EXPLANATION = (
    "Decides on the MIR of the current tree: (R1) PrimalInfeasible/DualInfeasible are constructed only in the "
    "full-tolerance check and stored only under ktratio > 1000/tol_ktratio and the documented infeasibility "
    "predicates (decision tables incl. operand signs); (R2) infeasible statuses report NaN objectives, "
    "is_infeasible = exactly the four infeasible variants; (R3) unscale normalises by kappa on the infeasible "
    "branch with one common factor for x,s,z; (R4/R5) units: certificate vectors and res_*_inf are free of d,e; "
    "partial residual definitions (signed forms rx_inf = -A'z, rz_inf = Ax + s, Px); (R6) the units premises (see C01.R9). The c-inconsistency of the infeasibility comparisons is a recorded known "
    "finding. NOT decided: z in K*, s in K (numerics)."
    " (R10) the cone list the verdict refers to is the user's: only nonnegative cones and one-dimensional SOC / PSD cones start or continue a merged run (C05.R5 re-run).")
ASSUMPTIONS = [
    'rustc MIR construction and trait resolution are correct',
    'algebra primitives have their documented meaning',
]


def run(ctx, rep, tier):
    for cfg in CONFIGS:
        F = ctx.facts(cfg)
        E = ctx.eff(cfg)
        tag = '' if cfg == 'default' else '[%s]' % cfg
        shared.status_provenance(rep, F, E, tag, 'C02.R1', statuses=('PrimalInfeasible', 'DualInfeasible'),
                                 full_fn='check_convergence_full', slot=10)
        shared.pred_infeasible(rep, F, tag, 'C02.R1p')
        shared.pred_check_convergence(rep, F, tag, 'C02.R1p')
        shared.tolerance_plumbing(rep, F, tag, 'C02.R1t', which='full')
        shared.nan_objectives(rep, F, tag, 'C02.R2')
        shared.kappa_normalisation(rep, F, tag, 'C02.R3')
    from . import units_rules
    units_rules.c02(ctx, rep)
    # the verdict is about the user's cone only if equilibration scales non-separable cones uniformly (C10.R4 re-run)
    from . import c10, c04
    for cfg in CONFIGS:
        c10.rectification(c04._Ren(rep, 'C10.R4', 'C02.R8'), ctx.facts(cfg), '' if cfg == 'default' else '[%s]' % cfg)
    # the certificate handed back refers to the user's rows: presolve reversal fills s from s, z from z (C09.R3 re-run)
    from . import c09
    for cfg in CONFIGS:
        c09.reversal(c04._Ren(rep, 'C09.R3', 'C02.R9'), ctx.facts(cfg), '' if cfg == 'default' else '[%s]' % cfg)
    # ... and to the user's cones: the clean-up pass merges only genuine orthants into nonnegative cones (C05.R5 re-run)
    from . import c05
    for cfg in CONFIGS:
        c05.input_normalisation(c04._Ren(rep, 'C05.R5', 'C02.R10'), ctx.facts(cfg), '' if cfg == 'default' else '[%s]' % cfg)
    from . import primitives
    primitives.vector_primitives(rep, ctx.facts('default'), ctx.eff('default'), '', 'C02.R7')


