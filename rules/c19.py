"""C19 -- saving to JSON and loading back reproduces the problem (structural clauses)"""
import re
from engine.mir import last_seg, show, AnchorError, strip_generics
from engine.preds import canon, Walker
from .common import *

CONFIGS = ['default', 'full']
TECHNIQUE = 'units abstract interpretation of the export, post-dominance of the un-equilibration, sanitize/desanitize sibling inverse, serde field coverage, taint/dominance validate-before-use, decision table of the validator'
EXPLANATION = (
    "Numeric round-trip error and fuzzed corruption are NOT decided. Decided on the MIR of the current tree: (R1) "
    "save_to_file un-equilibrates clones of P,q,A,b with (dinv,dinv,1/c), (dinv,1/c), (einv,dinv), (einv) on every "
    "path before serialisation, unconditionally, and never writes the solver's own data (units check in the units "
    "engine); (R2) sanitize/desanitize are mutually inverse on time_limit, every field of the serialised structs is "
    "emitted by the derived serialiser, and a settings argument overrides the stored one; (R3) every fallible call of "
    "load_from_file before the constructor is propagated with `?`, none unwrapped; the deserialised P,q,A,b,cones "
    "reach the constructor only after a dominating validator whose decision table rejects every violated format / "
    "dimension relation, and the settings are validated; (R4) the dimension part of CscMatrix::check_format accepts a "
    "matrix only if len(rowval)=len(nzval), len(colptr)=n+1 and colptr[n]=nnz hold as equalities and colptr is monotone, and its "
    "per-entry part rejects only for a row-order violation inside a column or a row index >= m, each quantified over the stored "
    "entries (no aggregate with a default), and accepts only after the bound test; (R3s) the settings validator and the LDL "
    "dispatcher compare the same function of the stored method string."
    " R3 also: the parse entry point rejects trailing input (from_str / from_slice / from_reader, or Deserializer::end before the constructor)."
    " (R6) units premises re-run: the stored data carry exactly the recorded scalings d, e, c (what the export divides by)."
    ' R3 also: nothing looks inside a matrix from the file (nnz(), indexing) before check_format has accepted it - not in the validator and not in its error formatters.')
ASSUMPTIONS = ['rustc MIR construction and trait resolution are correct',
               'serde_json reports malformed / truncated text as Err', 'the closures of CscMatrix::check_format mean what they say for every column (index arithmetic of the slices: C16 territory)']

EXPORT = [
    ('lrscale', 'P', ['self.data.equilibration.dinv', 'self.data.equilibration.dinv']),
    ('hadamard', 'q', ['self.data.equilibration.dinv']),
    ('scale', 'P', ['recip(self.data.equilibration.c)']),
    ('scale', 'q', ['recip(self.data.equilibration.c)']),
    ('lrscale', 'A', ['self.data.equilibration.einv', 'self.data.equilibration.dinv']),
    ('hadamard', 'b', ['self.data.equilibration.einv']),
]


def export(rep, F, E, tag):
    R = rep.rule('C19.R1', 'save_to_file: the exported P,q,A,b are un-equilibrated clones, unconditionally')

    def body():
        f = F.one(name='save_to_file')
        ser = [c for c in f.calls if c.callee.name in ('to_string', 'to_writer', 'to_vec', 'to_string_pretty')]
        R.check(len(ser) == 1, 'serialise-site' + tag, '%d serialisation calls in save_to_file' % len(ser), f.loc())
        if not ser:
            return
        ser = ser[0]
        # exported object is built from clones of the solver data
        ok = False
        for bi, si, st in f.assignments():
            rv = st['rv']
            if rv['k'] == 'agg' and rv['ak']['a'] == 'adt' and last_seg(strip_generics(rv['ak']['adt'])) == 'JsonProblemData':
                ok = True
                for nm, op in zip(rv['ak']['fields'], rv['ops']):
                    src = canon(f.sym_operand(op))
                    want = {'P': 'self.data.P', 'q': 'self.data.q', 'A': 'self.data.A', 'b': 'self.data.b', 'cones': 'self.data.cones', 'settings': 'self.settings'}[nm]
                    R.check(src == want, 'clone-source|%s%s' % (nm, tag), 'exported %s is built from %s, expected a clone of %s' % (nm, src, want), f.loc(st['sp']))
                    # canon makes clone() transparent; make sure a clone call exists for it
        R.check(ok, 'json-aggregate' + tag, 'JsonProblemData aggregate not found')
        ncl = len([c for c in f.calls if c.callee.name == 'clone'])
        R.check(ncl >= 6, 'clones' + tag, 'only %d clone() calls: the export may alias the solver data' % ncl, f.loc())
        for r, ch in E.W[f.key]:
            if r == ('param', 1):
                R.bad('writes-self%s' % tag, 'save_to_file writes the solver (%s)' % (ch,), f.loc())
        sn = one_call(f, 'sanitize_settings')
        R.check(f.dominates(sn.bb, ser.bb), 'sanitize-before-serialise' + tag, 'settings are not sanitised before serialisation', f.loc(sn.sp))
        # "loaded data equal the originals": the clones may only be *re-valued* (un-scaling); no call that changes the stored pattern
        # of P or A (dropzeros, to_triu, select_rows, canonicalize, set_entry ...) - an explicitly stored zero is part of the user's data
        # (its slot is what update_P / update_A address after loading)
        VALUE_ONLY = {'lrscale', 'lscale', 'rscale', 'scale', 'negate', 'hadamard', 'clone', 'deref', 'deref_mut', 'nnz', 'nrows', 'ncols', 'size', 'is_square', 'is_triu'}
        for c in f.calls:
            if not c.args:
                continue
            a0 = canon(f.sym_operand(c.args[0]))
            if a0 in ('self.data.P', 'self.data.A') and c.callee.name not in VALUE_ONLY and 'serde' not in (c.callee.key or '') and c.callee.name not in ('to_string', 'serialize'):
                if f.dominates(c.bb, ser.bb) and 'clone' in [x.callee.name for x in f.calls]:
                    R.bad('pattern-preserved|%s|%s%s' % (a0[-1], c.callee.name, tag),
                          'save_to_file applies %s to the exported %s: only value-rescaling operations are allowed on the clones, the stored sparsity pattern (including explicit zeros) '
                          'is part of the problem that must round-trip' % (c.callee.name, a0[-1]), f.loc(c.sp))

    R.guard(body)


def settings_roundtrip(rep, F, tag):
    R = rep.rule('C19.R2', 'settings round trip: sanitize/desanitize inverse, no skipped fields, override wins')

    def body():
        sa = F.one(name='sanitize_settings')
        de = F.one(name='desanitize_settings')

        def table(f):
            out = []
            for val, ret, ev, tr in Walker(f).leaves():
                st = [(e[1], e[2]) for e in ev if e[0] == 'store']
                out.append((val, st))
            return out
        ts, td = table(sa), table(de)

        def pairs(t):
            res = []
            for val, st in t:
                for k, v in val.items():
                    if v == 1 and k.startswith('eq('):
                        for tgt, x in st:
                            res.append((k, tgt, x))
            return res
        ps, pd = pairs(ts), pairs(td)
        R.check(len(ps) == 1 and len(pd) == 1, 'single-mapping' + tag, 'sanitize maps %s, desanitize maps %s' % (ps, pd), sa.loc())
        if len(ps) == 1 and len(pd) == 1:
            (k1, t1, x1), (k2, t2, x2) = ps[0], pd[0]
            R.check(t1 == t2 == 'arg1.time_limit', 'same-field' + tag, 'sanitize writes %s, desanitize writes %s' % (t1, t2), sa.loc())
            R.check(x2 in k1 and x1 in k2, 'mutually-inverse' + tag,
                    'sanitize: %s -> %s, desanitize: %s -> %s are not mutually inverse' % (k1, x1, k2, x2), de.loc())
        # serde field coverage
        for adt_name in ('DefaultSettings', 'JsonProblemData', 'CscMatrix'):
            adt = F.adt(adt_name)
            fields = [fl['n'] for fl in adt['variants'][0]['fields']]
            ser = [g for g in F.fns if g.name == 'serialize' and g.from_expansion and adt_name in (g.impl_self or '')]
            if not R.check(len(ser) == 1, 'serializer|%s%s' % (adt_name, tag), '%d derived serialisers for %s' % (len(ser), adt_name)):
                continue
            g = ser[0]
            emitted = []
            for c in g.calls:
                if c.callee.name == 'serialize_field':
                    emitted.append(canon(g.sym_operand(c.args[1])).strip('"'))
            missing = [x for x in fields if x not in emitted]
            R.check(not missing, 'all-fields|%s%s' % (adt_name, tag), 'fields %s of %s are not serialised (serde skip?)' % (missing, adt_name),
                    '%s:%d' % (adt['file'], adt['sp']['l']), detail={'fields': len(fields), 'emitted': len(emitted)})
        lf = F.one(name='load_from_file')
        uo = [c for c in lf.calls if c.callee.name == 'unwrap_or']
        nw = [c for c in lf.calls if c.callee.name == 'new' and 'solver' in (c.callee.key or '')]
        if len(nw) != 1:
            raise AnchorError('constructor call in load_from_file')
        # the settings handed to the constructor are the override when one is given, the stored ones otherwise - written as unwrap_or or as a match
        n_ctor = 0
        for val, ret, ev, tr in Walker(lf).leaves():
            for e in ev:
                if e[0] == 'call' and e[1] == 'new' and e[3] == nw[0].bb:
                    a = split_args(str(e[2]))
                    sarg = resolve_path_locals(lf, a[-1], tr) if a else ''
                    d = [v for k, v in val.items() if k.startswith('discr(arg2)')]
                    ok = ('unwrap_or(arg2, ' in sarg and '.settings' in sarg) or (d and d[0] == 1 and sarg.startswith('arg2@Some.0')) or (d and d[0] == 0 and sarg.endswith('.settings'))
                    n_ctor += 1
                    R.check(ok, 'override' + tag, 'load_from_file constructs the solver with the settings %s under %s: expected the override if given, the stored settings otherwise' % (
                        sarg[:80], {k: v for k, v in val.items() if k.startswith('discr(arg2)')}), lf.loc())
        R.check(n_ctor >= 1, 'override-used' + tag, 'no path of load_from_file reaches the constructor', lf.loc())
        ds = one_call(lf, 'desanitize_settings')
        R.check(all(lf.dominates(ds.bb, c.bb) for c in uo) and lf.dominates(ds.bb, nw[0].bb), 'desanitize-first' + tag, 'stored settings are used before being desanitised', lf.loc())

    R.guard(body)


RELATIONS = {
    'P.format': lambda k: k.startswith('discr(branch(map_err(check_format(arg1)'),
    'A.format': lambda k: k.startswith('discr(branch(map_err(check_format(arg3)'),
    'P.square': lambda k: 'is_square(arg1)' in k,
    'P~q': lambda k: 'len(arg2)' in k and 'ncols(arg1)' in k,
    'A~q': lambda k: 'len(arg2)' in k and 'ncols(arg3)' in k,
    'A~b': lambda k: 'len(arg4)' in k and 'nrows(arg3)' in k,
    'cones~b': lambda k: 'fold(' in k and 'len(arg4)' in k,
}


def holds(k, v):
    """does atom k with value v mean the relation is satisfied?"""
    if k.startswith('discr(branch('):
        return v == 0          # ControlFlow::Continue
    if k.startswith('ne('):
        return v == 0
    if k.startswith('not('):
        return v == 0
    return v == 1


def load_discipline(rep, F, G, tag):
    R = rep.rule('C19.R3', 'load_from_file: errors propagated, untrusted data validated before the constructor')

    def body():
        lf = F.one(name='load_from_file')
        nw = [c for c in lf.calls if c.callee.name == 'new' and 'solver' in (c.callee.key or '')]
        if len(nw) != 1:
            raise AnchorError('constructor call in load_from_file')
        nw = nw[0]
        for c in lf.calls:
            if c.callee.name in ('unwrap', 'expect', 'unwrap_unchecked') and lf.dominates(c.bb, nw.bb):
                R.bad('unwrap|%s%s' % (canon(lf.sym_operand(c.args[0]))[:40], tag), 'load_from_file unwraps %s: a malformed file would panic' % canon(lf.sym_operand(c.args[0]))[:60], lf.loc(c.sp))
        fall = [c for c in lf.calls if re.search(r'->\s*(std::result::)?Result<', c.callee.fty or '') and c is not nw]
        R.check(len(fall) >= 3, 'fallible-sites' + tag, 'only %d fallible calls in load_from_file' % len(fall))
        for c in fall:
            d = c.dest
            used = any(x.callee.name in ('branch', 'map_err') and any(((a.get('c') or a.get('m') or {}).get('l') == d['l']) for a in x.args) for x in lf.calls)
            R.check(used or d['l'] == 0, 'propagated|%s%s' % (c.callee.name, tag), 'the Result of %s is not propagated with `?`' % c.callee.name, lf.loc(c.sp))
        # validators: calls dominating the constructor that receive the tainted values and are propagated
        tainted = [canon(lf.sym_operand(a)) for a in nw.args[:5]]
        vals = []
        for c in lf.calls:
            if c is nw or not lf.dominates(c.bb, nw.bb) or c.bb == nw.bb:
                continue
            a = [canon(lf.sym_operand(x)) for x in c.args]
            if all(t in a for t in tainted):
                vals.append(c)
        if not R.check(len(vals) >= 1, 'validator-dominates' + tag,
                       'the deserialised P, q, A, b, cones reach the solver constructor without a dominating validation call', lf.loc(nw.sp)):
            return
        v = vals[0]
        tk = G.targets_of(lf, v)
        if not tk:
            raise AnchorError('validator is not a crate-local function')
        vf = F.by_key[tk[0]][0]
        # on the validator's Err the constructor is not reached
        for val, ret, ev, tr in Walker(lf).leaves():
            k = [x for x in val if x.startswith('discr(branch(%s(' % vf.name)]
            built = any(e[0] == 'call' and e[1] == 'new' and 'DefaultProblemData' not in e[2] and e[3] == nw.bb for e in ev)
            if k and val[k[0]] == 1:
                R.check(not built, 'validator-err-stops' + tag, 'the constructor runs although validation failed', lf.loc(nw.sp))
        # decision table of the validator
        leaves = Walker(vf).leaves()
        atoms = set()
        for val, ret, ev, tr in leaves:
            atoms |= set(val)
        for nm, pred in RELATIONS.items():
            R.check(any(pred(k) for k in atoms), 'relation-tested|%s%s' % (nm, tag), 'the validator does not test %s (atoms %s)' % (nm, sorted(a[:40] for a in atoms)), vf.loc())
        for val, ret, ev, tr in leaves:
            if ret[0] == 'diverge':
                continue
            violated = [nm for nm, pred in RELATIONS.items() for k, x in val.items() if pred(k) and not holds(k, x)]
            out = None
            for b in tr:
                for st in vf.blocks[b]['s']:
                    if 'p' in st and 'rv' in st and st['p']['l'] == 0 and not st['p']['p']:
                        out = canon(vf.sym_rvalue(st['rv']))
                c = vf.call_at.get(b)
                if c is not None and not c.dest['p'] and c.dest['l'] == 0:
                    out = 'call:' + c.callee.name
            is_err = out is not None and ('Result::Err' in out or 'from_residual' in out)
            is_ok = out is not None and 'Result::Ok' in out
            if violated:
                R.check(is_err, 'rejects|%s%s' % ('+'.join(sorted(set(violated))), tag),
                        'the validator accepts data violating %s (valuation %s returns %s)' % (sorted(set(violated)), {k[:40]: x for k, x in val.items()}, out), vf.loc())
            else:
                if len(val) >= len(RELATIONS):
                    R.check(is_ok, 'accepts-valid' + tag, 'the validator rejects consistent data: %s' % out, vf.loc())
        # until check_format has accepted a matrix nothing may look inside it: methods that index colptr / rowval (nnz() is colptr[n]) panic on
        # exactly the inconsistencies check_format exists to report.  Field-only queries are harmless.  Closures of the validator (error
        # formatters run when a check failed) may use the field-only queries only.
        SAFE = {'check_format', 'size', 'nrows', 'ncols', 'is_square', 'fmt', 'clone', 'deref', 'as_ref', 'borrow'}
        def csc_calls(g):
            return [c for c in g.calls if c.args and 'CscMatrix<' in re.sub(r'^&(mut )?', '', g.operand_ty(c.args[0]) if hasattr(g, 'operand_ty') else '') ]
        def recv_is_csc(g, c):
            if not c.args:
                return False
            a = c.args[0]
            pl = a.get('c') or a.get('m')
            if not pl:
                return False
            ty = g.local_ty(pl['l'])
            return re.fullmatch(r'&*(mut )?&*(algebra::csc::core::)?CscMatrix<.*>', ty.strip()) is not None and not pl.get('p')
        cfs = [c for c in vf.calls if c.callee.name == 'check_format']
        R.check(len(cfs) >= 2, 'validator-checks-both' + tag, 'the validator calls check_format %d times (P and A expected)' % len(cfs), vf.loc())
        for c in vf.calls:
            if recv_is_csc(vf, c) and c.callee.name not in SAFE:
                R.check(all(vf.dominates(x.bb, c.bb) and x.bb != c.bb for x in cfs), 'untrusted-before-format|%s%s' % (c.callee.name, tag),
                        'the validator calls %s on a matrix from the file before check_format has accepted it' % c.callee.name, vf.loc(c.sp))
        for g in F.closures_of.get(vf.key, []):
            for c in g.calls:
                if recv_is_csc(g, c) and c.callee.name not in SAFE:
                    R.bad('untrusted-in-error-path|%s%s' % (c.callee.name, tag),
                          'an error formatter of the validator calls %s on the rejected matrix: it indexes the arrays whose inconsistency is being reported, so a '
                          'malformed file panics instead of returning Err' % c.callee.name, g.loc(c.sp))
        # the whole file is one problem: the parse entry point must reject trailing input.  serde_json::from_str / from_slice /
        # from_reader do (they call Deserializer::end); a hand-driven Deserializer must be followed by end() before the constructor
        whole = [c for c in lf.calls if (c.callee.key or '') in ('serde_json::from_str', 'serde_json::from_slice', 'serde_json::from_reader',
                                                                 'serde_json::de::from_str', 'serde_json::de::from_slice', 'serde_json::de::from_reader')]
        manual = [c for c in lf.calls if c.callee.name == 'deserialize' and 'Deserializer' in (c.callee.fty or '')]
        ends = [c for c in lf.calls if c.callee.name == 'end' and 'serde_json' in (c.callee.key or '') and lf.dominates(c.bb, nw.bb)]
        R.check(len(whole) + len(manual) >= 1, 'parse-site' + tag, 'no serde_json parse entry point found in load_from_file', lf.loc())
        for c in manual:
            R.check(any(lf.dominates(c.bb, e.bb) for e in ends), 'whole-file-parsed' + tag,
                    'load_from_file drives a serde_json Deserializer by hand and never calls end(): a file with anything after the first complete '
                    'object (stale tail of an overwritten file, a stray brace that closes the object before "settings") loads silently instead of '
                    'being reported', lf.loc(c.sp))
        for c in whole:
            R.check(lf.dominates(c.bb, nw.bb), 'whole-file-parsed' + tag, 'the parse does not dominate the constructor', lf.loc(c.sp))
        # settings validated too
        sv = [c for c in lf.calls if c.callee.name == 'validate' and lf.dominates(c.bb, nw.bb)]
        R.check(len(sv) >= 1, 'settings-validated' + tag, 'the settings taken from the file are not validated before use', lf.loc())
        # ... and what is validated is what is used: the settings object handed to the constructor (override or stored)
        used = canon(lf.sym_operand(nw.args[-1])) if nw.args else None
        vals = [canon(lf.sym_operand(c.args[0])) for c in sv if c.args]
        R.check(used is not None and used in vals, 'settings-validated-are-used' + tag,
                'load_from_file validates %s but constructs the solver with %s: an invalid override is not caught (panic in the constructor) and a valid '
                'override cannot rescue a file whose stored settings are unusable' % ([v[:70] for v in vals], used and used[:70]), lf.loc())

    R.guard(body)


def matrix_validator(rep, F, tag):
    """load_from_file vets the matrices of an untrusted file with CscMatrix::check_format; its dimension part must
    accept a matrix only if the five consistency relations hold *as equalities* (a one-sided test lets a short
    colptr end through to the constructor, which then panics)."""
    R = rep.rule('C19.R4', 'CscMatrix::check_dimensions returns Ok only when len(rowval)=len(nzval), len(colptr)=n+1, colptr[n]=nnz hold as equalities and colptr is monotone; check_format starts with it')

    def body():
        f = F.one(name='check_dimensions', adt='CscMatrix')
        want = {
            'rowval~nzval': [{'len(self.nzval)', 'len(self.rowval)'}],
            'colptr~n': [{'self.n', 'subwithoverflow(len(self.colptr), 1_usize).0'}, {'self.n', 'sub(len(self.colptr), 1_usize)'},
                         {'len(self.colptr)', 'addwithoverflow(self.n, 1_usize).0'}, {'len(self.colptr)', 'add(self.n, 1_usize)'}],
            'colptr[n]~nnz': [{'index(self.colptr, self.n)', 'len(self.rowval)'}, {'self.colptr[self.n]', 'len(self.rowval)'},
                              {'index(self.colptr, self.n)', 'len(self.nzval)'}, {'self.colptr[self.n]', 'len(self.nzval)'}],
        }
        n_ok = 0
        for val, ret, ev, tr in Walker(f, cut_loops=True).leaves():
            if ret[0] != 's' or not str(ret[1]).startswith('Result::Ok'):
                continue
            n_ok += 1
            for rel, forms in want.items():
                good = False
                for k, v in val.items():
                    if k.startswith(('ne(', 'eq(')):
                        args = set(split_args(k))
                        if args in forms and ((k.startswith('ne(') and v == 0) or (k.startswith('eq(') and v == 1)):
                            good = True
                R.check(good, 'accepts-only|%s%s' % (rel, tag),
                        'check_dimensions returns Ok on a path that has not established %s as an equality (tests on the path: %s)' % (rel, sorted(val)), f.loc())
            mono = [(k, v) for k, v in val.items() if 'windows(self.colptr' in k]
            R.check(bool(mono) and all(v == 0 for k, v in mono), 'accepts-only|colptr-monotone' + tag, 'check_dimensions returns Ok without the colptr monotonicity test', f.loc())
            ne = [(k, v) for k, v in val.items() if k.startswith('is_empty(self.colptr') or k in ('eq(len(self.colptr), 0_usize)', 'ne(len(self.colptr), 0_usize)')]
            R.check(bool(ne), 'accepts-only|colptr-nonempty' + tag, 'check_dimensions indexes colptr without testing that it is non-empty', f.loc())
        R.check(n_ok >= 1, 'ok-paths' + tag, 'no Ok path in check_dimensions (anchor drift)', f.loc())
        # the monotonicity closure compares neighbours strictly the right way round
        clos = F.closures_of.get(f.key, [])
        ok = False
        for g in clos:
            r = canon(g.sym_local(0))
            if r in ('lt(arg2[1_usize], arg2[0_usize])', 'lt(index(arg2, 1_usize), index(arg2, 0_usize))'):
                ok = True
        R.check(ok, 'monotone-closure' + tag, 'the colptr monotonicity test is not c[0] > c[1] (%s)' % [canon(g.sym_local(0)) for g in clos], f.loc())
        cf = F.one(name='check_format', adt='CscMatrix')
        # the per-entry part: a matrix is rejected only for an unsorted / duplicate row index inside a column or a row index
        # >= m, each a test quantified over the stored entries (an aggregate with a default, e.g. max().unwrap_or(0) >= m,
        # rejects the valid matrix with no rows); it is accepted only after both tests
        clos = {canon(g_.sym_local(0)) for g_ in F.closures_of.get(cf.key, [])}
        sorted_ok = any(re.fullmatch(r'le\(arg2\[1_usize\], arg2\[0_usize\]\)', c_) for c_ in clos)
        bound_all = any(re.fullmatch(r'lt\(arg2, arg1\._ref__self\.m\)', c_) for c_ in clos)
        bound_any = any(re.fullmatch(r'le\(arg1\._ref__self\.m, arg2\)', c_) for c_ in clos)
        n_err = n_okp = 0
        for val, ret, ev, tr in Walker(cf, cut_loops=True).leaves():
            if ret[0] != 's':
                continue
            r_ = str(ret[1])
            own = {k: v for k, v in val.items() if not k.startswith('discr(')}
            if r_.startswith('Result::Err('):
                n_err += 1
                known = False
                for k, v in own.items():
                    kk = k.replace('withoverflow', '')
                    if kk.startswith('any(windows(index(self.rowval, Range::Range(index(self.colptr, ') and v == 1 and sorted_ok:
                        known = True
                    if kk.startswith('all(iter(self.rowval)') and v == 0 and bound_all:
                        known = True
                    if kk.startswith('any(iter(self.rowval)') and v == 1 and bound_any:
                        known = True
                    if re.match(r'le\(self\.m, next\((into_iter|iter)\(.*self\.rowval', kk) and v == 1:
                        known = True
                R.check(known, 'rejects-only|%s%s' % (r_[12:40], tag),
                        'check_format returns %s under %s, which is not one of the per-entry tests (row order inside a column, row index < m over all '
                        'stored entries): a well-formed matrix (e.g. one with no rows or no entries) may be rejected' % (r_, sorted(own)[:2]), cf.loc())
            elif r_.startswith('Result::Ok'):
                n_okp += 1
                has_bound = any((k.startswith('all(iter(self.rowval)') and v == 1 and bound_all) or (k.startswith('any(iter(self.rowval)') and v == 0 and bound_any) for k, v in own.items())
                R.check(has_bound or not own, 'accepts-after-bound' + tag, 'check_format returns Ok without the row-index bound test (%s)' % sorted(own)[:2], cf.loc()) if own else None
        R.check(n_err >= 2 and n_okp >= 1, 'format-paths' + tag, 'check_format: %d rejecting and %d accepting paths analysed' % (n_err, n_okp), cf.loc())
        cd = calls_named(cf, 'check_dimensions')
        R.check(len(cd) == 1, 'format-starts-with-dimensions' + tag,
                'check_format does not call check_dimensions', cf.loc())
        if len(cd) == 1:
            others = [c for c in cf.calls if c.callee.name in ('windows', 'all', 'index') and not cf.dominates(cd[0].bb, c.bb)]
            R.check(not others, 'dimensions-first' + tag, 'check_format reads the index arrays before check_dimensions has passed', cf.loc())

    R.guard(body)


def run(ctx, rep, tier):
    # the file stores the internal b: it equals the user's b except for entries above +bound (C09.R4 re-run: the cap is one-sided)
    from . import c09 as _c09, c04 as _c04
    _c09.cap_unconditional(_c04._Ren(rep, 'C09.R4', 'C19.R7'), ctx.facts('default'), '')
    for cfg in CONFIGS:
        F = ctx.facts(cfg)
        E = ctx.eff(cfg)
        G = ctx.cg(cfg)
        tag = '' if cfg == 'default' else '[%s]' % cfg
        export(rep, F, E, tag)
        settings_roundtrip(rep, F, tag)
        load_discipline(rep, F, G, tag)
        matrix_validator(rep, F, tag)
        from . import c04
        c04.settings_strings(c04._Ren(rep, 'C04.R7b', 'C19.R3s'), F, tag)
    from . import units_rules
    units_rules.c19(ctx, rep)
    from . import primitives
    primitives.vector_primitives(rep, ctx.facts('default'), ctx.eff('default'), '', 'C19.R5')


