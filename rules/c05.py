"""C05 -- equivalent formulations / configurations agree; repeat runs are bit-identical
(structural preconditions only)"""
import re
from engine.mir import last_seg, show, AnchorError, strip_generics
from engine.preds import canon, Walker
from engine.effects import IDX, fmt_path
from .common import *
from . import shared
from .c04 import api_roots

CONFIGS = ['default', 'full']
TECHNIQUE = 'global-state inventory, call-graph who-may-call rules, effect analysis (who-may-read clocks), write-completeness of re-initialisation, compile-fail Send/Sync witnesses'
EXPLANATION = (
    "Numerical agreement across formulations is NOT decided. Decided on the MIR of the current tree are the "
    "structural preconditions the statement names: (R1) the only global / interior-mutable state is the infinity "
    "bound, read only at construction; (R2) no hash-order-dependent iteration reachable from the API except "
    "reviewed order-insensitive folds; (R3) clocks are read only by the timers module and solve_time feeds only "
    "the MaxTime test and reports; (R4, thorough) DefaultSolver<f64>: Send and stream targets must be Send+Sync "
    "(compile-fail witness); (R5) P is normalised to its upper triangle and cones are collapsed before any other "
    "use; (R6) every solve re-initialises: info.reset and default_start precede the loop, each arm writes all of "
    "x,s,z,tau,kappa, and set_identity_scaling wholly rewrites every scaling field the KKT update reads, and every cone's unit_initialization wholly overwrites both of its vectors on every path; (R7) the units premises: every stage keeps the data in the coordinates the equilibration records; (R8) the LDL back ends agree on the value-update entry points (C08.R5 re-run); (R9) cone rectification of the equilibration (C10.R4 re-run)."
    " R6 also: a vector that unit_initialization copies into the other one is final when copied (no later write to the source)."
    " (R10) the interior shift of the start point is the three-way table of C07.R5 (the zero-cone slack is forced to zero on every branch); (R11) solve_initial_point produces x, s, z from the data on every completing path."
    " (R12) to_triu, through which a full symmetric P is normalised, keeps exactly the upper triangle with a cumulative colptr (C16.R7 re-run)."
    ' (R13) costs, residuals and gaps are computed by the documented relative formulas (C03.R2 re-run): objective scaling invariance of the verdict rests on the absolute values and max(1, .) normalisers.'
    ' (R14) the recorded static regulariser (diagonal_regularizer) is write-only. R5 also: a merged run of nonnegative cones is started only by a nonnegative cone or a one-dimensional SOC / PSD cone.')
ASSUMPTIONS = [
    'rustc MIR construction and trait resolution are correct',
    'IndexSet/IndexMap iterate in insertion order; Vec/slice iteration is ordered',
    'external crates (amd, faer) are deterministic',
]

HASH_ITER = {'iter', 'iter_mut', 'keys', 'values', 'values_mut', 'drain', 'into_iter', 'retain', 'into_keys',
             'into_values', 'extract_if'}
# reviewed order-insensitive uses: (function short name, method) -> reason
HASH_ALLOW = {
    ('SubTimersMap::suspend', 'values_mut'): 'per-entry effect, no cross-entry dependence',
    ('SubTimersMap::resume', 'values_mut'): 'per-entry effect, no cross-entry dependence',
    ('SubTimersMap::total_time', 'values'): 'sum of integer Durations is order independent',
    ('CliqueGraphMergeStrategy::update_strategy', 'values_mut'): 'removes one key from every adjacency set: per-entry effect',
}


def _per_entry_only(f, m):
    """the elements of a hash-map iteration are used only as the receiver of remove-like calls with a loop-invariant key:
    a per-entry effect, independent of the iteration order"""
    pat = re.compile(r'next\(into_iter\(%s\((?:[^()]|\([^()]*\))*\)\)\)@Some\.0(\.1)?' % m)
    uses = 0
    for val, ret, ev, tr in Walker(f, cut_loops=True).leaves():
        for e in ev:
            if e[0] == 'store' and (pat.search(str(e[1])) or pat.search(str(e[2]))):
                return False
            if e[0] != 'call' or not pat.search(str(e[2])):
                continue
            if e[1] in ('next', 'into_iter', m, 'deref', 'deref_mut'):
                continue
            a = split_args(str(e[2]))
            if e[1] in ('shift_remove', 'swap_remove', 'remove') and len(a) == 2 and pat.fullmatch(a[0]) and 'next(into_iter(' not in a[1]:
                uses += 1
                continue
            return False
    return uses >= 1


def global_state(rep, F, G, tag):
    R = rep.rule('C05.R1', 'global-state inventory and who may touch the infinity bound')

    def body():
        st = sorted(strip_generics(s['path']) for s in F.statics)
        for s in st:
            R.check('infbounds::INFINITY' in s, 'static|%s%s' % (s, tag),
                    'unexpected static item %s: shared state between solver instances' % s)
        R.check(any('infbounds::INFINITY' in s for s in st), 'static-anchor' + tag, 'INFINITY static not found')
        for k, a in F.adts.items():
            for v in a['variants']:
                for fl in v['fields']:
                    if re.search(r'\b(Cell|RefCell|Mutex|RwLock|Atomic\w*|OnceCell|OnceLock|UnsafeCell|Rc|Arc)\b', fl['ty']):
                        R.check(k.endswith('utils::atomic::AtomicF64'), 'interior-mutable|%s.%s%s' % (last_seg(k), fl['n'], tag),
                                'field %s.%s has interior-mutable / shared type %s' % (k, fl['n'], fl['ty']),
                                '%s:%d' % (a['file'], a['sp']['l']))
        gi = F.one(name='get_infinity')
        si = F.one(name='set_infinity')
        di = F.one(name='default_infinity')
        callers = set(G.callers_of(gi.key))
        allowed = {F.one(name='new', adt='Presolver').key, F.one(name='new', adt='DefaultProblemData').key}
        for c in callers:
            R.check(c in allowed, 'get_infinity-caller|%s%s' % (short(c), tag),
                    'get_infinity is read in %s; the bound must be captured at construction only' % c,
                    F.by_key[c][0].loc())
        R.check(callers == allowed, 'get_infinity-callers' + tag, 'get_infinity callers are %s' % sorted(short(c) for c in callers))
        late_roots = [k for k in api_roots(F) if 'solver::new' not in k and 'load_from_file' not in k]
        reach = G.reachable(late_roots)
        for f in (gi, si, di):
            R.check(f.key not in reach, 'not-reachable-after-construction|%s%s' % (f.name, tag),
                    '%s is reachable from solve/update/save: %s' % (
                        f.name, ' -> '.join(short(x) for x in (G.path(late_roots, f.key) or []))), f.loc())
        # thread-locals
        n = 0
        for f in F.fns:
            for bi, si_, st_ in f.assignments():
                if st_['rv']['k'] == 'tlref':
                    n += 1
                    R.bad('thread-local|%s%s' % (short(f.key), tag), 'thread-local access in %s' % f.key, f.loc(st_['sp']))
        R.ok('no-thread-locals' + tag, {'found': n})

    R.guard(body)


def hash_order(rep, F, G, tag):
    R = rep.rule('C05.R2', 'no hash-order-dependent iteration reachable from the API roots')

    def body():
        roots = api_roots(F)
        reach = G.reachable(roots)
        n = 0
        for f in F.fns:
            for c in f.calls:
                k = (c.callee.res_key or c.callee.key or '')
                st = c.callee.selfty or ''
                ishash = ('collections::HashMap' in k or 'collections::HashSet' in k or 'hash_map::' in k or
                          'hash_set::' in k or 'HashMap<' in st or 'HashSet<' in st)
                if not ishash:
                    continue
                m = c.callee.name
                if m not in HASH_ITER:
                    continue
                n += 1
                fn_short = short(f.key)
                if (fn_short, m) in HASH_ALLOW:
                    R.ok('allowed|%s|%s%s' % (fn_short, m, tag), HASH_ALLOW[(fn_short, m)])
                    continue
                if m in ('iter_mut', 'values_mut') and _per_entry_only(f, m):
                    R.ok('per-entry|%s|%s%s' % (fn_short, m, tag), 'every use of the iteration element is a removal of a loop-invariant key from that element')
                    continue
                if f.key not in reach and (f.root or '') not in reach:
                    R.ok('unreachable|%s|%s%s' % (fn_short, m, tag))
                    continue
                R.bad('hash-iteration|%s|%s%s' % (fn_short, m, tag),
                      '%s iterates a HashMap/HashSet with %s and is reachable from the API: results may depend '
                      'on hash order' % (f.key, m), f.loc(c.sp))
        R.check(n >= 3, 'hash-iter-sites' + tag, 'only %d hash-iteration sites seen (anchor drift)' % n)
        # type_counts accessed by key only
        cc = F.adt('CompositeCone')

    R.guard(body)


def clocks(rep, F, E, G, tag):
    R = rep.rule('C05.R3', 'clocks are read only inside the timers module; solve_time feeds only MaxTime and reports')

    def body():
        n = 0
        for f in F.fns:
            for c in f.calls:
                k = c.callee.key or ''
                if re.search(r'time::(Instant|SystemTime)', k) or 'web_time' in k:
                    n += 1
                    R.check(f.key.startswith('timers::timers::'), 'clock-read|%s%s' % (short(f.key), tag),
                            '%s reads the clock (%s)' % (f.key, k), f.loc(c.sp))
        R.check(n >= 4, 'clock-sites' + tag, 'only %d clock reads found' % n)
        allowed = {'check_termination', 'print_footer', 'finalize', 'print_status'}
        for f in F.fns:
            if f.impl_exp or f.from_expansion:
                continue
            hits = E.direct_read_sites(f, 'DefaultInfo', 'solve_time')
            for bi, sp, what in hits:
                R.check(f.name in allowed, 'solve_time-reader|%s%s' % (short(f.key), tag),
                        '%s reads DefaultInfo.solve_time: wall-clock time must not influence the iterates' % f.key,
                        f.loc(sp))
        # total_time consumers
        tt = F.one(name='total_time', adt='Timers')
        for c in G.callers_of(tt.key):
            g = F.by_key[c][0]
            R.check(g.name in ('update', 'finalize') and g.impl_adt and 'DefaultInfo' in g.impl_adt,
                    'total_time-caller|%s%s' % (short(c), tag), 'Timers::total_time is consumed by %s' % c, g.loc())

    R.guard(body)


def collapse_only_nonnegative(R, F, tag):
    """new_collapsed merges runs of cones into one nonnegative cone.  Only cones that *are* nonnegative orthants may be merged:
    NonnegativeConeT(d), and the one-dimensional second-order / PSD cones; empty cones are skipped.  Anything else (in particular
    ZeroConeT(1): an equality) must end the run, otherwise the constraint changes its meaning."""
    f = F.one(name='collapse')
    names = {int(v['discr']): v['n'] for v in F.adt('SupportedConeT')['variants'] if v['discr'] is not None}
    n = 0
    for val, ret, ev, tr in Walker(f, cut_loops=True).leaves():
        if ret[0] != 'cut':
            continue
        n += 1
        empty = any(k.startswith('ne(0_usize, nvars(') and v == 0 for k, v in val.items()) or any(k.startswith('eq(0_usize, nvars(') and v == 1 for k, v in val.items())
        d = [v for k, v in val.items() if k.startswith('discr(peek(arg1)@Some.0')]
        kind = names.get(d[0]) if len(d) == 1 else None
        one = any(('@%s.0' % kind) in k and v == 1 for k, v in val.items()) if kind else False
        ok = empty or kind == 'NonnegativeConeT' or (kind in ('SecondOrderConeT', 'PSDTriangleConeT') and one)
        R.check(ok, 'collapse-only-orthants|%s%s' % (kind or sorted(k[:30] for k in val)[-1:], tag),
                'collapse() merges a cone into the running nonnegative cone on a path where it is %s (conditions %s): only nonnegative cones and '
                'one-dimensional SOC / PSD cones are orthants; merging e.g. ZeroConeT(1) turns an equality into an inequality' % (
                    kind or 'of undetermined type', {k[-40:]: v for k, v in val.items()}), f.loc())
    R.check(n >= 3, 'collapse-paths' + tag, 'only %d merging paths of collapse() analysed' % n, f.loc())
    # ... and a run may only be *started* by such a cone
    g = F.one(name='new_collapsed')
    m_ = 0
    for val, ret, ev, tr in Walker(g, cut_loops=True).leaves():
        if not any(e[0] == 'call' and e[1] == 'collapse' for e in ev):
            continue
        m_ += 1
        d = [v for k, v in val.items() if k.startswith('discr(next(peekable(iter(arg1)))@Some.0)')]
        kind = names.get(d[0]) if len(d) == 1 else None
        one = any(k.startswith('eq(') and ('@%s.0' % kind) in k and '1_usize' in k and v == 1 for k, v in val.items()) if kind else False
        R.check(kind == 'NonnegativeConeT' or (kind in ('SecondOrderConeT', 'PSDTriangleConeT') and one), 'run-started-by-orthant|%s%s' % (kind, tag),
                'new_collapsed starts a run of merged nonnegative cones with a %s under %s: only a nonnegative cone or a one-dimensional SOC / PSD cone is an orthant '
                '(SecondOrderConeT(2) is {t >= |u|}, not the positive quadrant)' % (kind, {k[-50:]: v for k, v in val.items() if k.startswith(('eq(', 'le(', 'lt('))}), g.loc())
    R.check(m_ >= 2, 'run-start-paths' + tag, 'only %d run-starting paths of new_collapsed analysed' % m_, g.loc())


def input_normalisation(rep, F, tag):
    R = rep.rule('C05.R5', 'P is reduced to its upper triangle and the cone list is collapsed before use')

    def body():
        f = F.one(name='new', adt='DefaultProblemData')
        nc = one_call(f, 'new_collapsed')
        R.check(canon(f.sym_operand(nc.args[0])) == 'arg5', 'collapse-arg' + tag, 'new_collapsed not applied to the user cones', f.loc(nc.sp))
        for c in f.calls:
            if c is nc:
                continue
            uses_cones = any(canon(f.sym_operand(a)) == 'arg5' for a in c.args)
            R.check(not uses_cones, 'raw-cones|%s%s' % (c.callee.name, tag),
                    '%s receives the un-collapsed user cone list' % c.callee.name, f.loc(c.sp)) if uses_cones else None
        R.check(f.dominates(nc.bb, [c for c in f.calls if c.callee.name == 'try_presolver'][0].bb), 'collapse-first' + tag,
                'cones are collapsed after presolve', f.loc())
        tt = one_call(f, 'to_triu')
        it = one_call(f, 'is_triu')
        R.check(canon(f.sym_operand(tt.args[0])) == 'arg1' and canon(f.sym_operand(it.args[0])) == 'arg1', 'triu-arg' + tag,
                'is_triu/to_triu not applied to the user P', f.loc(tt.sp))
        ok = False
        for val, ret, ev, tr in Walker(f).leaves():
            k = [x for x in val if x.startswith('is_triu(arg1)')]
            if not k:
                R.bad('triu-tested' + tag, 'a path through DefaultProblemData::new does not test P.is_triu()', f.loc())
                break
            called = any(e[0] == 'call' and e[1] == 'to_triu' for e in ev)
            R.check(called == (val[k[0]] == 0), 'triu-branch|%d%s' % (val[k[0]], tag),
                    'to_triu %s when is_triu()=%d' % ('runs' if called else 'is skipped', val[k[0]]), f.loc(tt.sp))
            ok = True
            if len(val) > 6:
                break
        R.check(ok, 'triu-anchor' + tag, 'no leaf evaluated')
        collapse_only_nonnegative(R, F, tag)

    R.guard(body)


SYM_CONES = ('NonnegativeCone', 'SecondOrderCone', 'PSDTriangleCone', 'ZeroCone')


def whole_writes(E, f):
    """fields of the self object that f rewrites as a whole (not through an index)"""
    out = set()
    part = set()
    for bi, si, st in f.assignments():
        if st['p']['p']:
            for r, ch in E.aps(f, f.sym_place(st['p'])):
                if r == ('param', 1) and ch:
                    (out if ch[-1] != IDX else part).add(norm_chain(ch))
    from engine.effects import ALIAS1, ALIASN, ITER_ADAPT
    for c in f.calls:
        if c.callee.name in ALIAS1 or c.callee.name in ALIASN or c.callee.name in ITER_ADAPT:
            continue
        args = [f.sym_operand(a) for a in c.args]
        for a, s in zip(c.args, args):
            if E._is_mut_arg(f, a, s):
                for r, ch in E.aps(f, s):
                    if r == ('param', 1) and ch:
                        (out if ch[-1] != IDX else part).add(norm_chain(ch))
    return out, part


def unit_init_must_write(R, F, tag):
    # unit initialisation (the start of every solve with a nonsymmetric cone) must overwrite both vectors of every
    # cone wholly, on every path: a cone that leaves part of (z, s) alone starts the second solve from the first
    # solve's last iterate
    WHOLE = ('fill', 'set', 'copy_from', 'copy_from_slice', 'clone_from_slice')
    nu = 0
    for f in F.find(name='unit_initialization', trait='Cone'):
        K = last_seg(strip_generics(f.impl_adt or f.impl_self or '?'))
        if K in ('CompositeCone', 'SupportedCone'):
            continue
        nu += 1
        for val, ret, ev, tr in Walker(f, cut_loops=True).leaves():
            if ret[0] == 'diverge':
                continue
            # a vector that is copied into the other one must be final when it is copied: a later write to (part of) the source
            # leaves the copy with whatever the source held before - on a re-used solver, the previous solve's values
            for i_, e in enumerate(ev):
                if e[0] == 'call' and e[1] in ('copy_from', 'copy_from_slice', 'clone_from_slice'):
                    a_ = split_args(e[2])
                    if len(a_) == 2 and {a_[0], a_[1]} == {'arg2', 'arg3'}:
                        src = a_[1]
                        later = [str(x[2])[:60] for x in ev[i_ + 1:] if (x[0] == 'call' and x[1] in WHOLE + ('scalarop_from', 'scalarop', 'scale', 'translate', 'hadamard', 'axpby') and (split_args(x[2])[0] == src or split_args(x[2])[0].startswith(('index_mut(%s,' % src, 'index(%s,' % src))))
                                 or (x[0] == 'store' and str(x[1]).startswith(src + '['))]
                        R.check(not later, 'unit-init-copy-final|%s%s' % (K, tag),
                                '%s::unit_initialization copies %s into %s and then still writes the source (%s): the copy keeps the stale part, so the start '
                                'point of a re-used solver is not the documented one (s = z)' % (K, 's' if src == 'arg3' else 'z', 'z' if src == 'arg3' else 's', later), f.loc())
            for a in ('arg2', 'arg3'):
                whole = any(e[0] == 'call' and e[1] in WHOLE and split_args(e[2])[0] == a for e in ev)
                idx = set(e[1] for e in ev if e[0] == 'store' and re.fullmatch(re.escape(a) + r'\[\d+_usize\]', str(e[1])))
                three = idx == {'%s[%d_usize]' % (a, k) for k in range(3)} and K in ('ExponentialCone', 'PowerCone')
                parts = [split_args(e[2])[0] for e in ev if e[0] == 'call' and e[1] in WHOLE + ('scalarop_from', 'scalarop') and split_args(e[2])[0].startswith(('index_mut(%s, Range' % a, 'index(%s, Range' % a))]
                lo = [p_ for p_ in parts if 'RangeTo(' in p_]
                hi = [p_ for p_ in parts if 'RangeFrom(' in p_]
                split = False
                if len(lo) == 1 and len(hi) == 1:
                    m1 = re.search(r'RangeTo\((.*)\)\)$', lo[0])
                    m2 = re.search(r'RangeFrom\((.*)\)\)$', hi[0])
                    split = bool(m1 and m2 and m1.group(1) == m2.group(1))
                R.check(whole or three or split, 'unit-init-writes-all|%s|%s%s' % (K, a, tag),
                        '%s::unit_initialization does not overwrite its %s argument wholly on every path (whole-vector writes: %s, element stores: %s): '
                        'a re-solve would start from the previous solve\'s values there' % (K, 'z' if a == 'arg2' else 's', whole, sorted(idx)), f.loc())
    R.check(nu >= 5, 'unit-init-cones' + tag, 'only %d cone types with unit_initialization analysed' % nu)


def timer_reset_complete(R, F, E, tag):
    """info.reset() resets the "solve" timer at the start of every solve; solve_time feeds the MaxTime test.  A reset that
    keeps part of the timer (accumulated elapsed time, a running start instant, sub-timers) makes a repeated solve on
    the same object see the time of all earlier solves."""
    fs = [g for g in F.find(name='reset') if 'InnerTimer' in (g.impl_self or '') + (g.impl_adt or '')]
    if len(fs) != 1:
        R.bad('timer-reset-anchor' + tag, 'InnerTimer::reset matched %d functions' % len(fs))
        return
    f = fs[0]
    whole, part = whole_writes(E, f)
    got = {ch[0][1] for ch in whole if ch}
    fields = [fl['n'] for v in F.adt('InnerTimer')['variants'] for fl in v['fields']]
    R.check(len(fields) >= 2, 'timer-fields' + tag, 'InnerTimer has %d fields (anchor drift)' % len(fields), f.loc())
    for fl in fields:
        R.check(fl in got, 'timer-reset|%s%s' % (fl, tag),
                'InnerTimer::reset does not re-initialise `%s`: the solve timer carries that state into the next solve on the same solver '
                '(solve_time, and with it the MaxTime verdict, then depends on earlier solves)' % fl, f.loc())
    rs = F.one(name='reset', adt='DefaultInfo', trait='Info') if F.find(name='reset', adt='DefaultInfo', trait='Info') else None
    if rs is not None:
        R.check(any(c.callee.name == 'reset_timer' for c in rs.calls), 'info-reset-resets-timer' + tag, 'DefaultInfo::reset does not reset the solve timer', rs.loc())


def fresh_start(rep, F, E, G, tag):
    R = rep.rule('C05.R6', 'every solve starts from scratch: reset + default_start before the loop, all iterate '
                           'components written, identity scaling rewrites every scaling field the KKT update reads')

    def body():
        s = shared.solve_fn(F)
        h, lbody = shared.main_loop(s)
        rs = [c for c in s.calls if c.callee.name == 'reset' and (c.callee.trait or '').endswith('Info')]
        ds = calls_named(s, 'default_start')
        R.check(len(rs) == 1 and s.dominates(rs[0].bb, h), 'reset-before-loop' + tag, 'info.reset does not dominate the main loop', s.loc())
        R.check(len(ds) == 1 and s.dominates(ds[0].bb, h), 'default_start-before-loop' + tag, 'default_start does not dominate the main loop', s.loc())
        d = F.one(name='default_start', trait='IPSolverInternals')
        need = {'x', 's', 'z', 'τ', 'κ'}
        for val, ret, ev, tr in Walker(d).leaves():
            got = set()
            for b in tr:
                c = d.call_at.get(b)
                if c is None:
                    continue
                w, _ = E.call_effects(d, c)
                for r, ch in w:
                    nm = [e for e in ch if e != IDX]
                    if len(nm) >= 2 and nm[0] == ('Solver', 'variables') and nm[1][0] == 'DefaultVariables':
                        got.add(nm[1][1])
            R.check(need <= got, 'writes-all|%s%s' % (sorted(val.values()), tag),
                    'default_start arm %s writes only %s of the iterate' % (val, sorted(got)), d.loc())
        # identity scaling completeness
        ncones = 0
        for K in SYM_CONES:
            fs = F.find(name='set_identity_scaling', adt=K, trait='Cone')
            if not fs:
                continue   # PSD cone absent in the default configuration
            ncones += 1
            sid = fs[0]
            us = F.one(name='update_scaling', adt=K, trait='Cone')
            state = set()
            for r, ch in E.W[us.key]:
                if r == ('param', 1):
                    state.add(norm_chain(ch))
            readers = []
            for g in F.find(name='get_Hs', adt=K):
                readers.append(g)
            # `impl SparseExpansionConeTrait for &SecondOrderCone` etc.
            for g in F.fns:
                if g.name == 'csc_update_sparsecone' and K in (g.impl_self or ''):
                    readers.append(g)
            read = set()
            for g in readers:
                for r, ch in E.R[g.key]:
                    if r[0] == 'param':
                        names = norm_chain(ch)
                        if names and names[0][0] == K:
                            read.add(names)
            whole, part = whole_writes(E, sid)

            def covered(p, ws):
                # p is covered if some prefix of p is wholly written
                return any(p[:i] in ws for i in range(1, len(p) + 1))
            needed = sorted(p for p in state if any(q[:len(p)] == p for q in read))
            for p in needed:
                R.check(covered(p, whole), 'identity-reset|%s|%s%s' % (K, '.'.join(e[1] for e in p), tag),
                        '%s::set_identity_scaling does not rewrite %s as a whole (%s), but update_scaling writes it '
                        'and the KKT update reads it: a second solve would start from stale scaling data' % (
                            K, '.'.join(e[1] for e in p), 'only element-wise' if covered(p, part) else 'not at all'),
                        sid.loc())
        R.check(ncones >= 3, 'identity-cones' + tag, 'only %d symmetric cone types analysed' % ncones)
        unit_init_must_write(R, F, tag)
        timer_reset_complete(R, F, E, tag)
        # prev_* readers
        for fld in ('prev_res_primal', 'prev_res_dual', 'prev_gap_abs', 'prev_gap_rel', 'prev_cost_primal', 'prev_cost_dual'):
            for f in F.fns:
                if f.impl_exp or f.from_expansion:
                    continue
                hits = E.direct_read_sites(f, 'DefaultInfo', fld)
                for bi, sp, what in hits:
                    R.check(f.name in ('check_termination', 'reset_to_prev_iterate'), 'prev-reader|%s|%s%s' % (fld, short(f.key), tag),
                            '%s reads DefaultInfo.%s' % (f.key, fld), f.loc(sp))

    R.guard(body)


def initial_point_writes(rep, F, tag):
    """The symmetric start point is computed by solve_initial_point from the data alone: on every path that completes, x, s and z are each
    *produced* (an output argument of a KKT solve, or assigned from another produced vector) - an in-place update such as negate()
    alone does not count.  A vector that is only modified keeps the previous solve's values on a re-used solver."""
    R = rep.rule('C05.R11', 'solve_initial_point produces x, s and z from the data on every completing path (no read-modify-write of a stale vector)')

    def body():
        f = F.one(name='solve_initial_point')
        n = 0
        for val, ret, ev, tr in Walker(f, cut_loops=True).leaves():
            if ret[0] != 's':
                continue
            solves = [split_args(str(e[2])) for e in ev if e[0] == 'call' and e[1] == 'solve']
            succ = [v for k, v in val.items() if k.startswith('solve(')]
            produced = set()
            for a in solves:
                for x in a[1:3]:
                    m = re.fullmatch(r'Option::Some\((arg2\.\w+)\)', x)
                    if m:
                        produced.add(m.group(1))
            for e in ev:
                if e[0] == 'call' and e[1] in ('scalarop_from', 'copy_from', 'copy_from_slice'):
                    a = split_args(str(e[2]))
                    if a[0].startswith('arg2.') and any(x in a[-1] for x in produced | {'arg3.'}):
                        produced.add(a[0])
            early = any(v == 0 for v in succ)
            if early:
                continue    # a failed first solve returns false: the start point is not used
            n += 1
            for v in ('arg2.x', 'arg2.s', 'arg2.z'):
                R.check(v in produced, 'produced|%s|%s%s' % (v[5:], 'lp' if any('nnz' in k and x_ == 1 for k, x_ in val.items()) else 'qp', tag),
                        'solve_initial_point completes a path (%s) on which variables.%s is never produced from the data (outputs: %s): the start point of a re-solve then '
                        'contains the previous solve\'s %s' % ({k[:30]: x_ for k, x_ in val.items()}, v[5:], sorted(produced), v[5:]), f.loc())
        R.check(n >= 2, 'paths' + tag, 'only %d completing paths of solve_initial_point analysed' % n, f.loc())

    R.guard(body)


def run(ctx, rep, tier):
    for cfg in CONFIGS:
        F = ctx.facts(cfg)
        E = ctx.eff(cfg)
        G = ctx.cg(cfg)
        tag = '' if cfg == 'default' else '[%s]' % cfg
        global_state(rep, F, G, tag)
        hash_order(rep, F, G, tag)
        clocks(rep, F, E, G, tag)
        input_normalisation(rep, F, tag)
        fresh_start(rep, F, E, G, tag)
    # "equilibration toggled / objective scaled by a constant give consistent answers" presupposes that the internal
    # scaling is an exact change of variables that every reader undoes (C10.R1, C08.R3)
    from . import units_rules
    units_rules.premises(ctx, rep, 'C05.R7')
    # "a different LDL back end gives the same verdict": the back ends agree on what the value-update entry points do to
    # their own (permuted) copy of the KKT matrix (C08.R5 re-run), and every cone reports consistently whether its rows
    # need a uniform scaling (C10.R4 re-run: "equilibration toggled" must not change the cone)
    from . import c08, c04, c10
    for cfg in CONFIGS:
        tag = '' if cfg == 'default' else '[%s]' % cfg
        c08.kkt_mirror(c04._Ren(rep, 'C08.R5', 'C05.R8'), ctx.facts(cfg), ctx.eff(cfg), ctx.cg(cfg), tag)
        c10.rectification(c04._Ren(rep, 'C10.R4', 'C05.R9'), ctx.facts(cfg), tag)
        # the start point is a function of the data only: whichever branch of the interior shift is taken, the zero-cone part of the
        # slack is forced to zero (C07.R5 re-run) and the KKT-based initial point produces x, s, z afresh
        from . import steplen
        steplen.interior_shift(rep, ctx.facts(cfg), tag, 'C05.R10')
        initial_point_writes(rep, ctx.facts(cfg), tag)
    # "objective scaled by a positive constant gives the same verdict": the convergence figures are relative measures - the documented formulas of the
    # gaps and residuals (absolute values and max(1, .) normalisers in place) are what makes them scale-free (C03.R2 forms re-run)
    from . import forms_rules, units_rules
    for cfg in units_rules.CFGS:
        R13 = rep.rule('C05.R13', 'the convergence figures (costs, residuals, gaps) follow the documented scale-free formulas (signed forms)')
        R13.guard(lambda: forms_rules.report_forms(R13, ctx, cfg, '', which=('cost', 'res')))
    # "the same solver solved twice": DirectLDLKKTSolver::diagonal_regularizer records the static regulariser of the last factorisation (for debugging);
    # nothing may read it back - it is never reset, so a reader would carry the first solve's end-of-run regulariser into the next solve
    R14 = rep.rule('C05.R14', 'the recorded static regulariser (diagonal_regularizer) is write-only: no solve reads the previous factorisation\'s value back')
    def _wo():
        for cfg in CONFIGS:
            E_ = ctx.eff(cfg)
            F_ = ctx.facts(cfg)
            rd = []
            for g in F_.fns:
                if E_.direct_read_sites(g, 'DirectLDLKKTSolver', 'diagonal_regularizer'):
                    rd.append(g.name)
            R14.check(not rd, 'write-only' + ('' if cfg == 'default' else '[%s]' % cfg), 'diagonal_regularizer is read by %s' % rd)
            wr = [g for g in F_.fns if E_.direct_write_sites(g, 'DirectLDLKKTSolver', 'diagonal_regularizer')]
            R14.check(len(wr) >= 1, 'anchor' + ('' if cfg == 'default' else '[%s]' % cfg), 'no writer of diagonal_regularizer found (anchor drift)')
    R14.guard(_wo)
    # "P given full or upper-triangular": the full form goes through to_triu (C16.R7 re-run)
    from . import c16
    c16.triangle(rep, ctx.facts('default'), '', 'C05.R12')
    if tier == 'thorough':
        from . import witness
        witness.run(rep, 'C05.R4', ['send', 'stream_sync'])
