"""C20 -- solver output is routed faithfully (structural clauses)"""
import re
from engine.mir import last_seg, show, AnchorError, strip_generics
from engine.preds import canon, Walker
from .common import *
from . import shared
from .c04 import api_roots
from . import c04

CONFIGS = ['default', 'full']
TECHNIQUE = 'dominance (verbose guard on every write, interprocedural through helper printers), who-may-call of stdout/print, sibling agreement of the PrintTarget arms, path rule save_scalars->print_status, format-argument provenance'
EXPLANATION = (
    "Byte-level equality of three captured logs is NOT decided. Decided on the MIR of the current tree: (R1) every "
    "write/flush on a print target reachable from the API is dominated by a settings.verbose == true test, in its own "
    "body or in every caller chain; (R2) stdout/stderr/print! are reached only through the PrintTarget::Stdout "
    "constructors; (R3) every arm of `impl Write for PrintTarget` forwards the same buffer and returns the inner "
    "writer's result (Buffer: appends all of it and returns its length), flush forwards, the dyn-Write conversion "
    "covers all five variants; (R4) every save_scalars is followed by print_status before the next save_scalars or "
    "post_process, print_status formats info.iterations, the footer follows post_process and formats info.status, and the status is final before it is copied into the solution; "
    "(R5) the configuration header formats data.n, data.m, nnz(data.P), nnz(data.A), cones.len(), "
    "presolver.count_reduced() next to their labels."
    " (R6) cone-size list of the header: the closing entry is the last cone of the type, entries are numel() of the cones with the matching tag; (R7) the solution copies iterations and residuals from the info on every path (C03.R1 re-run)."
    " (R8) the 'removed N constraints' figure: bookkeeping of the presolve reduction map (C09.R2 re-run)."
    " (R9) every print_to_* installs a freshly constructed target unconditionally; (R10) the header asks for the per-type line of every variant of SupportedConeTag."
    ' (R12) Display for SolverStatus, through which the footer prints the status, gives distinct variants distinct names and no variant the name of another (derived Debug, a literal per arm, or a name function are followed).'
    " (R13) nothing but print_to_* replaces the print target: no whole write of DefaultInfo, of its stream or of the Solver's info elsewhere (a stream rebuilt by clone turns a Stream target into a Sink), and the print_to_* / get_print_buffer layers of DefaultInfo and Solver delegate to the same-named method with the same argument.")
ASSUMPTIONS = ['rustc MIR construction and trait resolution are correct',
               'std::io::Write::write_fmt writes exactly the formatted bytes through Write::write (write_all loop)']

WRITE_METHODS = {'write', 'write_all', 'write_fmt', 'flush', 'write_vectored'}
NOT_PRINT = {
    'json::save_to_file': 'writes the JSON text to the file handle supplied by the caller, not to a print target',
}


def is_write_call(c):
    k = c.callee
    if (k.trait or '') == 'std::io::Write' and k.method in WRITE_METHODS:
        return True
    if (k.key or '') in ('std::io::_print', 'std::io::_eprint'):
        return True
    return False


def verbose_true_edges(f):
    """[(switch block, successor taken when verbose is true, what is tested)]"""
    out = []
    for bi, b in enumerate(f.blocks):
        t = b['t']
        if t['k'] != 'switch':
            continue
        k = canon(f.sym_operand(t['d']))
        neg = False
        while k.startswith('not(') and k.endswith(')'):
            neg = not neg
            k = k[4:-1]
        if not (k.endswith('.verbose') or re.fullmatch(r'arg\d+', k)):
            continue
        zero_t = None
        for v, tb in t['ts']:
            if int(v) == 0:
                zero_t = tb
        other = t['o']
        # discr == 0  <=> tested value false
        true_succ = zero_t if neg else other
        out.append((bi, true_succ, k))
    return out


def guarded_sites(f, site_blocks):
    """for each site block: the verbose-like guards (tested expression) that dominate it through
    their true edge; [] if none"""
    res = {}
    edges = verbose_true_edges(f)
    for sb in site_blocks:
        gs = []
        for (sw, ts, k) in edges:
            # remove the true edge: is the site still reachable from entry?
            seen = set()
            st = [0]
            reach = False
            while st:
                x = st.pop()
                if x in seen:
                    continue
                seen.add(x)
                if x == sb:
                    reach = True
                    break
                for s in f.succ[x]:
                    if x == sw and s == ts:
                        # only block the edge when it is not also another target
                        continue
                    st.append(s)
            if not reach:
                gs.append(k)
        res[sb] = gs
    return res


def silence(rep, F, G, tag):
    R = rep.rule('C20.R1', 'every write on a print target is dominated by a verbose==true test (own body or all callers)')

    def body():
        roots = api_roots(F)
        reach = G.reachable(roots)
        # functions with direct write calls
        printers = {}
        for f in F.fns:
            if f.impl_trait and strip_generics(f.impl_trait) == 'std::io::Write':
                continue   # the sink itself
            if f.key not in reach and (f.root or '') not in reach:
                continue
            if short(f.key) in NOT_PRINT:
                continue
            sites = [c for c in f.calls if is_write_call(c)]
            if sites:
                printers[f.key] = sites
        R.check(len(printers) >= 6, 'printer-count' + tag, 'only %d printing functions found (anchor drift)' % len(printers))
        # unguarded(f): set of param-guards needed, or 'UNGUARDED'
        status = {}
        work = list(printers.keys())
        needs_caller_guard = {}   # fkey -> list of (site desc)
        param_guard = {}          # fkey -> param index that acts as verbose flag
        pending = dict((k, [(c.bb, c, 'write ' + c.callee.name) for c in v]) for k, v in printers.items())
        done = set()
        iters = 0
        while pending and iters < 50:
            iters += 1
            k, sites = pending.popitem()
            f = F.by_key[k][0]
            done.add(k)
            gs = guarded_sites(f, [s[0] for s in sites])
            bad_sites = []
            pg = set()
            for bb, c, what in sites:
                g = gs.get(bb, [])
                fld = [x for x in g if x.endswith('.verbose')]
                par = [x for x in g if re.fullmatch(r'arg\d+', x)]
                if fld:
                    R.ok('guarded|%s|%s%s' % (short(k), what, tag))
                elif par:
                    pg.add(par[0])
                    R.ok('param-guarded|%s|%s|%s%s' % (short(k), what, par[0], tag))
                else:
                    bad_sites.append((bb, c, what))
            if pg:
                param_guard[k] = pg
            if bad_sites or pg:
                # obligations move to the callers
                callers = [x for x in G.callers_of(k) if x in reach or (F.by_key[x][0].root or '') in reach]
                if k in roots and bad_sites:
                    for bb, c, what in bad_sites:
                        R.bad('unguarded-root|%s|%s%s' % (short(k), what, tag),
                              '%s in API entry %s is not guarded by settings.verbose' % (what, k), f.loc(c.sp))
                    continue
                if not callers and bad_sites:
                    # closure bodies are linked to their root
                    if f.root and f.root in F.by_key:
                        callers = [f.root]
                for ck in callers:
                    cf = F.by_key[ck][0]
                    csites = []
                    for c2 in cf.calls:
                        if k in G.targets_of(cf, c2):
                            if pg and not bad_sites:
                                # the flag parameter must be settings.verbose at this call site
                                idx = int(sorted(pg)[0][3:]) - 1
                                a = canon(cf.sym_operand(c2.args[idx])) if idx < len(c2.args) else '?'
                                R.check(a.endswith('.verbose'), 'flag-arg|%s<-%s%s' % (short(k), short(ck), tag),
                                        '%s passes %s as the verbose flag of %s' % (ck, a, k), cf.loc(c2.sp))
                            else:
                                csites.append((c2.bb, c2, 'call ' + short(k)))
                    if not csites and bad_sites and cf.dk != 'Closure' and f.dk == 'Closure':
                        # closure constructed in cf: treat the construction point as the site
                        for bi, si, st in cf.assignments():
                            rv = st['rv']
                            if rv['k'] == 'agg' and rv['ak']['a'] == 'closure' and F.uid_key.get(rv['ak'].get('uid')) == k:
                                csites.append((bi, None, 'closure ' + short(k)))
                    if csites:
                        prev = pending.get(ck, [])
                        pending[ck] = prev + [s for s in csites if s not in prev]
                if bad_sites and not callers:
                    for bb, c, what in bad_sites:
                        R.bad('unguarded|%s|%s%s' % (short(k), what, tag),
                              '%s in %s is never guarded by settings.verbose' % (what, k), f.loc(c.sp) if c else f.loc())

    R.guard(body)


def single_route(rep, F, G, tag):
    R = rep.rule('C20.R2', 'stdout/stderr/print! are reached only through the PrintTarget::Stdout constructors')

    def body():
        roots = api_roots(F)
        reach = G.reachable(roots)
        allowed = {'print_to_stdout', 'default', 'clone'}
        n = 0
        for f in F.fns:
            for c in f.calls:
                k = c.callee.key or ''
                if k in ('std::io::_print', 'std::io::_eprint', 'std::io::stdout', 'std::io::stderr') or k.endswith('python::io::stdout'):
                    n += 1
                    inpt = f.impl_adt and last_seg(strip_generics(f.impl_adt)) == 'PrintTarget'
                    if inpt and f.name in allowed and k.endswith('stdout'):
                        R.ok('constructor|%s%s' % (short(f.key), tag))
                    elif f.key in reach or (f.root or '') in reach:
                        R.bad('side-channel|%s|%s%s' % (short(f.key), last_seg(k), tag),
                              '%s writes to %s directly, bypassing the configured print target (reachable from the API: %s)' % (
                                  f.key, k, ' -> '.join(short(x) for x in (G.path(roots, f.key) or [])[:6])), f.loc(c.sp))
                    else:
                        R.ok('unreachable|%s%s' % (short(f.key), tag))
        R.check(n >= 3, 'sites' + tag, 'only %d stdout/print sites found' % n)

    R.guard(body)


VARIANTS = ['Stdout', 'File', 'Buffer', 'Stream', 'Sink']


def transparent_targets(rep, F, tag):
    R = rep.rule('C20.R3', 'PrintTarget arms forward the buffer unchanged and report the inner writer\'s result')

    def body():
        adt = F.adt('PrintTarget')
        vn = [v['n'] for v in adt['variants']]
        R.check(sorted(vn) == sorted(VARIANTS), 'variants' + tag, 'PrintTarget variants are %s' % vn)
        w = F.one(name='write', adt='PrintTarget', trait='Write')
        seen = set()
        for val, ret, ev, tr in Walker(w).leaves():
            ks = [k for k in val if k.startswith('discr(')]
            if not ks or ret[0] == 'diverge':
                continue
            d = val[ks[0]]
            if d >= len(vn):
                continue
            v = vn[d]
            seen.add(v)
            calls = [e for e in ev if e[0] == 'call']
            if v == 'Buffer':
                if any(e[1] == 'from_residual' for e in calls):
                    continue   # error-propagation path of a fallible append (`?`)
                ext = [e[2] for e in calls if e[1] in ('extend_from_slice', 'extend', 'write_all', 'write')]
                R.check(any(x.endswith(', arg2)') for x in ext), 'write|Buffer|appends-all' + tag,
                        'Buffer arm does not append the whole buffer: %s' % [e[2] for e in calls], w.loc())
                rs = canon(w.sym_local(0)) if ret[0] != 'c' else str(ret)
                last = [e[2] for e in calls]
                R.check(any(x == 'len(arg2)' for x in last) and not any('min(' in x or 'Lt' in x for x in last), 'write|Buffer|returns-len' + tag,
                        'Buffer arm does not return buf.len(): calls %s' % last, w.loc())
            else:
                inner = [e[2] for e in calls if e[1] == 'write']
                R.check(len(inner) == 1 and inner[0].endswith(', arg2)') and ('@%s.0' % v) in inner[0], 'write|%s|forwards%s' % (v, tag),
                        '%s arm does not forward the buffer to its inner writer: %s' % (v, inner), w.loc())
                # the arm's result is the inner call's result, untouched
                others = [e[1] for e in calls if e[1] not in ('write', 'deref', 'deref_mut', 'as_mut', 'as_ref', 'borrow_mut')]
                R.check(ret[0] == 's' and ret[1].startswith('write(') and not others, 'write|%s|returns-inner%s' % (v, tag),
                        '%s arm returns %s (other calls: %s): the number of bytes accepted by the inner writer must be '
                        'reported unchanged, otherwise short writes lose data' % (v, ret[1][:60] if ret[0] == 's' else ret, others), w.loc())
        R.check(seen == set(VARIANTS), 'write|all-arms' + tag, 'write handles only %s' % sorted(seen))
        fl = F.one(name='flush', adt='PrintTarget', trait='Write')
        seen = set()
        for val, ret, ev, tr in Walker(fl).leaves():
            ks = [k for k in val if k.startswith('discr(')]
            if not ks or val[ks[0]] >= len(vn):
                continue
            v = vn[val[ks[0]]]
            seen.add(v)
            if v != 'Buffer':
                inner = [e[2] for e in ev if e[0] == 'call' and e[1] == 'flush']
                R.check(len(inner) == 1 and ('@%s.0' % v) in inner[0], 'flush|%s%s' % (v, tag), '%s arm does not forward flush' % v, fl.loc())
        R.check(seen == set(VARIANTS), 'flush|all-arms' + tag, 'flush handles only %s' % sorted(seen))
        fr = [f for f in F.fns if f.name == 'from' and 'PrintTarget' in (f.sig or '') and 'dyn std::io::Write' in (f.sig or '')]
        if len(fr) != 1:
            raise AnchorError('From<&mut PrintTarget> for &mut dyn Write: %d matches' % len(fr))
        fr = fr[0]
        seen = set()
        for val, ret, ev, tr in Walker(fr).leaves():
            ks = [k for k in val if k.startswith('discr(')]
            if not ks or val[ks[0]] >= len(vn):
                continue
            seen.add(vn[val[ks[0]]])
            R.check(ret[0] != 'diverge', 'from|%s%s' % (vn[val[ks[0]]], tag), 'conversion diverges for %s' % vn[val[ks[0]]], fr.loc())
        R.check(seen == set(VARIANTS), 'from|all-arms' + tag, 'dyn Write conversion handles only %s' % sorted(seen))
        # info.print_target() hands out the configured stream
        pt = F.one(name='print_target', adt='DefaultInfo')
        R.check(canon(pt.sym_local(0)) == 'self.stream', 'print_target' + tag, 'print_target returns %s' % canon(pt.sym_local(0)), pt.loc())

    R.guard(body)


def fmt_sources(f):
    """[(template text, [arg canon...], Call)] for every write_fmt in f"""
    out = []
    for c in f.calls:
        if c.callee.name != 'write_fmt':
            continue
        a = f.sym_operand(c.args[1])
        txt = ''
        srcs = []

        def walk(s, depth=0):
            nonlocal txt
            if depth > 12:
                return
            if s[0] == 'const':
                t = s[2]
                if t.startswith('const '):
                    t = t[6:]
                if t.startswith('b"') or t.startswith('"'):
                    txt += t
            elif s[0] == 'call':
                nm = last_seg(s[1])
                if nm.startswith('new_') and s[2]:
                    srcs.append(canon(s[2][0]))
                else:
                    for x in s[2]:
                        walk(x, depth + 1)
            elif s[0] in ('ref', 'deref', 'cast'):
                walk(s[1], depth + 1)
            elif s[0] == 'agg':
                for x in s[2]:
                    walk(x, depth + 1)
        walk(a)
        out.append((txt, srcs, c))
    return out


# label -> accepted sources (the internal problem held in `data` / `cones`)
HEADER = [
    ('variables', [['arg3.n'], ['ncols(arg3.A)'], ['len(arg3.q)']]),
    ('constraints', [['arg3.m'], ['nrows(arg3.A)'], ['len(arg3.b)']]),
    ('nnz(P)', [['nnz(arg3.P)'], ['len(arg3.P.nzval)']]),
    ('nnz(A)', [['nnz(arg3.A)'], ['len(arg3.A.nzval)']]),
    ('cones (total)', [['len(arg4)'], ['len(arg4.cones)'], ['len(arg3.cones)']]),
    ('presolve: removed', None),
]


def table_and_header(rep, F, tag):
    R = rep.rule('C20.R4', 'iteration column: every save_scalars is printed before the next one / before '
                           'post_process; print_status formats info.iterations; footer after post_process formats info.status')

    def body():
        s = shared.solve_fn(F)
        ss = calls_named(s, 'save_scalars')
        ps = calls_named(s, 'print_status')
        ipp = [c for c in s.calls if c.callee.name == 'post_process' and (c.callee.trait or '').endswith('Info')][0]
        R.check(len(ps) >= 2, 'print_status-sites' + tag, '%d print_status sites' % len(ps))
        stop = set(c.bb for c in ss) | {ipp.bb}
        # the table only exists when verbose is on: follow only the verbose==true edge of any verbose test
        # (a print_status that is skipped because verbose is false is not a missing row)
        vt = {sw: ts for sw, ts, k in verbose_true_edges(s) if k.endswith('.verbose')}

        def succ(b):
            return [vt[b]] if b in vt else s.succ[b]

        def path_avoiding(src, dst, avoid):
            av = set(avoid) - {src, dst}
            seen = set()
            st = list(succ(src))
            while st:
                x = st.pop()
                if x == dst:
                    return True
                if x in seen or x in av:
                    continue
                seen.add(x)
                st.extend(succ(x))
            return False
        for c in ss:
            for tgt in stop:
                if tgt == c.bb:
                    # a cycle back to itself without printing
                    bad = path_avoiding(c.bb, c.bb, [p.bb for p in ps])
                else:
                    bad = path_avoiding(c.bb, tgt, [p.bb for p in ps] + [x for x in stop if x not in (tgt, c.bb)])
                R.check(not bad, 'printed|save@%d->%s%s' % (ss.index(c), 'post_process' if tgt == ipp.bb else 'save', tag),
                        'the scalars recorded by save_scalars (line %d) can be overwritten or reported without a '
                        'print_status in between: the progress table would not end at the reported iteration count' % c.line,
                        s.loc(c.sp))
        p = F.one(name='print_status', adt='DefaultInfo')
        fs = fmt_sources(p)
        first = [x for x in fs if x[1]]
        R.check(bool(first) and first[0][1] == ['self.iterations'], 'iteration-column' + tag,
                'the first formatted column of print_status is %s, expected info.iterations' % (first[0][1] if first else None), p.loc())
        srcs = [x for t, sr, c in fs for x in sr]
        for fld in ('cost_primal', 'cost_dual', 'res_primal', 'res_dual'):
            R.check(any('self.%s' % fld in x for x in srcs) or any(c.callee.name in ('format', 'is_finite') and 'self.%s' % fld in canon(p.sym_operand(c.args[0])) for c in p.calls if c.args),
                    'status-column|%s%s' % (fld, tag), 'print_status does not format info.%s' % fld, p.loc())
        pf = F.one(name='print_footer', adt='DefaultInfo')
        fs = fmt_sources(pf)
        st = [x for x in fs if 'Terminated with status' in x[0]]
        R.check(len(st) == 1 and st[0][1] == ['self.status'], 'footer-status' + tag,
                'the footer formats %s next to "Terminated with status"' % ([x[1] for x in st]), pf.loc())
        pfc = one_call(s, 'print_footer')
        spp = [c for c in s.calls if c.callee.name == 'post_process' and (c.callee.trait or '').endswith('Solution')][0]
        R.check(s.dominates(spp.bb, pfc.bb), 'footer-after-post_process' + tag, 'print_footer precedes post_process', s.loc(pfc.sp))
        R.check(s.dominates(ipp.bb, spp.bb), 'status-final-before-copy' + tag,
                'solution.post_process copies the status before info.post_process has settled it (Almost* upgrade): the footer and the '
                'returned solution would disagree', s.loc(spp.sp))
        # nothing writes the status between the copy into the solution and the footer
        from .common import region_between
        from engine.effects import IDX

    R.guard(body)
    R2 = rep.rule('C20.R5', 'configuration header: label -> source provenance')

    def body2():
        f = F.one(name='print_configuration', adt='DefaultInfo')
        fs = fmt_sources(f)
        for label, want in HEADER:
            hits = [x for x in fs if (re.search(re.escape(label) + r'\s*=', x[0]) if want is not None else label in x[0])]
            if not R2.check(len(hits) == 1, 'label|%s%s' % (label, tag), 'header line "%s" found %d times' % (label, len(hits)), f.loc()):
                continue
            got = hits[0][1]
            if want is None:
                R2.check(len(got) == 1 and got[0].startswith('count_reduced(arg3.presolver'), 'source|%s%s' % (label, tag),
                         'header line "%s" formats %s, expected presolver.count_reduced()' % (label, got), f.loc(hits[0][2].sp))
            else:
                R2.check(got in want, 'source|%s%s' % (label, tag), 'header line "%s" formats %s, expected one of %s' % (label, got, want),
                         f.loc(hits[0][2].sp))
        # count_reduced = mfull - mreduced
        cr = F.one(name='count_reduced', adt='Presolver')
        r0 = canon(cr.sym_local(0))
        R2.check('mfull' in r0 and 'mreduced' in r0 and ('sub' in r0), 'count_reduced' + tag, 'count_reduced returns %s' % r0, cr.loc())
        # solve prints the header with the solver's own settings, data, cones
        s = shared.solve_fn(F)
        c = one_call(s, 'print_configuration')
        a = [canon(s.sym_operand(x)) for x in c.args]
        R2.check(a == ['self.info', 'self.settings', 'self.data', 'self.cones'], 'header-args' + tag, 'print_configuration(%s)' % a, s.loc(c.sp))

    R2.guard(body2)


SETTINGS_LINES = [
    ('  max iter = ', ', time limit', ['arg2.max_iter', None, 'arg2.max_step_fraction']),
    ('tol_feas = ', None, ['arg2.tol_feas', 'arg2.tol_gap_abs', 'arg2.tol_gap_rel']),
    ('static reg', None, ['_bool_on_off(arg2.static_regularization_enable)', 'arg2.static_regularization_constant', 'arg2.static_regularization_proportional']),
    ('dynamic reg', None, ['_bool_on_off(arg2.dynamic_regularization_enable)', 'arg2.dynamic_regularization_eps', 'arg2.dynamic_regularization_delta']),
    ('iter refine', None, ['_bool_on_off(arg2.iterative_refinement_enable)', 'arg2.iterative_refinement_reltol', 'arg2.iterative_refinement_abstol']),
    ('max iter = ', 'stop ratio', ['arg2.iterative_refinement_max_iter', 'arg2.iterative_refinement_stop_ratio']),
    ('equilibrate:', None, ['_bool_on_off(arg2.equilibrate_enable)', 'arg2.equilibrate_min_scaling', 'arg2.equilibrate_max_scaling']),
]


def settings_header(rep, F, tag):
    """"the configuration header reports the true ... settings": every figure of print_settings is the settings field its label
    names; the line that follows a block header (iter refine / equilibrate) belongs to that block."""
    R = rep.rule('C20.R5', 'configuration header: label -> source provenance')

    def body():
        f = F.one(name='print_settings', adt='DefaultInfo')
        fs = fmt_sources(f)
        for a, b, want in SETTINGS_LINES:
            hits = [x for x in fs if a in x[0] and (b is None or b in x[0])]
            if not R.check(len(hits) == 1, 'settings-line|%s%s' % (a.strip(), tag), 'settings line "%s" found %d times' % (a.strip(), len(hits)), f.loc()):
                continue
            got = hits[0][1]
            ok = len(got) == len(want) and all(w is None or w == g for w, g in zip(want, got))
            R.check(ok, 'settings-source|%s%s' % (a.strip() + ('|' + b.strip() if b else ''), tag), 'settings line "%s" formats %s, expected %s' % (a.strip(), got, want), f.loc(hits[0][2].sp))
        # the continuation line after "equilibrate:" (the last "max iter") prints the equilibration cap
        idx = [i for i, x in enumerate(fs) if 'equilibrate:' in x[0]]
        if idx and idx[0] + 1 < len(fs):
            nxt = fs[idx[0] + 1]
            R.check('max iter' in nxt[0] and nxt[1] == ['arg2.equilibrate_max_iter'], 'settings-source|equilibrate|max iter' + tag,
                    'the line after "equilibrate:" formats %s, expected the equilibration iteration cap' % nxt[1], f.loc(nxt[2].sp))
        else:
            R.bad('settings-source|equilibrate|max iter' + tag, 'no line follows the "equilibrate:" line', f.loc())
        tl = [x for x in fs if 'time limit' in x[0]]
        if tl:
            v = [canon(f.sym_rvalue(st['rv'])) for bi, si, st in f.assignments() if not st['p']['p'] and f.local_name(st['p']['l']) == 'time_lim_str']
            calls = [canon(f.sym_operand(c.args[0])) for c in f.calls if c.callee.name == 'is_infinite' and c.args]
            R.check(any('arg2.time_limit' in x for x in calls), 'settings-source|time limit' + tag, 'the time limit string is not derived from settings.time_limit (%s)' % calls, f.loc())

    R.guard(body)


def cone_tags(rep, F, tag):
    """The per-type cone counts of the configuration header are computed from SupportedConeAsTag::as_tag: each cone variant
    must map to the tag of the same name, otherwise cones of one type are listed under another."""
    R = rep.rule('C20.R5', 'configuration header: label -> source provenance')

    def body():
        tags = {v['n'] for v in F.adt('SupportedConeTag')['variants']}
        n = 0
        for f in F.find(name='as_tag'):
            owner = last_seg(strip_generics(f.impl_self or f.impl_adt or ''))
            if owner not in ('SupportedCone', 'SupportedConeT'):
                continue
            names = {int(v['discr']) if v['discr'] is not None else i: v['n'] for i, v in enumerate(F.adt(owner)['variants'])}
            for val, ret, ev, tr in Walker(f).leaves():
                if ret[0] != 's':
                    continue
                d = [v for k, v in val.items() if k == 'discr(self)']
                if len(d) != 1:
                    continue
                src = names.get(d[0], '?')
                want = src[:-1] if (src.endswith('T') and src[:-1] in tags) else src
                got = str(ret[1]).rsplit('::', 1)[-1]
                n += 1
                R.check(got == want, 'cone-tag|%s::%s%s' % (owner, src, tag),
                        '%s::%s is tagged %s: the header lists cones of that type under the wrong heading (per-type counts and sizes are wrong)' % (owner, src, got), f.loc())
        R.check(n >= 12, 'cone-tag-count' + tag, 'only %d cone variants with a tag analysed' % n)

    R.guard(body)


def cone_dims_list(rep, F, tag):
    """"the configuration header reports the true problem dimensions": in the per-type list of cone sizes the entry that closes the
    list is the size of the last cone of that type (the only one shown after the ellipsis), a single cone prints entry 0, and
    the entries are the numel() of the cones whose tag matches."""
    R = rep.rule('C20.R6', 'cone-size list of the header: the closing entry is the last cone of the type, entries are numel() of the matching cones')

    def body():
        f = F.one(name='_print_conedims_by_type')
        fs = fmt_sources(f)
        norm = lambda x: x.replace('withoverflow', '').replace(').0', ')')
        closers = [x for x in fs if ')' in x[0]]
        R.check(len(closers) >= 1, 'closers' + tag, 'no list-closing format piece found in _print_conedims_by_type', f.loc())
        for x in closers:
            a = [norm(y) for y in x[1]]
            ok = len(a) == 1 and (re.fullmatch(r'index\((.+), sub\(len\((.+)\), 1_usize\)\)', a[0]) is not None or re.fullmatch(r'(unwrap|expect)\(last\(.+\).*\)', a[0]) is not None)
            if ok:
                m = re.fullmatch(r'index\((.+), sub\(len\((.+)\), 1_usize\)\)', a[0])
                ok = m is None or m.group(1) == m.group(2)
            R.check(ok, 'closing-entry|%s%s' % ('ellipsis' if '...' in x[0] else 'full', tag),
                    'the entry that closes the cone-size list formats %s: it must be the last element of the size vector (after "..." it is the only '
                    'trace of the remaining cones)' % a, f.loc(x[2].sp))
        single = [x for x in fs if 'numel = ' in x[0] and '(' not in x[0]]
        R.check(len(single) == 1 and len(single[0][1]) == 1 and re.fullmatch(r'index\(.+, 0_usize\)', norm(single[0][1][0])) is not None, 'single-entry' + tag,
                'the single-cone form formats %s' % [x[1] for x in single], f.loc())
        # the vector holds numel() of the cones with the requested tag
        pushes = [c for c in f.calls if c.callee.name == 'push']
        R.check(len(pushes) == 1, 'push-site' + tag, '%d pushes into the size vector' % len(pushes), f.loc())
        for val, ret, ev, tr in Walker(f, cut_loops=True).leaves():
            for e in ev:
                if e[0] == 'call' and e[1] == 'push':
                    v = split_args(e[2])[-1]
                    R.check(re.fullmatch(r'numel\(.+@Some\.0\)', v) is not None, 'pushed-value' + tag, 'the size vector receives %s, expected numel() of the cone' % v, f.loc())
                    ks = [k for k in val if k.startswith(('eq(', 'ne(')) and 'as_tag(' in k and 'arg3' in k]
                    R.check(len(ks) == 1 and ((ks[0].startswith('eq(') and val[ks[0]] == 1) or (ks[0].startswith('ne(') and val[ks[0]] == 0)), 'pushed-tag' + tag,
                            'a size is pushed on a path where the cone tag test is %s' % {k: val[k] for k in ks}, f.loc())

    R.guard(body)


def fresh_targets(rep, F, tag):
    """The three capturing targets receive identical bytes for the same solve only if selecting a target always starts it empty: every
    print_to_* replaces the target unconditionally by a freshly constructed one (a buffer that is kept when "already buffering" still
    holds the previous solve's log)."""
    R = rep.rule('C20.R9', 'every print_to_* installs a freshly constructed target unconditionally')

    def body():
        want = {'print_to_stdout': 'PrintTarget::Stdout(stdout())', 'print_to_file': 'PrintTarget::File(arg2)', 'print_to_stream': 'PrintTarget::Stream(arg2)',
                'print_to_sink': 'PrintTarget::Sink(sink())', 'print_to_buffer': 'PrintTarget::Buffer(new())'}
        n = 0
        for nm, w in want.items():
            fs = [x for x in F.find(name=nm) if 'PrintTarget' in (x.impl_self or '')]
            if len(fs) != 1:
                raise AnchorError('%s for PrintTarget matched %d functions' % (nm, len(fs)))
            f = fs[0]
            for val, ret, ev, tr in Walker(f).leaves():
                if ret[0] == 'diverge':
                    continue
                st = [str(e[2]) for e in ev if e[0] == 'store' and str(e[1]) == 'self']
                n += 1
                R.check(st == [w], 'fresh|%s|%s%s' % (nm, sorted(val.values()), tag),
                        '%s leaves the target as %s on the path %s; it must install %s on every path (otherwise the new capture starts with stale content)' % (nm, st or 'it was', {k[:40]: v for k, v in val.items()}, w), f.loc())
        R.check(n >= 5, 'count' + tag, 'only %d target-selection paths analysed' % n)

    R.guard(body)


def cone_type_lines(rep, F, tag):
    """"the configuration header reports the true cone counts": the per-type lines are produced by one call of _print_conedims_by_type per
    cone tag; every variant of SupportedConeTag (in this build configuration) must be asked for, otherwise cones of that type appear in
    the total but in no line."""
    R = rep.rule('C20.R10', 'the header asks _print_conedims_by_type for every variant of SupportedConeTag')

    def body():
        variants = {v['n'] for v in F.adt('SupportedConeTag')['variants']}
        f = F.one(name='print_configuration')
        got = set()
        for c in f.calls:
            if c.callee.name != '_print_conedims_by_type':
                continue
            a = canon(f.sym_operand(c.args[2]))
            for m in re.finditer(r'SupportedConeTag::(\w+)', a):
                got.add(m.group(1))
        R.check(variants <= got, 'all-tags' + tag, 'the header prints per-type lines for %s only; missing: %s (those cones are counted in the total but listed nowhere)' % (sorted(got), sorted(variants - got)), f.loc())

    R.guard(body)


def buffer_read_only(rep, F, tag):
    """Reading the captured log must not change it: get_print_buffer takes &mut self for historical reasons, but a buffer that is emptied
    (mem::take, drain, clear) by a read holds less than the file and stream targets after the next solve."""
    R = rep.rule('C20.R11', 'get_print_buffer does not modify the print target')

    def body():
        fs = [x for x in F.find(name='get_print_buffer') if 'PrintTarget' in (x.impl_self or '')]
        if len(fs) != 1:
            raise AnchorError('get_print_buffer for PrintTarget matched %d functions' % len(fs))
        f = fs[0]
        MUT = {'take', 'replace', 'swap', 'drain', 'clear', 'truncate', 'split_off', 'append', 'push', 'extend', 'extend_from_slice', 'retain', 'resize', 'set_len', 'pop', 'remove'}
        n = 0
        for val, ret, ev, tr in Walker(f).leaves():
            if ret[0] == 'diverge':
                continue
            n += 1
            st = [str(e[1])[:40] for e in ev if e[0] == 'store' and 'self' in str(e[1])]
            cs = [e[1] for e in ev if e[0] == 'call' and e[1] in MUT and 'self' in str(e[2])]
            R.check(not st and not cs, 'read-only|%s%s' % (sorted(val.values()), tag), 'get_print_buffer modifies the target on a path (stores %s, calls %s)' % (st, cs), f.loc())
        R.check(n >= 2, 'paths' + tag, 'only %d paths of get_print_buffer analysed' % n)

    R.guard(body)


def status_names(rep, F, tag):
    """"the printed footer agrees with the returned solution": the footer prints the status through Display for SolverStatus.  Whatever
    wording Display chooses, it must tell the variants apart and must not give one variant another variant's name."""
    R = rep.rule('C20.R12', 'Display for SolverStatus: distinct variants print distinct names, and no variant prints the name of another')

    def body():
        variants = {int(v['discr']) if v['discr'] is not None else i: v['n'] for i, v in enumerate(F.adt('SolverStatus')['variants'])}
        nrm = lambda t: re.sub(r'[^a-z0-9]', '', t.lower())

        def impl(trait):
            fs = [x for x in F.fns if x.name == 'fmt' and last_seg(strip_generics(x.impl_self or '')) == 'SolverStatus' and (x.impl_trait or '').endswith(trait)]
            if len(fs) != 1:
                raise AnchorError('%s for SolverStatus matched %d functions' % (trait, len(fs)))
            return fs[0]

        def table(g, depth=0):
            """discr -> printed text (None = unknown form)"""
            out = {}
            for val, ret, ev, tr in Walker(g).leaves():
                if ret[0] == 'diverge':
                    continue
                d = val.get('discr(self)')
                texts = []
                if ret[0] == 's' and re.fullmatch(r'"[^"]*"', str(ret[1])):
                    texts.append(str(ret[1])[1:-1])
                for e in ev:
                    if e[0] != 'call':
                        continue
                    k = str(e[2])
                    m = re.fullmatch(r'write_str\(arg2, "([^"]*)"\)', k)
                    if m:
                        texts.append(m.group(1))
                        continue
                    m = re.fullmatch(r'(?:write_str|pad)\(arg2, var:(\w+)\)', k)
                    if m:
                        # a local given a literal in each arm of a match: take the assignment on this path
                        ls = [i for i, l in enumerate(g.locals) if l['n'] == m.group(1) or '_%d' % i == m.group(1)]
                        got = []
                        for bi, si, st in g.assignments():
                            if bi in tr and not st['p']['p'] and st['p']['l'] in ls:
                                got.append(canon(g.sym_rvalue(st['rv'])))
                        texts.append(got[0][1:-1] if len(got) == 1 and re.fullmatch(r'"[^"]*"', got[0]) else None)
                        continue
                    m = re.fullmatch(r'(?:write_str|pad)\(arg2, (\w+)\(self\)\)', k) or (re.fullmatch(r'new_display\((\w+)\(self\)\)', k))
                    if m and depth < 2:
                        hs = [x for x in F.find(name=m.group(1)) if last_seg(strip_generics(x.impl_self or '')) == 'SolverStatus']
                        if len(hs) == 1:
                            sub = table(hs[0], depth + 1)
                            if d is None:
                                return sub
                            texts.append(sub.get(d))
                        continue
                    if k == 'new_debug(self)':
                        dbg = impl('Debug')
                        sub = table(dbg, depth + 1)
                        if dbg.j.get('impl_exp') and any(v is None for v in sub.values()):
                            sub = dict(variants)          # derived: the compiler writes the variant's own name
                        if d is None:
                            return sub
                        texts.append(sub.get(d))
                if d is None:
                    return {dd: None for dd in variants}
                out[d] = texts[0] if len(texts) == 1 else None
            return out

        D = impl('Display')
        lits = [t for t, srcs, c in fmt_sources(D) if re.sub(r'b?"(\\x[0-9a-f]{2})*"', '', t)]
        T = table(D)
        unknown = [variants[d] for d in variants if T.get(d) is None]
        R.check(not unknown and not lits, 'form' + tag, 'the text Display prints for %s could not be determined (accepted: the derived Debug name, a literal per variant, or a '
                'per-variant name function of self)' % (unknown or lits), D.loc())
        if unknown:
            return
        own = {nrm(n): d for d, n in variants.items()}
        seen = {}
        for d, n in sorted(variants.items()):
            t = T[d]
            R.check(t not in seen, 'distinct|%s%s' % (n, tag), 'SolverStatus::%s and SolverStatus::%s both print as "%s": the footer of a solve that ends in one cannot be told from the other, '
                    'and disagrees with solution.status' % (n, variants.get(seen.get(t), '?'), t), D.loc())
            seen.setdefault(t, d)
            R.check(own.get(nrm(t), d) == d, 'own-name|%s%s' % (n, tag), 'SolverStatus::%s prints as "%s", the name of another status' % (n, t), D.loc())
        R.check(len(variants) >= 11, 'variants' + tag, 'only %d status variants' % len(variants))

    R.guard(body)


def target_survives(rep, F, tag):
    """A target selected with print_to_* stays installed until the next print_to_*: nothing else replaces DefaultInfo::stream, the whole
    DefaultInfo, or the Solver's info (a reset that rebuilds the struct from `..Default::default()` and a *clone* of the stream silently
    turns a Stream target into a Sink - PrintTarget::clone cannot duplicate an arbitrary writer); and each print_to_* / get_print_buffer
    of DefaultInfo and of the Solver hands its argument to the method of the same name one level down, unwrapped."""
    R = rep.rule('C20.R13', 'the installed print target is replaced only by print_to_*: no other whole write of DefaultInfo / its stream; the print_to_* layers delegate to the same-named method with the same argument')

    def body():
        def whole_writes(owner_sub, fields):
            out = []
            for g in F.fns:
                for bi, si, st in g.assignments():
                    pr = st['p']['p']
                    if not pr or pr[0] != '*':
                        continue
                    ty = g.local_ty(st['p']['l'])
                    if not (ty.startswith('&mut ') and owner_sub in ty):
                        continue
                    rest = pr[1:]
                    if rest == [] or (len(rest) == 1 and isinstance(rest[0], dict) and rest[0].get('n') in fields and owner_sub.rstrip('<') in rest[0].get('o', '')):
                        out.append((g, 'the whole struct' if not rest else rest[0]['n']))
            return out
        # positive control: the five PrintTarget::print_to_* do replace *self
        ctl = [g for g, w in whole_writes('io::PrintTarget', ()) if g.name.startswith('print_to_')]
        R.check(len(set(g.name for g in ctl)) == 5, 'control' + tag, 'whole-write detection found only %s among PrintTarget::print_to_*' % sorted(set(g.name for g in ctl)))
        bad = whole_writes('info::DefaultInfo<', ('stream',)) + [(g, w) for g, w in whole_writes('solver::Solver<', ('info',)) if w == 'info']
        for g, w in bad:
            R.bad('replaced|%s|%s%s' % (g.name, w, tag), '%s overwrites %s of the info: the print target selected by the user does not survive (a rebuilt stream is a clone, and '
                  'cloning a Stream target yields a Sink)' % (g.name, w), g.loc())
        for g in F.fns:
            for c in g.calls:
                if c.callee.name in ('replace', 'swap', 'take') and c.args:
                    a = canon(g.sym_operand(c.args[0]))
                    if a.endswith('.stream') and ('info' in a or a == 'self.stream') and 'DefaultInfo' in (g.impl_self or '') + ' '.join(g.local_ty(i) for i in range(1, g.argc + 1)):
                        R.bad('replaced|%s|call%s' % (g.name, tag), '%s swaps the print target out with %s' % (g.name, c.callee.name), g.loc(c.sp))
        if not bad:
            R.ok('no-other-writer' + tag, {'functions': len(F.fns)})
        n = 0
        for nm in ('print_to_stdout', 'print_to_file', 'print_to_stream', 'print_to_sink', 'print_to_buffer', 'get_print_buffer'):
            for g in F.find(name=nm):
                owner = g.impl_self or ''
                oname = last_seg(strip_generics(owner))
                if oname == 'PrintTarget':
                    continue
                field = 'self.stream' if oname == 'DefaultInfo' else 'self.info'
                want = '%s(%s%s)' % (nm, field, ', arg2' if nm in ('print_to_file', 'print_to_stream') else '')
                for val, ret, ev, tr in Walker(g).leaves():
                    if ret[0] == 'diverge':
                        continue
                    calls = [str(e[2]) for e in ev if e[0] == 'call']
                    n += 1
                    R.check(calls == [want], 'delegates|%s|%s%s' % (nm, 'info' if field == 'self.stream' else 'solver', tag),
                            '%s of %s calls %s, expected exactly %s (the target the user names is the target that is installed, unwrapped)' % (nm, last_seg(strip_generics(owner)), calls, want), g.loc())
        R.check(n >= 12, 'delegations' + tag, 'only %d delegating print_to_* analysed' % n)

    R.guard(body)


def run(ctx, rep, tier):
    for cfg in CONFIGS:
        F = ctx.facts(cfg)
        G = ctx.cg(cfg)
        tag = '' if cfg == 'default' else '[%s]' % cfg
        silence(rep, F, G, tag)
        single_route(rep, F, G, tag)
        transparent_targets(rep, F, tag)
        table_and_header(rep, F, tag)
        cone_tags(rep, F, tag)
        settings_header(rep, F, tag)
        cone_dims_list(rep, F, tag)
        fresh_targets(rep, F, tag)
        buffer_read_only(rep, F, tag)
        cone_type_lines(rep, F, tag)
        status_names(rep, F, tag)
        target_survives(rep, F, tag)
        # 'presolve: removed N constraints' is mfull - mreduced: the bookkeeping of the reduction map (C09.R2 re-run)
        from . import c09
        c09.drop_condition(c04._Ren(rep, 'C09.R2', 'C20.R8'), F, tag)
        # the last table line and the footer agree with the returned solution only if the solution copies the info figures on every path (C03.R1 re-run)
        shared.report_provenance(c04._Ren(rep, 'C03.R1', 'C20.R7'), F, ctx.eff(cfg), tag, 'C03.R1')
    if tier == 'thorough':
        from . import witness
        witness.run(rep, 'C20.W', ['private_stream'])
