"""C14 -- nonsymmetric-cone barrier calculus (structural clauses)"""
import re
from engine.mir import last_seg, show, AnchorError, strip_generics
from engine.preds import canon, Walker
from engine.effects import IDX, fmt_path
from .common import *

CONFIGS = ['default']
CONFIGS_THOROUGH = ['default', 'full']
TECHNIQUE = ('effect analysis (barrier oracles read no scaling state), decision table of the primal-dual scaling fallback, path rule on the '
             'scaling update order, abstract interpretation over rational functions with opaque transcendental atoms (Euler identities of the '
             'barrier derivatives), symbolic differentiation of the dual barriers with log / powf as differentiable atoms')
EXPLANATION = (
    "That the derivative formulas of the generalised power cone and of the primal barriers (defined through Newton / Wright-omega roots) "
    "are the derivatives of the stated barriers, the "
    "third-order correction of the generalised power cone, conjugacy proper (grad f*(s) solves grad f(-g) = -s; only the Newton start point is compared with its "
    "sibling) and everything about the generalised power cone's formulas (element-wise loops) are NOT decided. Decided on the MIR of the current tree: (R1) for the "
    "exponential, power and generalised power cones the membership tests, barrier functions and the primal gradient "
    "are functions of their argument and construction-time constants only - they read no field that the scaling "
    "update writes (declared scratch excepted); (R2) the primal-dual scaling formula is used only under the four "
    "documented guards and every other path falls back to mu*H with mu = <s,z>/3; update_Hs selects by the strategy; the generalised "
    "power cone never claims primal-dual scaling; (R3) update_scaling refreshes the dual gradient/Hessian before "
    "the scaling matrix and records the scaling point z on every successful path; (R4) logarithmic homogeneity: for the "
    "exponential and the power cone the dual gradient and Hessian satisfy <grad, z> = -3 and H z = -grad, and the primal "
    "gradient map satisfies <g(s), s> = -3 on every path, as identities of rational functions in (z, alpha) and the opaque "
    "values of log / powf / the Newton and Wright-omega roots - a necessary condition of being the derivatives of a "
    "3-logarithmically-homogeneous barrier resp. of its conjugate; (R5) the power cone's membership tests, dual barrier, "
    "gradient and Hessian have the parities that the symmetry s3 -> -s3 of the cone implies; (R6) unit_initialization "
    "overwrites both of its vectors wholly on every path, so the start point does not depend on a previous solve; (R7) the "
    "membership tests of the exponential, power and generalised power cones return true only under the sign conditions of "
    "the cone (the domain of their logarithms) and a positive residual; (R8) the Newton start point of the 3-d power cone equals "
    "the generalised power cone's start point specialised to exponents (alpha, 1-alpha) as a rational function with identified "
    "radicands (finding F7, fixed: psi was hard-wired to its alpha = 1/2 value); (R9) the shared one-sided Newton iteration stops on "
    "a relative step; (R10) degree() of every cone type is its barrier parameter (3, 3, dim1+1, 1, dim, n, 0)."
    " (R11) symbolic differentiation with log / powf as differentiable atoms: for the exponential and power cone d barrier_dual / d z_i = grad_i and d grad_i / d z_j = H_ij exactly (18 rational-function identities)."
    " R6 also: a vector that unit_initialization copies into the other one is final when copied."
    " (R12) the closure passed to the one-sided Newton iteration as derivative is d/dx of the closure passed as function (power cone; generalised power cone term by term over the fold)."
    " (R13) third-order correction of the exponential and power cone: higher_correction is replayed with the state of eta, the scratch matrix and every local tracked statement by statement; eta is a bilinear form in (u, v) whose 27 coefficients equal 1/2 d^3 f*/dz_i dz_j dz_k exactly."
    " (R14) the sign tests that decide membership of the power and exponential cone evaluate the defining expressions of K and K* (the dual power cone test is the same power product as the dual barrier)."
    " (R15) primal-dual scaling: the stored Hs is s s'/<s,z> + ds ds'/<ds,dz> + t a a' with ds = s + mu st, dz = z + mu zt, a = normalised z x zt, and - given the Euler identities of R4 - <ds,z> = <s,dz> = <a,z> = <a,dz> = 0, so Hs z = s and Hs zt = st identically (positive definiteness not decided)."
    ' (R16) the constants of unit_initialization (exp, pow; pow at three generic exponents) satisfy s = -grad f*(z) for the gradient polynomial of R11 (evaluated from the source text, tolerance 1e-6: the literals of the exponential cone are accurate to 4e-9 only); (R17) the 3x3 Cholesky used by higher_correction rejects a pivot iff it is <= 0 exactly, and the correction is zeroed iff it failed.'
    " (R18) generalised power cone membership tests: log-sum summand 2 a_i log(s_i) (primal) / 2 a_i log(z_i/a_i) (dual), compared with the squared norm of the tail; (R19) exponential cone: barrier_primal(s) = -3 - barrier_dual(-gradient_primal(s)) and grad f*(-gradient_primal(s)) = -s at four interior points (source expressions evaluated numerically, Wright omega solved by Newton's iteration).")
ASSUMPTIONS = ['rustc MIR construction and trait resolution are correct',
               'R4: identities over the reals; log(a b) = log a + log b and omega + log omega = x for omega = wright_omega(x)']

NONSYM = ('ExponentialCone', 'PowerCone', 'GenPowerCone')
ORACLES = ('is_primal_feasible', 'is_dual_feasible', 'barrier_dual', 'barrier_primal', 'gradient_primal')
# scratch fields: every reader overwrites them before reading within the same call
SCRATCH = {
    'GenPowerCone': {'work': 'taken out with mem::take, fully rewritten by waxpby before any read',
                     'work_pb': 'gradient buffer written by gradient_primal before barrier_primal reads it'},
}


def state_independence(rep, F, E, tag):
    R = rep.rule('C14.R1', 'barrier oracles are functions of the point: no read of scaling state')

    def body():
        n = 0
        for K in NONSYM:
            us = F.one(name='update_scaling', adt=K, trait='Cone')
            state = set()
            for r, ch in E.W[us.key]:
                if r == ('param', 1):
                    nc = norm_chain(ch)
                    if nc:
                        state.add(nc)
            R.check(len(state) >= 3, 'state|%s%s' % (K, tag), 'update_scaling of %s writes only %d fields (anchor drift)' % (K, len(state)), us.loc())
            scratch = SCRATCH.get(K, {})
            for nm in ORACLES:
                fs = F.find(name=nm, adt=K)
                if len(fs) != 1:
                    R.bad('oracle-anchor|%s::%s%s' % (K, nm, tag), '%d implementations of %s::%s' % (len(fs), K, nm))
                    continue
                f = fs[0]
                n += 1
                bad = []
                for r, ch in E.R[f.key]:
                    if r != ('param', 1):
                        continue
                    nc = norm_chain(ch)
                    if not nc:
                        continue
                    if nc[-1][1] in scratch:
                        continue
                    if any(nc[:len(s)] == s or s[:len(nc)] == nc for s in state):
                        # reading a prefix (navigating to a sub-object) is not a read of the state itself
                        if any(nc[:len(s)] == s for s in state):
                            bad.append(nc)
                R.check(not bad, 'pure|%s::%s%s' % (K, nm, tag),
                        '%s::%s reads %s, which update_scaling overwrites: the result depends on the last scaling '
                        'point instead of only on its argument' % (K, nm, sorted('.'.join(e[1] for e in b) for b in bad)), f.loc())
            # scratch justification: written before read inside the oracle that uses it
        R.check(n >= 15, 'oracle-count' + tag, 'only %d oracle functions analysed' % n)

    R.guard(body)


def scaling_fallback(rep, F, tag):
    R = rep.rule('C14.R2', 'primal-dual scaling only under the four guards, otherwise mu*H; strategy dispatch')

    def body():
        f = F.one(name='use_primal_dual_scaling', trait='Nonsymmetric3DConeUtils')
        leaves = Walker(f, cut_loops=True).leaves()

        def kind(k):
            if 'abs(' in k and 'sqrt(epsilon())' in k:
                return 'de1'
            if 'abs(' in k and 'epsilon()' in k:
                return 'de2'
            if k.startswith('lt(zero(), dot(arg2, arg3))'):
                return 'dot_sz'
            if k.startswith('lt(zero(), dot('):
                return 'dot_dsz'
            return None
        seen_pd = seen_fb = 0
        for val, ret, ev, tr in leaves:
            if ret[0] == 'diverge':
                continue
            g = {}
            for k, v in val.items():
                kd = kind(k)
                if kd:
                    g[kd] = v
            fb = any(e[0] == 'call' and e[1] == 'use_dual_scaling' for e in ev)
            wrote = any(e[0] == 'call' and e[1] in ('copy_from', 'index_mut', 'norm_fro') for e in ev)
            allok = len(g) == 4 and all(v == 1 for v in g.values())
            if fb:
                seen_fb += 1
                R.check(not allok, 'fallback-only-when-guard-fails' + tag, 'falls back to dual scaling although all guards hold', f.loc())
                fa = [e[2] for e in ev if e[0] == 'call' and e[1] == 'use_dual_scaling']
                R.check(all(x.startswith('use_dual_scaling(self, div(dot(arg2, arg3), ') for x in fa), 'fallback-mu' + tag,
                        'the fallback scales the dual Hessian by %s, expected mu = <s,z>/3' % [x[:80] for x in fa], f.loc())
            else:
                if ret[0] in ('cut',):
                    # inside the pd branch loops
                    R.check(allok or not wrote, 'pd-guarded|cut' + tag, 'primal-dual formula reached with guards %s' % g, f.loc())
                    continue
                seen_pd += 1
                R.check(allok, 'pd-guarded' + tag,
                        'the primal-dual scaling formula is used on a path where the guards are %s (all four of '
                        '|de1|>sqrt(eps), |de2|>eps, <s,z> > 0, <ds,dz> > 0 must hold)' % g, f.loc())
        R.check(seen_fb >= 1, 'fallback-exists' + tag, 'no fallback path to use_dual_scaling (anchor drift)')
        uh = F.one(name='update_Hs', trait='Nonsymmetric3DConeUtils')
        for val, ret, ev, tr in Walker(uh).leaves():
            k = [x for x in val if 'ScalingStrategy::Dual' in x]
            calls = [e[1] for e in ev if e[0] == 'call']
            if not k:
                R.bad('dispatch-test' + tag, 'update_Hs does not test the scaling strategy', uh.loc())
                continue
            R.check(('use_dual_scaling' in calls) == bool(val[k[0]]) and ('use_primal_dual_scaling' in calls) == (not val[k[0]]),
                    'dispatch|%d%s' % (val[k[0]], tag), 'update_Hs calls %s with strategy==Dual %s' % (calls, bool(val[k[0]])), uh.loc())
        ud = F.one(name='use_dual_scaling', trait='Nonsymmetric3DConeUtils')
        sf = calls_named(ud, 'scaled_from')
        R.check(len(sf) == 1 and canon(ud.sym_operand(sf[0].args[1])) == 'arg2', 'dual-scaling-mu' + tag, 'use_dual_scaling does not scale by its mu argument', ud.loc())
        gp = F.one(name='allows_primal_dual_scaling', adt='GenPowerCone', trait='Cone')
        R.check(canon(gp.sym_local(0)) == 'false', 'genpow-dual-only' + tag, 'GenPowerCone::allows_primal_dual_scaling returns %s' % canon(gp.sym_local(0)), gp.loc())

    R.guard(body)


def update_order(rep, F, E, tag):
    R = rep.rule('C14.R3', 'update_scaling: dual gradient/Hessian refreshed first, scaling point recorded on every path')

    def body():
        for K in NONSYM:
            f = F.one(name='update_scaling', adt=K, trait='Cone')
            ug = calls_named(f, 'update_dual_grad_H')
            R.check(len(ug) == 1 and canon(f.sym_operand(ug[0].args[1])) == 'arg3', 'grad-call|%s%s' % (K, tag),
                    '%s::update_scaling does not call update_dual_grad_H(z)' % K, f.loc())
            uh = [c for c in f.calls if c.callee.name in ('update_Hs', 'use_dual_scaling')]
            if K != 'GenPowerCone':
                R.check(len(uh) == 1 and ug and f.dominates(ug[0].bb, uh[0].bb), 'grad-before-Hs|%s%s' % (K, tag),
                        '%s::update_scaling does not refresh the dual gradient before the scaling matrix' % K, f.loc())
                if uh:
                    a = [canon(f.sym_operand(x)) for x in uh[0].args]
                    R.check(a[:5] == ['self', 'arg2', 'arg3', 'arg4', 'arg5'], 'Hs-args|%s%s' % (K, tag), 'update_Hs(%s)' % a, f.loc(uh[0].sp))
            # z recorded: a direct write of the cone's z field from the z argument, on every returning path
            sites = E.direct_write_sites(f, K if K != 'GenPowerCone' else 'GenPowerConeData', 'z')
            zs = []
            for c in f.calls:
                if c.callee.name in ('copy_from', 'copy_from_slice', 'clone_from_slice'):
                    a = [canon(f.sym_operand(x)) for x in c.args]
                    if a[0].endswith('.z') and a[1] == 'arg3':
                        zs.append(c)
            pd = f.postdominators()
            R.check(len(zs) >= 1 and any(c.bb in pd.get(0, set()) for c in zs), 'z-recorded|%s%s' % (K, tag),
                    '%s::update_scaling does not unconditionally record the scaling point z (needed by the '
                    'higher-order correction and combined_ds_shift)' % K, f.loc())
            if ug and zs:
                R.check(all(f.dominates(ug[0].bb, c.bb) for c in zs), 'z-after-grad|%s%s' % (K, tag), 'z is recorded before the gradient update', f.loc())

    R.guard(body)


# ---------------------------------------------------------------------------
# logarithmic homogeneity (Euler identities) of the barrier derivatives
# ---------------------------------------------------------------------------
import re as _re
from fractions import Fraction
from engine.linform import LFSplit, P_atom, P_const, P_add, P_mul, P_fmt, RatF, to_ratf

NU3 = 3   # barrier parameter of the three-dimensional exponential and power cones


def _atoms(prefix):
    def atoms(k, s_):
        m = _re.fullmatch(r'arg2\[(\d)_usize\]', k)
        if m:
            return ('S', P_atom('%s%s' % (prefix, m.group(1))))
        if k == 'self.α':
            return ('S', P_atom('alpha'))
        if k.startswith(('powf(', 'logsafe(', '_wright_omega(', '_newton_raphson', 'abs(', 'ln(', 'exp(')):
            return ('S', P_atom(k))
        return None
    return atoms


def euler_identities(rep, F, E, tag):
    """A nu-logarithmically-homogeneous barrier f satisfies <grad f(x), x> = -nu and H(x) x = -grad f(x) for every
    interior x, whatever the transcendental parts (log, powf, the Newton / Wright-omega roots) evaluate to; the same
    holds for the conjugate barrier whose gradient is the primal gradient map.  Both are identities of rational
    functions in (x, alpha, opaque atoms) and are decided exactly."""
    R = rep.rule('C14.R4', 'Euler identities of the 3-d barriers: <grad, z> = -3, H z = -grad (dual side); <gradient_primal(s), s> = -3')

    def body():
        n = 0
        for K in ('ExponentialCone', 'PowerCone'):
            f = F.one(name='update_dual_grad_H', adt=K)
            reg = {}
            I = LFSplit(F, E, f, _atoms('z'), reg)
            leaves = I.run({})
            R.check(len(leaves) >= 1, 'dual-paths|%s%s' % (K, tag), 'no path through update_dual_grad_H', f.loc())
            for li, (val, ret, st) in enumerate(leaves):
                g = [st.get('self.grad[%d_usize]' % i) for i in range(3)]
                H = {}
                for k, v in st.items():
                    m = _re.fullmatch(r'index_mut\(self\.H_dual, tuple\((\d)_usize, (\d)_usize\)\)', k)
                    if m:
                        H[(int(m.group(1)), int(m.group(2)))] = v
                ok = all(x is not None and x[0] == 'S' for x in g) and len(H) == 6 and all(x is not None and x[0] == 'S' for x in H.values())
                R.check(ok, 'dual-shape|%s|%d%s' % (K, li, tag), 'gradient / upper-triangular Hessian of %s not evaluated: grad %s, H entries %s' % (
                    K, [x and x[0] for x in g], sorted(H)), f.loc())
                if not ok:
                    continue
                n += 1
                Q = lambda p_: to_ratf(p_, reg)
                z = [RatF(P_atom('z%d' % i)) for i in range(3)]
                e1 = RatF(P_const(NU3))
                for i in range(3):
                    e1 = e1 + Q(g[i][1]) * z[i]
                R.check(e1.is_zero(), 'euler-grad|%s|%d%s' % (K, li, tag),
                        '%s: <grad f(z), z> + 3 = %s, not identically zero: the dual gradient is not the gradient of a 3-logarithmically-homogeneous barrier' % (K, P_fmt(e1.n)[:200]), f.loc())
                for i in range(3):
                    row = Q(g[i][1])
                    for j in range(3):
                        row = row + Q(H[(min(i, j), max(i, j))][1]) * z[j]
                    R.check(row.is_zero(), 'euler-hess|%s|row%d|%d%s' % (K, i, li, tag),
                            '%s: (H z + grad)[%d] = %s, not identically zero: Hessian and gradient of the dual barrier are inconsistent' % (K, i, P_fmt(row.n)[:200]), f.loc())
        R.check(n >= 2, 'dual-count' + tag, 'only %d dual-side evaluations' % n)
        # primal gradient (conjugate map)
        f = F.one(name='gradient_primal', adt='PowerCone')
        reg = {}
        I = LFSplit(F, E, f, _atoms('s'), reg)
        leaves = I.run({}, local_stores=True)
        R.check(len(leaves) >= 3, 'primal-paths|PowerCone' + tag, 'gradient_primal of the power cone has %d paths, expected the sign / small-s3 cases' % len(leaves), f.loc())
        for li, (val, ret, st) in enumerate(leaves):
            g = [st.get('var:g[%d_usize]' % i, st.get('g[%d_usize]' % i)) for i in range(3)]
            ok = all(x is not None and x[0] == 'S' for x in g)
            R.check(ok, 'primal-shape|PowerCone|%d%s' % (li, tag), 'gradient_primal result not evaluated: %s' % [x and x[0] for x in g], f.loc())
            if not ok:
                continue
            e1 = RatF(P_const(NU3))
            for i in range(3):
                e1 = e1 + to_ratf(g[i][1], reg) * RatF(P_atom('s%d' % i))
            R.check(e1.is_zero(), 'euler-primal|PowerCone|%d%s' % (li, tag),
                    'PowerCone::gradient_primal on the path %s: <g, s> + 3 = %s, not identically zero - g is not the gradient of the conjugate barrier at s '
                    '(e.g. g[0], g[1] formed from a g[2] that is changed afterwards)' % (val, P_fmt(e1.n)[:200]), f.loc())

        # exponential cone: omega = wright_omega(A) is defined by omega + log(omega) = A, hence
        # log(omega * q) = A - omega + log(q): the one transcendental relation the identity needs
        f = F.one(name='gradient_primal', adt='ExponentialCone')
        reg = {}
        base = _atoms('s')
        holder = {}

        def atoms_exp(k, s_):
            if k.startswith('logsafe(') and s_[0] == 'call' and len(s_[2]) == 1:
                a = LFSplit._strip(s_[2][0])
                if a[0] == 'call' and last_seg(a[1].split('#')[0]) == 'div' and len(a[2]) == 2:
                    num, den = LFSplit._strip(a[2][0]), a[2][1]
                    if num[0] == 'call' and last_seg(num[1].split('#')[0]) == 'mul' and len(num[2]) == 2:
                        xs = [LFSplit._strip(x) for x in num[2]]
                        om = [x for x in xs if x[0] == 'call' and last_seg(x[1].split('#')[0]) == '_wright_omega']
                        ot = [x for x in xs if not (x[0] == 'call' and last_seg(x[1].split('#')[0]) == '_wright_omega')]
                        if len(om) == 1 and len(ot) == 1:
                            I_ = holder['I']
                            A = I_.ev({}, om[0][2][0])
                            w = I_.ev({}, om[0])
                            if A is not None and w is not None and A[0] == 'S' and w[0] == 'S':
                                lq = P_atom('logsafe(div(%s, %s))' % (canon(ot[0]), canon(LFSplit._strip(den))))
                                holder['used'] = True
                                return ('S', P_add(P_add(A[1], w[1], -1), lq))
            return base(k, s_)
        I = LFSplit(F, E, f, atoms_exp, reg)
        holder['I'] = I
        leaves = I.run({}, local_stores=True)
        R.check(len(leaves) == 1, 'primal-paths|ExponentialCone' + tag, 'gradient_primal of the exponential cone has %d paths' % len(leaves), f.loc())
        for li, (val, ret, st) in enumerate(leaves):
            g = [st.get('var:g[%d_usize]' % i, st.get('g[%d_usize]' % i)) for i in range(3)]
            ok = all(x is not None and x[0] == 'S' for x in g) and holder.get('used')
            R.check(ok, 'primal-shape|ExponentialCone|%d%s' % (li, tag), 'gradient_primal result not evaluated (%s) or the log(omega q) term not found' % [x and x[0] for x in g], f.loc())
            if not ok:
                continue
            e1 = RatF(P_const(NU3))
            for i in range(3):
                e1 = e1 + to_ratf(g[i][1], reg) * RatF(P_atom('s%d' % i))
            R.check(e1.is_zero(), 'euler-primal|ExponentialCone|%d%s' % (li, tag),
                    'ExponentialCone::gradient_primal: <g, s> + 3 = %s, not identically zero (with log(omega s1/s2) = A - omega + log(s1/s2), '
                    'A the Wright-omega argument)' % P_fmt(e1.n)[:200], f.loc())

    R.guard(body)


# ---------------------------------------------------------------------------
# reflection symmetry of the power cone in its third coordinate
# ---------------------------------------------------------------------------
from engine.linform import P_neg, P_key

TRANS = ('logsafe', 'exp', 'powf', 'ln', 'log', 'sqrt', 'abs', '_newton_raphson_powcone', 'powi')


def _sem_atoms(prefix, flip, holder):
    """atoms for coordinates (prefix0..2, the third negated when `flip`) and *semantic* opaque atoms: a transcendental
    call is identified by the polynomials of its arguments, not by its source text, so that f(s2) and f(-s2) differ
    unless f's argument is even in s2; abs(p) is identified up to the sign of p"""
    def atoms(k, s_):
        m = _re.fullmatch(r'arg2\[(\d)_usize\]', k)
        if m:
            a = P_atom('%s%s' % (prefix, m.group(1)))
            return ('S', P_neg(a) if (flip and m.group(1) == '2') else a)
        if k == 'self.α':
            return ('S', P_atom('alpha'))
        if s_[0] == 'call':
            nm = last_seg(s_[1].split('#')[0])
            if nm in TRANS:
                I_ = holder['I']
                vals = [I_.ev(holder.get('st', {}), a_) for a_ in s_[2]]
                if all(v is not None and v[0] == 'S' for v in vals):
                    keys = [P_key(v[1]) for v in vals]
                    if nm == 'abs':
                        keys = [min(P_key(vals[0][1]), P_key(P_neg(vals[0][1])), key=str)]
                    return ('S', P_atom((nm,) + tuple(keys)))
                return None
        return None
    return atoms


def _eval_both(F, E, f, prefix, want, local_stores=False):
    out = []
    for flip in (False, True):
        holder = {}
        reg = {}
        I = LFSplit(F, E, f, _sem_atoms(prefix, flip, holder), reg)
        holder['I'] = I
        res = []
        for val, ret, st in I.run({}, local_stores=local_stores):
            res.append((val, ret, {k: st.get(k) for k in want(st)}, I.ev(st, f.sym_local(0))))
        out.append((res, reg))
    return out


def reflection_symmetry(rep, F, E, tag, rid='C14.R5'):
    """K_pow = {x^a y^(1-a) >= |z|} and its dual are invariant under z -> -z: membership tests and barriers are even in
    the third coordinate, gradient components 0,1 even and 2 odd, Hessian entries (0,2),(1,2) odd and the rest even."""
    R = rep.rule(rid, 'power cone: membership tests and barrier are even in the third coordinate; gradient / Hessian have the matching parities')

    def body():
        K = 'PowerCone'
        for nm in ('is_primal_feasible', 'is_dual_feasible'):
            f = F.one(name=nm, adt=K)
            (a, _), (b, _) = _eval_both(F, E, f, 'u', lambda st: [k for k in st if k == 'var:res'])
            ra = [x[2].get('var:res') for x in a if x[2].get('var:res') is not None]
            rb = [x[2].get('var:res') for x in b if x[2].get('var:res') is not None]
            ok = bool(ra) and len(ra) == len(rb) and all(x is not None and y is not None and x[0] == 'S' and x == y for x, y in zip(ra, rb))
            R.check(ok, 'even|%s%s' % (nm, tag),
                    'PowerCone::%s: the tested quantity changes under s3 -> -s3 (%s vs %s): the cone is symmetric in its third coordinate, '
                    'a test that is not even rejects or accepts points with negative s3 wrongly' % (
                        nm, P_fmt(ra[0][1])[:120] if ra and ra[0] and ra[0][0] == 'S' else ra[:1], P_fmt(rb[0][1])[:120] if rb and rb[0] and rb[0][0] == 'S' else rb[:1]), f.loc())
        f = F.one(name='barrier_dual', adt=K)
        (a, _), (b, _) = _eval_both(F, E, f, 'u', lambda st: [])
        ra, rb = [x[3] for x in a], [x[3] for x in b]
        ok = bool(ra) and all(x is not None and x[0] == 'S' and x == y for x, y in zip(ra, rb))
        R.check(ok, 'even|barrier_dual' + tag, 'PowerCone::barrier_dual is not even in z3', f.loc())
        f = F.one(name='update_dual_grad_H', adt=K)
        want = lambda st: [k for k in st if _re.fullmatch(r'self\.grad\[\d_usize\]', k) or k.startswith('index_mut(self.H_dual, tuple(')]
        (a, _), (b, _) = _eval_both(F, E, f, 'u', want)
        if len(a) == 1 and len(b) == 1:
            sa, sb = a[0][2], b[0][2]
            n = 0
            for k in sorted(sa):
                x, y = sa.get(k), sb.get(k)
                if x is None or y is None or x[0] != 'S' or y[0] != 'S':
                    R.bad('parity|%s%s' % (k[-24:], tag), 'could not evaluate %s' % k, f.loc())
                    continue
                idx = [int(t) for t in _re.findall(r'(\d)_usize', k)]
                odd = (idx == [2]) or (len(idx) == 2 and (idx.count(2) == 1))
                n += 1
                R.check(y[1] == (P_neg(x[1]) if odd else x[1]), 'parity|%s%s' % (k[-24:], tag),
                        'PowerCone::update_dual_grad_H: %s should be %s in z3' % (k, 'odd' if odd else 'even'), f.loc())
            R.check(n == 9, 'parity-count' + tag, '%d of 9 gradient / Hessian entries analysed' % n, f.loc())
        else:
            R.bad('parity-paths' + tag, 'update_dual_grad_H has %d paths' % len(a), f.loc())

    R.guard(body)


# ---------------------------------------------------------------------------
# membership tests: sign guards of the logarithm arguments
# ---------------------------------------------------------------------------
MEMBERSHIP = {
    ('ExponentialCone', 'is_primal_feasible'): ['lt(zero(), arg2[2_usize])', 'lt(zero(), arg2[1_usize])'],
    ('ExponentialCone', 'is_dual_feasible'): ['lt(zero(), arg2[2_usize])', 'lt(arg2[0_usize], zero())'],
    ('PowerCone', 'is_primal_feasible'): ['lt(zero(), arg2[0_usize])', 'lt(zero(), arg2[1_usize])'],
    ('PowerCone', 'is_dual_feasible'): ['lt(zero(), arg2[0_usize])', 'lt(zero(), arg2[1_usize])'],
}


def membership_guards(rep, F, tag, rid='C14.R7'):
    """K_exp = cl{s1 log(s2/s1) >= s0, s1, s2 > 0}, K_exp* = {z1 - z0 - z0 log(-z2/z0) >= 0, z0 < 0, z2 > 0}, K_pow needs
    its first two coordinates positive.  The sign conditions are part of the cone: logsafe returns -inf on a non-positive
    argument and s1 * (-inf) = +inf for s1 < 0, so a test that relies on the residual alone accepts points outside."""
    R = rep.rule(rid, 'membership tests of the exponential and power cones return true only under the sign conditions of the cone and a positive residual')

    def body():
        n = 0
        for (K, nm), need in MEMBERSHIP.items():
            f = F.one(name=nm, adt=K)
            trues = [l for l in Walker(f, cut_loops=True).leaves() if l[1][0] == 'c' and l[1][1] == 1]
            R.check(len(trues) >= 1, 'accepting-path|%s::%s%s' % (K, nm, tag), 'no path returns true', f.loc())
            for val, ret, ev, tr in trues:
                n += 1
                missing = [a for a in need if val.get(a) != 1]
                res = [k for k, v in val.items() if k.startswith('lt(zero(), sub(') and v == 1]
                R.check(not missing and len(res) >= 1, 'guards|%s::%s%s' % (K, nm, tag),
                        '%s::%s returns true on a path without %s%s: points outside the cone are accepted (the backtracking line search then '
                        'steps out of the cone)' % (K, nm, missing or '', '' if res else ' a positive-residual test'), f.loc())
        for nm in ('is_primal_feasible', 'is_dual_feasible'):
            f = F.one(name=nm, adt='GenPowerCone')
            for val, ret, ev, tr in Walker(f, cut_loops=True).leaves():
                if ret[0] == 'c' and ret[1] == 1:
                    n += 1
                    allpos = [k for k, v in val.items() if k.startswith('all(iter(index(arg2, RangeTo::RangeTo(dim1(self))))') and v == 1]
                    res = [k for k, v in val.items() if k.startswith('lt(zero(), sub(') and v == 1]
                    wblock = any(k.replace('withoverflow', '').endswith(('sumsq(index(arg2, RangeFrom::RangeFrom(dim1(self))))))', ) ) for k in res)
                    R.check(wblock, 'w-block|GenPowerCone::%s%s' % (nm, tag),
                            'GenPowerCone::%s compares prod u_i^(2 a_i) with %s: the whole second block |w|^2 = sumsq(s[dim1..]) must be subtracted '
                            '(with dim2 >= 2 a single component accepts points outside the cone)' % (nm, [k[-70:] for k in res]), f.loc())
                    R.check(len(allpos) == 1 and len(res) >= 1, 'guards|GenPowerCone::%s%s' % (nm, tag),
                            'GenPowerCone::%s returns true without testing that all of the first dim1 coordinates are positive / without a positive residual' % nm, f.loc())
            cl = [canon(g.sym_local(0)) for g in F.closures_of.get(f.key, [])]
            R.check(any(c_ in ('lt(zero(), arg2)', 'lt(zero(), deref(arg2))') for c_ in cl), 'genpow-positive-closure|%s%s' % (nm, tag),
                    'GenPowerCone::%s: the positivity closure is %s' % (nm, cl), f.loc())
        R.check(n >= 6, 'membership-count' + tag, 'only %d accepting paths analysed' % n)

    R.guard(body)


# ---------------------------------------------------------------------------
# sibling specialisation: K_pow(alpha) is K_genpow((alpha, 1-alpha), dim2 = 1)
# ---------------------------------------------------------------------------
from engine.linform import P_eval, R_eval, R_atoms


def newton_start_siblings(rep, F, E, tag):
    """The primal gradient map needs the root of the same scalar equation in both cones; the one-sided Newton iteration
    converges only from a start x0 with f(x0) > 0 and stops at x0 otherwise.  The generalised power cone's start is
    x0 = -1/r + (psi r + sqrt((phi/r^2 + psi^2 - 1) phi)) / (phi - r^2), psi = 1/sum(alpha_i^2); the 3-d cone must use the same
    start with psi = 1/(alpha^2 + (1-alpha)^2) (psi = 2 is the alpha = 1/2 case only)."""
    R = rep.rule('C14.R8', 'the Newton start of the 3-d power cone is the generalised power cone\'s start specialised to (alpha, 1-alpha)')

    def body():
        fp = F.one(name='_newton_raphson_powcone')
        fg = F.one(name='_newton_raphson_genpowcone')

        def start(f, names):
            reg = {}

            def atoms(k, s_):
                if k in names:
                    return ('S', P_atom(names[k]))
                return None
            I = LFSplit(F, E, f, atoms, reg)
            x0 = None
            for val, ret, st in I.run({}):
                x0 = st.get('var:x0', x0)
            return x0, reg
        xp, regp = start(fp, {'arg1': 'r', 'arg2': 'phi', 'arg3': 'alpha'})
        xg, regg = start(fg, {'arg1': 'r', 'arg3': 'phi', 'arg5': 'PSI'})
        ok = xp is not None and xg is not None and xp[0] == 'S' and xg[0] == 'S'
        R.check(ok, 'start-evaluated' + tag, 'could not evaluate the start points (%s, %s)' % (xp and xp[0], xg and xg[0]), fp.loc())
        if not ok:
            return
        al = RatF(P_atom('alpha'))
        one = RatF(P_const(1))
        psi = one / (al * al + (one - al) * (one - al))
        sub = lambda a: psi if a == 'PSI' else None
        rp = to_ratf(xp[1], regp)
        rg = R_eval(to_ratf(xg[1], regg), sub)
        # identify square roots by their radicands (as rational functions)
        rads = []
        for a in sorted(R_atoms(rp, 'sqrt'), key=str):
            rads.append((a, to_ratf(regp[a], regp)))
        for a in sorted(R_atoms(rg, 'sqrt'), key=str):
            rads.append((a, R_eval(to_ratf(regg[a], regg), sub)))
        classes = []
        name = {}
        for a, rad in rads:
            for i_, (rep_rad) in enumerate(classes):
                if (rad - rep_rad).is_zero():
                    name[a] = 'SQ%d' % i_
                    break
            else:
                classes.append(rad)
                name[a] = 'SQ%d' % (len(classes) - 1)
        ren = lambda a: RatF(P_atom(name[a])) if a in name else None
        d = R_eval(rp, ren) - R_eval(rg, ren)
        R.check(d.is_zero(), 'start-agrees' + tag,
                '_newton_raphson_powcone starts at an x0 that differs from the generalised power cone\'s start specialised to (alpha, 1-alpha) '
                '(difference numerator %s): for alpha != 1/2 the start lies to the right of the root, the one-sided iteration stops at once and '
                'gradient_primal is not the conjugate gradient map (error 1e-4 .. 4e-2 measured)' % P_fmt(d.n)[:160], fp.loc())

    R.guard(body)


def newton_relative_stop(rep, F, tag):
    """The root of the scalar equation behind gradient_primal scales like 1/|s|: a step-size test against sqrt(eps) must be
    relative to the iterate, otherwise the iteration stops at once for large slacks (and returns the start point)."""
    R = rep.rule('C14.R9', 'the one-sided Newton iteration stops on a relative step |dx/x| (scale invariance of the conjugate gradient map)')

    def body():
        f = F.one(name='newton_raphson_onesided')
        atoms = set()
        for val, ret, ev, tr in Walker(f, cut_loops=True).leaves():
            atoms |= set(val)
        step = [a for a in atoms if 'sqrt(epsilon())' in a]
        ok = len(step) >= 1
        for a in step:
            # accepted forms: |dx / x| < tol, |dx| / |x| < tol, |dx| < tol * |x|
            rel = (re.match(r'lt\(abs\(div\(.*, (arg1|var:x)\)\), sqrt\(epsilon\(\)\)\)$', a) is not None
                   or re.match(r'lt\(div\(abs\(.*\), abs\((arg1|var:x)\)\), sqrt\(epsilon\(\)\)\)$', a) is not None
                   or re.match(r'lt\(abs\(.*\), mul\((sqrt\(epsilon\(\)\), abs\((arg1|var:x)\)|abs\((arg1|var:x)\), sqrt\(epsilon\(\)\))\)\)$', a) is not None)
            ok = ok and rel
        R.check(ok, 'relative-step' + tag,
                'newton_raphson_onesided compares %s with sqrt(eps): the step test must be relative to the iterate x (the root scales like the inverse '
                'of the slack, so an absolute test stops immediately for slacks of magnitude 1e6 and above)' % (step or 'no step size'), f.loc())

    R.guard(body)


DEGREE = {'ExponentialCone': ('c', 3), 'PowerCone': ('c', 3), 'SecondOrderCone': ('c', 1), 'ZeroCone': ('c', 0),
          'NonnegativeCone': ('s', 'self.dim'), 'PSDTriangleCone': ('s', 'self.n'), 'GenPowerCone': ('s', 'add(dim1(self), 1_usize)')}


def barrier_parameters(rep, F, tag, rid='C14.R10'):
    """degree() is the barrier parameter nu: it fixes mu = (<s,z> + tau kappa)/(nu + 1), so the unit start point is the central
    point with mu = 1 only for the right nu (3 for the 3-d cones - the constant of the Euler identities R4 -, dim1 + 1 for the
    generalised power cone, 1 / dim / n for the symmetric cones, 0 for the zero cone)."""
    R = rep.rule(rid, 'degree() of every cone type is its barrier parameter')

    def body():
        n = 0
        for f in F.find(name='degree', trait='Cone'):
            K = last_seg(strip_generics(f.impl_adt or f.impl_self or '?'))
            if K not in DEGREE:
                continue
            n += 1
            leaves = [l for l in Walker(f).leaves() if l[1][0] != 'diverge']
            got = [(l[1][0], l[1][1] if l[1][0] == 'c' else str(l[1][1]).replace('withoverflow', '').replace(').0', ')')) for l in leaves]
            R.check(got == [DEGREE[K]], 'degree|%s%s' % (K, tag), '%s::degree returns %s, expected %s' % (K, got, DEGREE[K]), f.loc())
        R.check(n >= 6, 'degree-count' + tag, 'only %d cone types analysed' % n)

    R.guard(body)


def _izip_operands(expr):
    """operands, in order, of izip!(A, B, C) = map(zip(zip(A, B), C), closure()) / zip(A, B)"""
    e = expr
    if e.startswith('map(') and e.endswith(', closure())'):
        e = split_args(e)[0]

    def flat(x):
        if x.startswith('zip('):
            a = split_args(x)
            if len(a) == 2:
                return flat(a[0]) + [a[1]]
        return [x]
    return flat(e)


def genpow_primal_gradient(rep, F, E, tag):
    """Per-element form of the Euler identity for the generalised power cone: with g_r = (g1/|r|) r the first block must satisfy
    g_i p_i + 1 + a_i + a_i g1 |r| = 0 (and g_i p_i + 1 + a_i = 0 when r = 0), so that <g, s> = -(dim1 + 1) because sum a_i = 1."""
    R = rep.rule('C14.R4', 'Euler identities of the 3-d barriers: <grad, z> = -3, H z = -grad (dual side); <gradient_primal(s), s> = -3')

    def body():
        f = F.one(name='gradient_primal', adt='GenPowerCone')
        pat = re.compile(r'^next\(into_iter\((.*)\)\)@Some\.0\.(\d)$')
        holder = {}

        def atoms(k, s_):
            m = pat.match(k)
            if m:
                ops = _izip_operands(m.group(1))
                i_ = int(m.group(2))
                if i_ < len(ops):
                    o = ops[i_]
                    if 'self.α' in o:
                        return ('S', P_atom('a'))
                    if o.startswith('split_at(arg3') and o.endswith('.0'):
                        return ('S', P_atom('p'))
                    if 'split_at_mut(arg2' in o:
                        return ('S', P_atom('gold'))
                return None
            if k.startswith('_newton_raphson_genpowcone('):
                return ('S', P_atom('g1'))
            if k.startswith('norm(split_at(arg3'):
                return ('S', P_atom('nr'))
            return None
        n = 0
        for val, ret, ev, tr in Walker(f, cut_loops=True).leaves():
            if ret[0] != 'cut':
                continue
            nrpos = [v for k, v in val.items() if k.startswith('lt(epsilon(), norm(')]
            I = LFSplit(F, E, f, atoms, {})
            st = {}
            tgt = None
            for e in ev:
                if e[0] == 'call':
                    if str(e[2]).startswith('norm(split_at(arg3'):
                        st[str(e[2])] = ('S', P_atom('nr'))
                        nm_ = f.local_name(e[4].dest['l']) if not e[4].dest['p'] else None
                        if nm_:
                            st['var:' + nm_] = ('S', P_atom('nr'))
                        continue
                    I.apply_call(st, e[4])
                elif e[0] == 'store':
                    m = pat.match(str(e[1]))
                    v = I.ev(st, f.sym_rvalue(e[4]['rv']))
                    if m and 'split_at_mut(arg2' in _izip_operands(m.group(1))[int(m.group(2))]:
                        tgt = v
                elif e[0] == 'assign' and isinstance(e[4], dict):
                    st['var:' + e[1]] = I.ev(st, f.sym_rvalue(e[4]['rv']))
            if tgt is None:
                continue
            n += 1
            ok = False
            if tgt[0] == 'S' and len(nrpos) == 1:
                one = RatF(P_const(1))
                a_, p_ = RatF(P_atom('a')), RatF(P_atom('p'))
                lhs = to_ratf(tgt[1], I.registry) * p_ + one + a_
                if nrpos[0]:
                    lhs = lhs + a_ * RatF(P_atom('g1')) * RatF(P_atom('nr'))
                ok = lhs.is_zero()
            R.check(ok, 'euler-primal|GenPowerCone|%s%s' % ('r>0' if (nrpos and nrpos[0]) else 'r=0', tag),
                    'GenPowerCone::gradient_primal (%s branch) stores g_i = %s: g_i p_i + 1 + a_i%s must vanish identically, otherwise <g, s> is not '
                    '-(dim1 + 1) and g is not the conjugate gradient' % ('|r| > eps' if (nrpos and nrpos[0]) else '|r| <= eps', P_fmt(tgt[1])[:120] if tgt[0] == 'S' else tgt[0], ' + a_i g1 |r|' if (nrpos and nrpos[0]) else ''), f.loc())
        R.check(n == 2, 'euler-primal|GenPowerCone|paths' + tag, '%d element loops of GenPowerCone::gradient_primal analysed, expected both branches' % n, f.loc())

    R.guard(body)


# ---------------------------------------------------------------------------
# symbolic differentiation: the stored gradient is the derivative of the barrier the solver evaluates, the stored
# Hessian is the Jacobian of that gradient
# ---------------------------------------------------------------------------
from engine.linform import P_inv


def _diff_atoms(prefix, holder):
    """coordinates prefix0..2, alpha, and log / powf calls as *semantic* atoms: identified by the polynomials of their arguments,
    which are recorded in holder['defs'] so that the atom can be differentiated"""
    def atoms(k, s_):
        m = _re.fullmatch(r'arg2\[(\d)_usize\]', k)
        if m:
            return ('S', P_atom('%s%s' % (prefix, m.group(1))))
        if k == 'self.α':
            return ('S', P_atom('alpha'))
        if s_[0] == 'call':
            nm = last_seg(s_[1].split('#')[0])
            if nm in ('logsafe', 'ln', 'powf'):
                I_ = holder['I']
                vals = [I_.ev({}, a_) for a_ in s_[2]]
                if all(v is not None and v[0] == 'S' for v in vals):
                    kind = 'pow' if nm == 'powf' else 'log'
                    atom = (kind,) + tuple(P_key(v[1]) for v in vals)
                    holder['defs'][atom] = (kind, [v[1] for v in vals])
                    return ('S', P_atom(atom))
                return None
        return None
    return atoms


class _NoDerivative(Exception):
    pass


def _P_scale(p, c):
    return {m: v * c for m, v in p.items() if v * c != 0}


def _inv(u, reg):
    r = P_inv(u)
    if len(u) != 1:
        reg[('recip', P_key(u))] = u
    return r


def P_diff(poly, var, defs, reg, depth=0, consts=False):
    """d poly / d var for a polynomial over coordinate atoms, recip atoms (reg), log / pow atoms (defs)"""
    if depth > 8:
        raise _NoDerivative('nesting too deep')

    def d_atom(a):
        if isinstance(a, str):
            if a == var:
                return P_const(1)
            if _re.fullmatch(r'[a-z]\d', a) or a == 'alpha' or consts:
                return {}
            raise _NoDerivative('opaque atom %r' % (a,))
        if a[0] == 'recip' and a in reg:
            du = P_diff(reg[a], var, defs, reg, depth + 1, consts)
            return _P_scale(P_mul(du, P_mul(P_atom(a), P_atom(a))), -1)
        if a in defs:
            kind, args = defs[a]
            if kind == 'log':
                du = P_diff(args[0], var, defs, reg, depth + 1, consts)
                return P_mul(du, _inv(args[0], reg)) if du else {}
            if kind == 'pow':
                if P_diff(args[1], var, defs, reg, depth + 1, consts):
                    raise _NoDerivative('exponent depends on the variable')
                db = P_diff(args[0], var, defs, reg, depth + 1, consts)
                return P_mul(P_mul(args[1], P_atom(a)), P_mul(db, _inv(args[0], reg))) if db else {}
        raise _NoDerivative('opaque atom %r' % (a,))
    total = {}
    for m, c in poly.items():
        for i, (a, e) in enumerate(m):
            da = d_atom(a)
            if not da:
                continue
            rest = {tuple(x for j, x in enumerate(m) if j != i): c * e}
            if e != 1:
                rest = P_mul(rest, P_atom(a, e - 1))
            total = P_add(total, P_mul(rest, da))
    return total


def barrier_derivatives(rep, F, E, tag):
    """The 3-d cones keep three separately written artefacts of one function: the dual barrier f*(z) the centrality line search evaluates,
    its gradient and its Hessian (update_dual_grad_H).  With log and powf as differentiable atoms these are exact rational-function
    identities: grad_i = d f*/d z_i and H_ij = d grad_i / d z_j.  (The Euler identities of R4 cannot see a swap of the two log weights
    of the power cone: both give <grad, z> = -3.)"""
    R = rep.rule('C14.R11', 'dual barrier, gradient and Hessian of the exponential and power cones are derivatives of one another (symbolic differentiation, exact)')

    def body():
        n = 0
        for K in ('ExponentialCone', 'PowerCone'):
            fb = F.one(name='barrier_dual', adt=K)
            fg = F.one(name='update_dual_grad_H', adt=K)
            reg, holder = {}, {'defs': {}}
            Ib = LFSplit(F, E, fb, _diff_atoms('z', holder), reg)
            holder['I'] = Ib
            lb = [(val, ret, st) for val, ret, st in Ib.run({}, local_stores=True) if ret[0] != 'diverge']
            if not R.check(len(lb) == 1, 'barrier-paths|%s%s' % (K, tag), '%s::barrier_dual has %d paths, expected straight-line code' % (K, len(lb)), fb.loc()):
                continue
            bval = Ib.ev(lb[0][2], fb.sym_local(0))
            if not R.check(bval is not None and bval[0] == 'S', 'barrier-shape|%s%s' % (K, tag), '%s::barrier_dual could not be evaluated symbolically (%s)' % (K, canon(fb.sym_local(0))[:120]), fb.loc()):
                continue
            Ig = LFSplit(F, E, fg, _diff_atoms('z', holder), reg)
            holder['I'] = Ig
            lg = Ig.run({})
            if not R.check(len(lg) == 1, 'grad-paths|%s%s' % (K, tag), '%s::update_dual_grad_H has %d paths' % (K, len(lg)), fg.loc()):
                continue
            st = lg[0][2]
            g = [st.get('self.grad[%d_usize]' % i) for i in range(3)]
            H = {}
            for k, v in st.items():
                m = _re.fullmatch(r'index_mut\(self\.H_dual, tuple\((\d)_usize, (\d)_usize\)\)', k)
                if m:
                    H[(int(m.group(1)), int(m.group(2)))] = v
            ok = all(x is not None and x[0] == 'S' for x in g) and len(H) == 6 and all(x is not None and x[0] == 'S' for x in H.values())
            if not R.check(ok, 'grad-shape|%s%s' % (K, tag), 'gradient / Hessian of %s not evaluated' % K, fg.loc()):
                continue
            try:
                for i in range(3):
                    d = P_diff(bval[1], 'z%d' % i, holder['defs'], reg)
                    diff = to_ratf(d, reg) + to_ratf(g[i][1], reg) * RatF(P_const(-1))
                    n += 1
                    R.check(diff.is_zero(), 'gradient-of-barrier|%s|%d%s' % (K, i, tag),
                            '%s: d barrier_dual / d z%d - grad[%d] = %s, not identically zero: the barrier the line search evaluates is not the function whose '
                            'gradient and Hessian drive the scaling' % (K, i, i, P_fmt(diff.n)[:200]), fb.loc())
                    for j in range(i, 3):
                        dj = P_diff(g[i][1], 'z%d' % j, holder['defs'], reg)
                        diff = to_ratf(dj, reg) + to_ratf(H[(i, j)][1], reg) * RatF(P_const(-1))
                        n += 1
                        R.check(diff.is_zero(), 'hessian-of-gradient|%s|%d%d%s' % (K, i, j, tag),
                                '%s: d grad[%d] / d z%d - H[(%d,%d)] = %s, not identically zero' % (K, i, j, i, j, P_fmt(diff.n)[:200]), fg.loc())
            except _NoDerivative as e:
                R.bad('differentiable|%s%s' % (K, tag), '%s: cannot differentiate (%s)' % (K, e), fb.loc())
        R.check(n >= 18, 'count' + tag, 'only %d derivative identities decided' % n)

    R.guard(body)


def _closure_atoms(holder, xnames, fold=False, consts=None):
    """atoms for the Newton closures: the iteration variable is 'x' (own parameter, or captured under one of xnames), the fold
    accumulator is 'acc', every other parameter / captured value a constant atom; log calls are differentiable atoms"""
    def atoms(k, s_):
        if fold:
            if k == 'arg2':
                return ('S', P_atom('acc'))
            if k in ('arg3', 'arg3.0'):
                return ('S', P_atom('c:elem'))      # the exponent alpha_i (f folds over (alpha_i, p_i), f' over alpha_i)
            if k == 'arg3.1':
                return ('S', P_atom('c:elem1'))
        elif k == 'arg2':
            return ('S', P_atom('x'))
        m = _re.fullmatch(r'arg1\.(?:_ref__)?(\w+)', k)
        if m:
            if consts and m.group(1) in consts:
                return ('S', P_const(consts[m.group(1)]))
            return ('S', P_atom('x' if m.group(1) in xnames else 'c:' + m.group(1)))
        if s_[0] == 'call':
            nm = last_seg(s_[1].split('#')[0])
            if nm in ('logsafe', 'ln'):
                I_ = holder['I']
                v = I_.ev({}, s_[2][0])
                if v is not None and v[0] == 'S':
                    atom = ('log', P_key(v[1]))
                    holder['defs'][atom] = ('log', [v[1]])
                    return ('S', P_atom(atom))
        return None
    return atoms


def newton_derivative(rep, F, E, tag):
    """The conjugate (primal) gradient of the power cones is obtained from the root of a scalar equation f(x) = 0 by a one-sided Newton
    iteration that is handed f and f' as two separately written closures.  f' must be the derivative of f: a wrong f' makes the
    iteration overshoot and the one-sided stopping rule halt away from the root.  Decided exactly (symbolic differentiation, log as a
    differentiable atom); for the generalised power cone term by term over the fold (initial value and summand)."""
    R = rep.rule('C14.R12', 'Newton iterations of the power and generalised power cone: the closure passed as derivative is d/dx of the closure passed as function (exact)')

    def body():
        n = 0

        def literal_captures(f_):
            # captured locals of the enclosing function that are numeric literals (e.g. `two`), by name
            out = {}
            for c_ in f_.calls:
                for a_ in c_.args:
                    s_ = f_.sym_operand(a_)
                    while s_[0] in ('ref', 'deref'):
                        s_ = s_[1]
                    if s_[0] == 'agg' and s_[1][0] == 'closure':
                        for nm_, op_ in zip(s_[1][2], s_[2]):
                            m_ = _re.fullmatch(r'(-?\d+(?:\.\d+)?)(f64|f32)?', canon(op_))
                            if m_:
                                out[nm_.replace('_ref__', '')] = Fraction(m_.group(1))
            return out
        lits = {}

        def ev_closure(g, fold, sym=None):
            reg, holder = {}, {'defs': {}}
            I = LFSplit(F, E, g, _closure_atoms(holder, ('x',), fold, lits), reg)
            holder['I'] = I
            v = I.ev({}, sym if sym is not None else g.sym_local(0))
            return v, reg, holder['defs']

        def same(d0, v1, reg, what, loc):
            diff = to_ratf(d0, reg) + to_ratf(v1, reg) * RatF(P_const(-1))
            R.check(diff.is_zero(), what + tag, '%s: d f/dx - f\' = %s, not identically zero' % (what, P_fmt(diff.n)[:200]), loc)

        f = F.one(name='_newton_raphson_powcone')
        lits.clear()
        lits.update(literal_captures(f))
        cl = F.closures_of.get(f.key, [])
        if R.check(len(cl) == 2, 'closures|PowerCone' + tag, '_newton_raphson_powcone has %d closures' % len(cl), f.loc()):
            (v0, reg0, d0), (v1, reg1, d1) = ev_closure(cl[0], False), ev_closure(cl[1], False)
            if R.check(v0 is not None and v1 is not None and v0[0] == 'S' and v1[0] == 'S', 'shape|PowerCone' + tag, 'f / f\' of the power cone not evaluated', f.loc()):
                reg = dict(reg0)
                reg.update(reg1)
                try:
                    same(P_diff(v0[1], 'x', d0, reg, consts=True), v1[1], reg, 'derivative|PowerCone', cl[1].loc())
                    n += 1
                except _NoDerivative as e:
                    R.bad('differentiable|PowerCone' + tag, 'cannot differentiate f (%s)' % e, cl[0].loc())
        f = F.one(name='_newton_raphson_genpowcone')
        lits.clear()
        lits.update(literal_captures(f))
        allc = [g for g in F.fns if g.key.startswith(f.key + '::{closure')]
        cl = sorted([g for g in allc if _re.fullmatch(r'\{closure#\d+\}', g.key[len(f.key) + 2:])], key=lambda g: g.key)
        inner_of = {c.key: [g for g in allc if g.key.startswith(c.key + '::')] for c in cl}
        if R.check(len(cl) == 2 and all(len(inner_of[c.key]) == 1 for c in cl), 'closures|GenPowerCone' + tag, '_newton_raphson_genpowcone closure structure changed (%s)' % sorted(g.key[len(f.key):] for g in allc), f.loc()):
            parts = []
            for c in cl:
                s0 = c.sym_local(0)
                while s0[0] in ('ref', 'deref'):
                    s0 = s0[1]
                ok = s0[0] == 'call' and last_seg(s0[1].split('#')[0]) == 'fold' and len(s0[2]) == 3
                if not R.check(ok, 'fold-shape|GenPowerCone' + tag, 'f / f\' is %s, expected a fold over the exponents' % canon(s0)[:80], c.loc()):
                    return
                init = ev_closure(c, False, s0[2][1])
                inner = inner_of[c.key][0]
                term = ev_closure(inner, True)
                parts.append((init, term, c, inner))
            (i0, t0, c0, in0), (i1, t1, c1, in1) = parts
            if R.check(all(x[0] is not None and x[0][0] == 'S' for x in (i0, t0, i1, t1)), 'shape|GenPowerCone' + tag, 'initial values / summands of the folds not evaluated', f.loc()):
                try:
                    reg = dict(i0[1])
                    reg.update(i1[1])
                    same(P_diff(i0[0][1], 'x', i0[2], reg, consts=True), i1[0][1], reg, 'derivative|GenPowerCone|init', c1.loc())
                    reg = dict(t0[1])
                    reg.update(t1[1])
                    # summand = body - accumulator
                    b1 = P_add(t1[0][1], P_atom('acc'), -1)
                    same(P_diff(t0[0][1], 'x', t0[2], reg, consts=True), b1, reg, 'derivative|GenPowerCone|summand', in1.loc())
                    n += 2
                except _NoDerivative as e:
                    R.bad('differentiable|GenPowerCone' + tag, 'cannot differentiate f (%s)' % e, c0.loc())
        R.check(n >= 3, 'count' + tag, 'only %d derivative identities decided' % n)

    R.guard(body)


# ---------------------------------------------------------------------------
# third-order correction: eta = 1/2 * D^3 f*(z)[u, v]  (state-tracking replay of higher_correction)
# ---------------------------------------------------------------------------
import copy as _copy


def _log_atom(defs, v):
    """differentiable atom for log(v); for a single-monomial argument log(1/m) = -log(m) is normalised to one representative"""
    sign = 1
    if len(v) == 1:
        inv = P_inv(v)
        if str(P_key(inv)) < str(P_key(v)):
            v, sign = inv, -1
    atom = ('log', P_key(v))
    defs[atom] = ('log', [v])
    return ('S', P_atom(atom) if sign == 1 else P_neg(P_atom(atom)))


class _Replay(LFSplit):
    """LFSplit over a copy of the function in which every named local stays symbolic (var:name); the replay keeps the value each
    local / array element / matrix entry has *at that point of the path* in `st`, keyed by canonical text.  3-vectors are ('V3', [p0, p1, p2])."""

    def __init__(self, F, E, g, atoms, reg):
        LFSplit.__init__(self, F, E, g, atoms, reg)
        self.alias = {}

    def norm(self, k):
        for _ in range(4):
            k2 = k
            for a, t in self.alias.items():
                k2 = _re.sub(_re.escape(a) + r'(?![\w])', t, k2)
            if k2 == k:
                break
            k = k2
        return k

    def vec(self, st, sym):
        s_ = sym
        while True:
            if s_[0] in ('ref', 'deref', 'cast'):
                s_ = s_[1]
            elif s_[0] == 'call' and last_seg(s_[1].split('#')[0]) in ('index', 'index_mut', 'deref', 'deref_mut', 'as_slice', 'as_mut_slice') and (len(s_[2]) == 1 or 'RangeFull' in canon(s_[2][1])):
                s_ = s_[2][0]
            elif s_[0] == 'index' and 'RangeFull' in canon(s_[2]):
                s_ = s_[1]
            else:
                break
        k = self.norm(canon(s_))
        v = st.get(k)
        return (k, v[1]) if v is not None and v[0] == 'V3' else (k, None)

    def ev(self, st, sym, depth=0):
        s_ = self._strip(sym)
        k = self.norm(canon(s_))
        if k in st and st[k][0] != 'V3':
            return st[k]
        m = _re.fullmatch(r'(.*)\[(\d)_usize\]', k)
        if m and m.group(1) in st and st[m.group(1)][0] == 'V3':
            return ('S', st[m.group(1)][1][int(m.group(2))])
        return LFSplit.ev(self, st, sym, depth)

    def call_value(self, st, s, depth):
        nm = last_seg(s[1].split('#')[0])
        args = s[2]
        if nm == 'dot' and len(args) == 2:
            (ka, a), (kb, b) = self.vec(st, args[0]), self.vec(st, args[1])
            if a is not None and b is not None:
                tot = {}
                for x, y in zip(a, b):
                    tot = P_add(tot, P_mul(x, y))
                return ('S', tot)
            return None
        if nm in ('index', 'index_mut') and len(args) == 2:
            kb, b = self.vec(st, args[0])
            i = canon(args[1])
            m = _re.fullmatch(r'(\d)_usize', i)
            if b is not None and m:
                return ('S', b[int(m.group(1))])
            m2 = _re.fullmatch(r'tuple\((\d)_usize, (\d)_usize\)', i)
            if m2:
                kk = '%s(%s,%s)' % (self.norm(canon(self._strip(args[0]))), m2.group(1), m2.group(2))
                return st.get(kk)
        return LFSplit.call_value(self, st, s, depth)


def third_order_correction(rep, F, E, tag):
    """"the third-order correction equals one half of the third derivative of the dual barrier contracted with the Newton-scaled slack
    direction and the dual direction": higher_correction is replayed along its successful path with the state of every local, of eta,
    of the scratch matrix and vectors tracked statement by statement (eta is read back while it is being built); u = H^-1 ds and v enter as
    free symbols.  eta is first shown to be a bilinear form in (u, v) (every monomial carries one u_j and one v_k); its 27 coefficients are then compared, as exact
    rational-function identities, with 1/2 d^3 f*/dz_i dz_j dz_k obtained by differentiating barrier_dual three times."""
    R = rep.rule('C14.R13', 'third-order correction of the exponential and power cone: eta = 1/2 D^3 f*(z)[u, v] exactly (state-tracking replay + symbolic differentiation)')

    def body():
        n = 0
        for K in ('ExponentialCone', 'PowerCone'):
            f0 = F.one(name='higher_correction', adt=K)
            fb = F.one(name='barrier_dual', adt=K)
            g = _copy.copy(f0)
            g._symcache = {}
            named = set()
            for l in list(f0.defs.keys()):
                try:
                    nm_ = f0.local_name(l)
                except Exception:
                    nm_ = None
                if nm_ and not f0.is_param(l):
                    named.add(l)
            g.partial = set(f0.partial) | named
            reg, holder = {}, {'defs': {}}

            def atoms(k, s_, holder=holder):
                m = _re.fullmatch(r'self\.z\[(\d)_usize\]', k)
                if m:
                    return ('S', P_atom('z' + m.group(1)))
                m = _re.fullmatch(r'arg4\[(\d)_usize\]', k)
                if m:
                    return ('S', P_atom('v' + m.group(1)))
                if k == 'self.α':
                    return ('S', P_atom('alpha'))
                if s_[0] == 'call':
                    nm = last_seg(s_[1].split('#')[0])
                    if nm in ('logsafe', 'ln', 'powf'):
                        I_ = holder['I']
                        vals = [I_.ev(holder['st'], a_) for a_ in s_[2]]
                        if all(v is not None and v[0] == 'S' for v in vals):
                            if nm != 'powf':
                                return _log_atom(holder['defs'], vals[0][1])
                            atom = ('pow',) + tuple(P_key(v[1]) for v in vals)
                            holder['defs'][atom] = ('pow', [v[1] for v in vals])
                            return ('S', P_atom(atom))
                return None
            I = _Replay(F, E, g, atoms, reg)
            holder['I'] = I
            leaf = None
            for val, ret, ev, tr in Walker(g, cut_loops=True, local_stores=True).leaves():
                if ret[0] == 's' and any('cholesky_3x3_explicit_factor' in k and v == 1 for k, v in val.items()):
                    leaf = (val, ret, ev, tr)
            if not R.check(leaf is not None, 'success-path|%s%s' % (K, tag), 'no successful path of %s::higher_correction found' % K, f0.loc()):
                continue
            st = {'arg4': ('V3', [P_atom('v%d' % i) for i in range(3)]), 'self.z': ('V3', [P_atom('z%d' % i) for i in range(3)]),
                  'arg2': ('V3', [P_atom('eta_in%d' % i) for i in range(3)])}
            holder['st'] = st
            problems = []

            def setvec(k, lst):
                st[k] = ('V3', lst)
            for e in leaf[2]:
                if e[0] == 'assign':
                    name = 'var:' + e[1]
                    src = e[4]
                    if isinstance(src, dict):          # statement
                        rv = src['rv']
                        if rv['k'] == 'ref':
                            I.alias[name] = I.norm(canon(I._strip(g.sym_place(rv['p']))))
                            continue
                        sym = g.sym_rvalue(rv)
                        if rv['k'] == 'agg' or canon(sym).startswith('['):
                            setvec(name, [{} for _ in range(3)])
                            continue
                        v = I.ev(st, sym)
                    else:                               # call destination
                        c = src
                        csym = ('call', c.callee.target_key or '<indirect>', tuple(g.sym_operand(a) for a in c.args), e[3])
                        if c.callee.name == 'zeros':
                            continue
                        v = I.ev(st, csym)
                    if v is not None and v[0] == 'S':
                        st[name] = v
                    elif e[1] not in ('H', 'z', 'issuccess', 'cholH'):
                        problems.append('local %s not evaluated' % e[1])
                elif e[0] == 'store':
                    pl = e[4]['p']
                    tk = I.norm(canon(I._strip(g.sym_place(pl))))
                    v = I.ev(st, g.sym_rvalue(e[4]['rv']))
                    m = _re.fullmatch(r'(.*)\[(\d)_usize\]', tk)
                    m2 = _re.fullmatch(r'index_mut\((.*), tuple\((\d)_usize, (\d)_usize\)\)', tk)
                    if v is None or v[0] != 'S':
                        problems.append('store to %s not evaluated' % tk[:40])
                    elif m and m.group(1) in st and st[m.group(1)][0] == 'V3':
                        st[m.group(1)][1][int(m.group(2))] = v[1]
                    elif m2:
                        st['%s(%s,%s)' % (m2.group(1), m2.group(2), m2.group(3))] = v
                    else:
                        problems.append('store to %s not modelled' % tk[:40])
                elif e[0] == 'call':
                    c = e[4]
                    nm = c.callee.name
                    a = [g.sym_operand(x) for x in c.args]
                    if nm == 'cholesky_3x3_explicit_solve':
                        k_, _ = I.vec(st, a[1])
                        setvec(k_, [P_atom('u%d' % i) for i in range(3)])
                    elif nm == 'mul' and 'DenseMatrixSym3' in (c.callee.key or ''):
                        mk = I.norm(canon(I._strip(a[0])))
                        ko, _ = I.vec(st, a[1])
                        kx, x = I.vec(st, a[2])
                        if x is None:
                            problems.append('mul operand %s unknown' % kx[:30])
                            continue
                        out = []
                        for i in range(3):
                            tot = {}
                            for j in range(3):
                                ent = st.get('%s(%d,%d)' % (mk, min(i, j), max(i, j)))
                                if ent is None:
                                    problems.append('matrix entry (%d,%d) of %s unset' % (min(i, j), max(i, j), mk[:20]))
                                    ent = ('S', {})
                                tot = P_add(tot, P_mul(ent[1], x[j]))
                            out.append(tot)
                        setvec(ko, out)
                    elif nm == 'scale' and (c.callee.trait or '').endswith('VectorMath'):
                        k_, x = I.vec(st, a[0])
                        cv = I.ev(st, a[1])
                        if x is None or cv is None:
                            problems.append('scale not evaluated')
                        else:
                            setvec(k_, [P_mul(p_, cv[1]) for p_ in x])
                    elif nm == 'axpby' and (c.callee.trait or '').endswith('VectorMath'):
                        k_, y = I.vec(st, a[0])
                        kx, x = I.vec(st, a[2])
                        av, bv = I.ev(st, a[1]), I.ev(st, a[3])
                        if None in (y, x, av, bv):
                            problems.append('axpby not evaluated')
                        else:
                            setvec(k_, [P_add(P_mul(av[1], xi), P_mul(bv[1], yi)) for xi, yi in zip(x, y)])
                    elif nm in ('add_assign', 'sub_assign', 'mul_assign'):
                        tk = I.norm(canon(I._strip(a[0])))
                        m = _re.fullmatch(r'(.*)\[(\d)_usize\]', tk)
                        v = I.ev(st, a[1])
                        if m and m.group(1) in st and st[m.group(1)][0] == 'V3' and v is not None:
                            cur = st[m.group(1)][1][int(m.group(2))]
                            st[m.group(1)][1][int(m.group(2))] = P_add(cur, v[1], 1 if nm == 'add_assign' else -1) if nm != 'mul_assign' else P_mul(cur, v[1])
                        elif tk in st and v is not None and st[tk][0] == 'S':
                            st[tk] = ('S', P_add(st[tk][1], v[1], 1 if nm == 'add_assign' else -1) if nm != 'mul_assign' else P_mul(st[tk][1], v[1]))
                        else:
                            problems.append('%s on %s not modelled' % (nm, tk[:30]))
            if not R.check(not problems, 'replay|%s%s' % (K, tag), '%s::higher_correction could not be replayed: %s' % (K, problems[:4]), f0.loc()):
                continue
            eta = st['arg2'][1]
            # the barrier, with the same atoms
            hb = {'defs': holder['defs']}

            def atoms_b(k, s_, hb=hb):
                m = _re.fullmatch(r'arg2\[(\d)_usize\]', k)
                if m:
                    return ('S', P_atom('z' + m.group(1)))
                if k == 'self.α':
                    return ('S', P_atom('alpha'))
                if s_[0] == 'call':
                    nm = last_seg(s_[1].split('#')[0])
                    if nm in ('logsafe', 'ln', 'powf'):
                        vals = [hb['I'].ev({}, a_) for a_ in s_[2]]
                        if all(v is not None and v[0] == 'S' for v in vals):
                            if nm != 'powf':
                                return _log_atom(hb['defs'], vals[0][1])
                            atom = ('pow',) + tuple(P_key(v[1]) for v in vals)
                            hb['defs'][atom] = ('pow', [v[1] for v in vals])
                            return ('S', P_atom(atom))
                return None
            Ib = LFSplit(F, E, fb, atoms_b, reg)
            hb['I'] = Ib
            lb = [x for x in Ib.run({}, local_stores=True) if x[1][0] != 'diverge']
            bval = Ib.ev(lb[0][2], fb.sym_local(0)) if len(lb) == 1 else None
            if not R.check(bval is not None and bval[0] == 'S', 'barrier|%s%s' % (K, tag), 'barrier_dual of %s not evaluated' % K, fb.loc()):
                continue
            try:
                defs = hb['defs']
                D1 = [P_diff(bval[1], 'z%d' % i, defs, reg) for i in range(3)]
                D2 = [[P_diff(D1[i], 'z%d' % j, defs, reg) for j in range(3)] for i in range(3)]
                UV = {'u0', 'u1', 'u2', 'v0', 'v1', 'v2'}
                # (a) eta is a bilinear form in (u, v): every monomial carries exactly one u_j and one v_k, and no registered
                #     reciprocal / root depends on u or v - so it is determined by its values on the nine basis pairs
                def uses_uv(p_):
                    return any(isinstance(a_, str) and a_ in UV for m_ in p_ for a_, e_ in m_)
                bil = all(not uses_uv(v_) for v_ in reg.values() if isinstance(v_, dict))
                for i in range(3):
                    for m_, c_ in eta[i].items():
                        du = sum(e_ for a_, e_ in m_ if isinstance(a_, str) and a_.startswith('u') and a_ in UV)
                        dv = sum(e_ for a_, e_ in m_ if isinstance(a_, str) and a_.startswith('v') and a_ in UV)
                        if du != 1 or dv != 1:
                            bil = False
                if not R.check(bil, 'bilinear|%s%s' % (K, tag), '%s::higher_correction: eta is not a bilinear form in (u, v)' % K, f0.loc()):
                    continue
                half = RatF(P_const(Fraction(1, 2)))
                for i in range(3):
                    for j in range(3):
                        for k_ in range(3):
                            coeff = {}
                            for m_, c_ in eta[i].items():
                                if ('u%d' % j, Fraction(1)) in m_ and ('v%d' % k_, Fraction(1)) in m_:
                                    m2 = tuple(x for x in m_ if not (isinstance(x[0], str) and x[0] in UV))
                                    coeff[m2] = coeff.get(m2, 0) + c_
                            a_, b_ = sorted((i, j))
                            d3 = P_diff(D2[a_][b_], 'z%d' % k_, defs, reg)
                            lhs = to_ratf(coeff, reg)
                            rhs = to_ratf(d3, reg) * half
                            diff = lhs + rhs * RatF(P_const(-1))
                            ok = diff.is_zero()
                            n += 1
                            if not ok:
                                flipped = (lhs + rhs).is_zero()
                                R.bad('tensor|%s|%d%d%d%s' % (K, i, j, k_, tag),
                                      '%s::higher_correction: the coefficient of u%d v%d in eta[%d] minus 1/2 d3f*/dz%d dz%d dz%d is not identically zero%s (numerator %s)' % (
                                          K, j, k_, i, i, j, k_, ': it equals -1/2 of the tensor entry, sign flipped' if flipped else '', P_fmt(diff.n)[:120]), f0.loc())
                            else:
                                R.ok('tensor|%s|%d%d%d%s' % (K, i, j, k_, tag))
            except _NoDerivative as ex:
                R.bad('differentiable|%s%s' % (K, tag), 'cannot differentiate barrier_dual of %s (%s)' % (K, ex), fb.loc())
        R.check(n >= 54, 'count' + tag, 'only %d tensor entries of the third-order correction decided' % n)

    R.guard(body)


# ---------------------------------------------------------------------------
# membership tests = cone definitions (power products / log expressions)
# ---------------------------------------------------------------------------

def _pp_canon(items):
    """canonical form of a power product prod base_i^expo_i: bases that are single monomials are normalised like log arguments"""
    out = {}
    for base, expo in items:
        if len(base) == 1:
            inv = P_inv(base)
            if str(P_key(inv)) < str(P_key(base)):
                base, expo = inv, P_neg(expo)
        k = P_key(base)
        out[k] = P_add(out.get(k, {}), expo)
    return {k: P_key(v) for k, v in out.items() if v}


def _pp_merge(poly, ppdefs):
    """products of power-product atoms inside one monomial are merged into a single power-product atom"""
    out = {}
    for mono, c in poly.items():
        items, rest = [], []
        for a, e in mono:
            if isinstance(a, tuple) and a[0] == 'pp' and a in ppdefs:
                items += [(b_, _P_scale(x_, e)) for b_, x_ in ppdefs[a]]
            else:
                rest.append((a, e))
        if items:
            atom = ('pp', tuple(sorted(_pp_canon(items).items(), key=str)))
            ppdefs[atom] = items
            rest.append((atom, Fraction(1)))
        m2 = tuple(sorted(rest, key=lambda z: str(z[0])))
        out[m2] = out.get(m2, 0) + c
    return {m_: c_ for m_, c_ in out.items() if c_ != 0}


def membership_definitions(rep, F, E, tag):
    """"the membership predicates agree with the cone and dual-cone definitions": the quantity whose sign decides membership is evaluated
    symbolically.  Power cone: exp(sum c_i log b_i) - x3^2 is the power product prod b_i^c_i - x3^2; for the dual cone it must be the
    product (z1/alpha)^(2 alpha) (z2/(1-alpha))^(2-2 alpha) that the dual barrier uses, for the primal cone s1^(2 alpha) s2^(2-2 alpha).
    Exponential cone: z2 - z1 - z1 log(-z3/z1) (dual) and s2 log(s3/s2) - s1 (primal)."""
    R = rep.rule('C14.R14', 'membership tests of the power and exponential cone evaluate the defining expressions of K and K* (same power product as the dual barrier)')

    def body():
        def evaluator(f, prefix):
            reg, holder = {}, {'defs': {}, 'pp': {}}

            def atoms(k, s_):
                m = _re.fullmatch(r'arg2\[(\d)_usize\]', k)
                if m:
                    return ('S', P_atom('%s%s' % (prefix, m.group(1))))
                if k == 'self.α':
                    return ('S', P_atom('alpha'))
                if s_[0] == 'call':
                    nm = last_seg(s_[1].split('#')[0])
                    I_ = holder['I']
                    if nm in ('logsafe', 'ln'):
                        v = I_.ev({}, s_[2][0])
                        if v is not None and v[0] == 'S':
                            return _log_atom(holder['defs'], v[1])
                    if nm == 'powf':
                        vals = [I_.ev({}, a_) for a_ in s_[2]]
                        if all(v is not None and v[0] == 'S' for v in vals):
                            atom = ('pp', tuple(sorted(_pp_canon([(vals[0][1], vals[1][1])]).items(), key=str)))
                            holder['pp'][atom] = [(vals[0][1], vals[1][1])]
                            return ('S', P_atom(atom))
                    if nm == 'exp':
                        v = I_.ev({}, s_[2][0])
                        if v is None or v[0] != 'S':
                            return None
                        items = []
                        for mono, c in v[1].items():
                            logs = [(a, e) for a, e in mono if isinstance(a, tuple) and a[0] == 'log']
                            if len(logs) != 1 or logs[0][1] != 1:
                                return None
                            rest = {tuple(x for x in mono if x != logs[0]): c}
                            items.append((holder['defs'][logs[0][0]][1][0], rest))
                        atom = ('pp', tuple(sorted(_pp_canon(items).items(), key=str)))
                        holder['pp'][atom] = items
                        return ('S', P_atom(atom))
                return None
            I = LFSplit(F, E, f, atoms, reg)
            holder['I'] = I
            return I, holder

        def decisive(f):
            # the comparison whose operand contains a transcendental call
            for c in f.calls:
                if c.callee.name in ('lt', 'gt', 'le', 'ge') and len(c.args) == 2:
                    for a in c.args:
                        t = canon(f.sym_operand(a))
                        if 'logsafe(' in t or 'exp(' in t or 'powf(' in t:
                            return f.sym_operand(a)
            return None
        n = 0
        al = P_atom('alpha')
        two_al = P_mul(P_const(2), al)
        two_m = P_add(P_const(2), two_al, -1)
        # power cone
        fb = F.one(name='barrier_dual', adt='PowerCone')
        Ib, hb = evaluator(fb, 'x')
        bpp = None
        for c in fb.calls:
            if c.callee.name == 'logsafe':
                t = fb.sym_operand(c.args[0])
                if 'powf(' in canon(t):
                    v = Ib.ev({}, t)
                    if v is not None and v[0] == 'S':
                        bpp = _pp_merge(v[1], hb['pp'])
        for nm, want_pp in (('is_dual_feasible', None), ('is_primal_feasible', [(P_atom('x0'), two_al), (P_atom('x1'), two_m)])):
            f = F.one(name=nm, adt='PowerCone')
            I, h = evaluator(f, 'x')
            sym = decisive(f)
            v = I.ev({}, sym) if sym is not None else None
            if not R.check(v is not None and v[0] == 'S', 'evaluated|PowerCone|%s%s' % (nm, tag), 'the deciding quantity of PowerCone::%s could not be evaluated' % nm, f.loc()):
                continue
            n += 1
            v = (v[0], _pp_merge(v[1], h['pp']))
            if want_pp is None:
                R.check(bpp is not None and v[1] == bpp, 'definition|PowerCone|%s%s' % (nm, tag),
                        'PowerCone::is_dual_feasible tests the sign of %s, but the dual barrier is the logarithm of %s: the membership test accepts a different set than the dual cone '
                        '{(z1/alpha)^(2 alpha) (z2/(1-alpha))^(2-2 alpha) > z3^2}' % (P_fmt(v[1])[:150], P_fmt(bpp)[:150] if bpp else None), f.loc())
            else:
                atom = ('pp', tuple(sorted(_pp_canon(want_pp).items(), key=str)))
                want = _pp_merge(P_add(P_atom(atom), P_mul(P_atom('x2'), P_atom('x2')), -1), {atom: want_pp})
                R.check(v[1] == want, 'definition|PowerCone|%s%s' % (nm, tag),
                        'PowerCone::is_primal_feasible tests the sign of %s, expected s1^(2 alpha) s2^(2-2 alpha) - s3^2' % P_fmt(v[1])[:150], f.loc())
        # exponential cone
        for nm, build in (('is_dual_feasible', lambda L: P_add(P_add(P_atom('x1'), P_atom('x0'), -1), P_mul(P_atom('x0'), L), -1)),
                          ('is_primal_feasible', lambda L: P_add(P_mul(P_atom('x1'), L), P_atom('x0'), -1))):
            f = F.one(name=nm, adt='ExponentialCone')
            I, h = evaluator(f, 'x')
            sym = decisive(f)
            v = I.ev({}, sym) if sym is not None else None
            if not R.check(v is not None and v[0] == 'S', 'evaluated|ExponentialCone|%s%s' % (nm, tag), 'the deciding quantity of ExponentialCone::%s could not be evaluated' % nm, f.loc()):
                continue
            n += 1
            arg = P_mul(P_neg(P_atom('x2')), P_inv(P_atom('x0'))) if nm == 'is_dual_feasible' else P_mul(P_atom('x2'), P_inv(P_atom('x1')))
            L = _log_atom({}, arg)[1]
            want = build(L)
            R.check(v[1] == want, 'definition|ExponentialCone|%s%s' % (nm, tag),
                    'ExponentialCone::%s tests the sign of %s, expected %s' % (nm, P_fmt(v[1])[:150], 'z2 - z1 - z1 log(-z3/z1)' if nm == 'is_dual_feasible' else 's2 log(s3/s2) - s1'), f.loc())
        R.check(n >= 4, 'count' + tag, 'only %d membership tests decided' % n)

    R.guard(body)


# ---------------------------------------------------------------------------
# primal-dual scaling: secant equations  Hs z = s,  Hs (z + mu zt) = s + mu st
# ---------------------------------------------------------------------------

def _txt_split(t):
    i = t.find('(')
    if i <= 0 or not t.endswith(')'):
        return None
    return t[:i], split_args(t)


def _txt_eval(t, scal, vecs):
    """canonical text -> RatF over atoms; scal: 'var:name' -> RatF, vecs: base text -> [RatF]*3"""
    t = t.strip()
    if t in scal:
        return scal[t]
    m = _re.fullmatch(r'(.+)\[(\d)_usize\]', t)
    if m and m.group(1) in vecs:
        return vecs[m.group(1)][int(m.group(2))]
    m = _re.fullmatch(r'(-?\d+(?:\.\d+)?)(f64|f32)?', t)
    if m:
        return RatF(P_const(Fraction(m.group(1))))
    if t == 'one()':
        return RatF(P_const(1))
    if t == 'zero()':
        return RatF({})
    sp = _txt_split(t)
    if sp is None:
        raise _NoDerivative('cannot evaluate %s' % t[:60])
    nm, args = sp
    nm = last_seg(nm)
    if nm == 'dot' and len(args) == 2:
        a, b = [_re.sub(r'^index(_mut)?\((.*), RangeFull::RangeFull\)$', r'\2', x) for x in args]
        if a in vecs and b in vecs:
            tot = RatF({})
            for x, y in zip(vecs[a], vecs[b]):
                tot = tot + x * y
            return tot
        raise _NoDerivative('dot of unknown vectors %s, %s' % (a[:30], b[:30]))
    vals = [_txt_eval(a, scal, vecs) for a in args]
    if nm == 'add':
        return vals[0] + vals[1]
    if nm == 'sub':
        return vals[0] + vals[1] * RatF(P_const(-1))
    if nm == 'mul':
        return vals[0] * vals[1]
    if nm == 'div':
        return vals[0] * vals[1].pow(-1)
    if nm == 'neg':
        return vals[0] * RatF(P_const(-1))
    if nm in ('as_T', 'clone'):
        return vals[0]
    raise _NoDerivative('cannot evaluate %s' % t[:60])


def primal_dual_secant(rep, F, E, tag):
    """"the primal-dual scaling matrix ... maps z to s and the shadow dual point to the shadow slack": the statements of
    use_primal_dual_scaling are read with every named local kept symbolic, which yields the templates delta_s[i] = s[i] + mu st[i],
    delta_z[i] = z[i] + mu zt[i], axis = z x zt (then normalised) and Hs[(i,j)] = s_i s_j / <s,z> + ds_i ds_j / <ds,dz> + t a_i a_j.  Instantiated over
    free symbols, (a) the stored entries are exactly that sum of three dyads, so Hs x = s <s,x>/<s,z> + ds <ds,x>/<ds,dz> + t a <a,x>; (b) with the two Euler
    identities <st, z> = -3 and <s, zt> = -3 (decided by R4) the six scalars <s,z>/dot_sz - 1, <ds,z>, <a,z>, <s,dz>, <ds,dz>/dot_dsz - 1, <a,dz> vanish
    identically - hence Hs z = s and Hs dz = ds, and with mu != 0 Hs zt = st.  (Positive definiteness - t > 0 and the guards being sufficient - is not decided.)"""
    R = rep.rule('C14.R15', 'primal-dual scaling satisfies the secant equations Hs z = s and Hs (z + mu zt) = s + mu st identically, given the Euler identities')

    def body():
        fs = F.find(name='use_primal_dual_scaling')
        fs = [x for x in fs if x.blocks and len(x.blocks) > 5]
        if len(fs) != 1:
            raise AnchorError('use_primal_dual_scaling matched %d functions' % len(fs))
        f0 = fs[0]
        g = _copy.copy(f0)
        g._symcache = {}
        named = set()
        for l in list(f0.defs.keys()):
            try:
                nm_ = f0.local_name(l)
            except Exception:
                nm_ = None
            if nm_ and not f0.is_param(l):
                named.add(l)
        g.partial = set(f0.partial) | named
        stores, assigns = {}, {}
        for val, ret, ev, tr in Walker(g, cut_loops=True, local_stores=True).leaves(limit=400000):
            for e in ev:
                if e[0] == 'store':
                    stores.setdefault(str(e[1]), set()).add(str(e[2]))
                elif e[0] == 'assign' and e[1]:
                    v = None
                    if isinstance(e[4], dict):
                        v = canon(g.sym_rvalue(e[4]['rv']))
                    elif e[2] is not None:
                        v = str(e[2])
                    if v is not None:
                        assigns.setdefault(e[1], set()).add(v)
        one = lambda d, k: (list(d[k])[0] if k in d and len(d[k]) == 1 else None)
        # delta_s[i] = s[i] + mu st[i], delta_z[i] = z[i] + mu zt[i]: compared as polynomials over free symbols (any arrangement of the sum / product)
        for k, base, tv in (('var:δs[var:i]', 'arg2', 'var:st'), ('var:δz[var:i]', 'arg3', 'var:zt')):
            tm = one(stores, k)
            ok = False
            if tm is not None:
                try:
                    A_ = lambda n_: RatF(P_atom(n_))
                    got = _txt_eval(tm.replace('var:i', '0_usize'), {'var:μ': A_('mu')}, {base: [A_('b0')] * 3, tv: [A_('t0')] * 3})
                    ok = (got + (A_('b0') + A_('mu') * A_('t0')) * RatF(P_const(-1))).is_zero()
                except _NoDerivative:
                    ok = False
            R.check(ok, 'template|%s%s' % (k[4:6], tag), 'use_primal_dual_scaling defines %s as %s, expected %s[i] + mu * %s[i]' % (k, stores.get(k), base, tv), f0.loc())
        mu = assigns.get('μ', set())
        dsz = assigns.get('dot_sz', set())
        ddz = assigns.get('dot_δsz', set())
        R.check(dsz == {'dot(arg2, arg3)'} or dsz == {'dot(arg3, arg2)'}, 'dot_sz' + tag, 'dot_sz is %s' % dsz, f0.loc())
        R.check(len(mu) == 1 and list(mu)[0].replace(' ', '') in ('div(var:dot_sz,var:three)',), 'mu' + tag, 'mu is %s, expected <s,z>/3' % mu, f0.loc())
        R.check(len(ddz) == 1 and _re.fullmatch(r'dot\(index(_mut)?\(var:δ[sz], RangeFull::RangeFull\), index(_mut)?\(var:δ[sz], RangeFull::RangeFull\)\)', list(ddz)[0]) is not None and 'δs' in list(ddz)[0] and 'δz' in list(ddz)[0],
                'dot_dsz' + tag, 'dot_δsz is %s, expected <δs, δz>' % ddz, f0.loc())
        zt = assigns.get('zt', set())
        R.check(zt == {'gradient_primal(self, arg2)'}, 'zt' + tag, 'zt is %s, expected gradient_primal(s)' % zt, f0.loc())
        hs = [v for k, vs in stores.items() if k == 'index_mut(var:Hs, tuple(var:i, var:j))' for v in vs]
        if not R.check(len(hs) == 1, 'hs-template' + tag, 'final store into Hs[(i,j)]: %s' % hs, f0.loc()):
            return
        ax = [one(stores, 'var:axis_z[%d_usize]' % i) for i in range(3)]
        if not R.check(all(x is not None for x in ax), 'axis-template' + tag, 'axis_z components: %s' % ax, f0.loc()):
            return
        norm_calls = [c for c in f0.calls if c.callee.name == 'normalize']
        R.check(len(norm_calls) == 1, 'axis-normalised' + tag, '%d normalize() calls' % len(norm_calls), f0.loc())
        try:
            A = lambda n_: RatF(P_atom(n_))
            S = [A('s%d' % i) for i in range(3)]
            Z = [A('z%d' % i) for i in range(3)]
            ST = [A('st0'), A('st1'), None]
            ZT = [A('zt0'), A('zt1'), None]
            m3 = RatF(P_const(-3))
            neg1 = RatF(P_const(-1))
            # Euler identities (R4): <st, z> = -3 and <s, zt> = -3
            ST[2] = (m3 + (ST[0] * Z[0] + ST[1] * Z[1]) * neg1) * Z[2].pow(-1)
            ZT[2] = (m3 + (S[0] * ZT[0] + S[1] * ZT[1]) * neg1) * S[2].pow(-1)
            vecs = {'arg2': S, 'arg3': Z, 'var:st': ST, 'var:zt': ZT}
            scal = {'var:three': RatF(P_const(3)), 'var:t': A('t')}
            scal['var:dot_sz'] = _txt_eval(list(dsz)[0], scal, vecs)
            scal['var:μ'] = _txt_eval(list(mu)[0], scal, vecs)
            for nm_, key in (('var:δs', 'var:δs[var:i]'), ('var:δz', 'var:δz[var:i]')):
                tmpl = one(stores, key)
                vecs[nm_] = [_txt_eval(tmpl.replace('var:i', '%d_usize' % i), scal, vecs) for i in range(3)]
            scal['var:dot_δsz'] = _txt_eval(_re.sub(r'index(_mut)?\((var:δ[sz]), RangeFull::RangeFull\)', r'\2', list(ddz)[0]), scal, vecs)
            ninv = A('ninv')
            vecs['var:axis_z'] = [_txt_eval(ax[i], scal, vecs) * ninv for i in range(3)]
            # (a) the stored matrix is the sum of three dyads  s s'/<s,z> + ds ds'/<ds,dz> + t a a'  (template, free symbols)
            fv = {'arg2': [A('S%d' % i) for i in range(3)], 'var:δs': [A('D%d' % i) for i in range(3)], 'var:axis_z': [A('X%d' % i) for i in range(3)]}
            fs_ = {'var:dot_sz': A('dsz'), 'var:dot_δsz': A('ddz'), 'var:t': A('t')}
            n = 0
            for i in range(3):
                for j in range(i, 3):
                    got = _txt_eval(hs[0].replace('var:i', '%d_usize' % i).replace('var:j', '%d_usize' % j), fs_, fv)
                    want = fv['arg2'][i] * fv['arg2'][j] * A('dsz').pow(-1) + fv['var:δs'][i] * fv['var:δs'][j] * A('ddz').pow(-1) + A('t') * fv['var:axis_z'][i] * fv['var:axis_z'][j]
                    n += 1
                    R.check((got + want * neg1).is_zero(), 'three-dyads|%d%d%s' % (i, j, tag), 'Hs[(%d,%d)] is not s_i s_j/<s,z> + ds_i ds_j/<ds,dz> + t a_i a_j' % (i, j), f0.loc())
            # (b) the scalar identities that make  Hs z = s  and  Hs dz = ds  (with (a): Hs x = s <s,x>/<s,z> + ds <ds,x>/<ds,dz> + t a <a,x>)
            def dotv(x, y):
                tot = RatF({})
                for p_, q_ in zip(x, y):
                    tot = tot + p_ * q_
                return tot
            DS, DZ, AX = vecs['var:δs'], vecs['var:δz'], vecs['var:axis_z']
            one_ = RatF(P_const(1))
            checks = [('<s,z>/dot_sz = 1', dotv(S, Z) * scal['var:dot_sz'].pow(-1) + one_ * neg1),
                      ('<ds,z> = 0', dotv(DS, Z)), ('<a,z> = 0', dotv(AX, Z)),
                      ('<s,dz> = 0', dotv(S, DZ)), ('<ds,dz>/dot_dsz = 1', dotv(DS, DZ) * scal['var:dot_δsz'].pow(-1) + one_ * neg1),
                      ('<a,dz> = 0', dotv(AX, DZ))]
            for nm_, r in checks:
                n += 1
                R.check(r.is_zero(), 'secant|%s%s' % (nm_.replace(' ', ''), tag),
                        'the identity %s does not hold for the quantities use_primal_dual_scaling computes (numerator %s): Hs does not map z to s / the shadow point to the shadow slack' % (nm_, P_fmt(r.n)[:120]), f0.loc())
            R.check(n == 12, 'count' + tag, '%d identities decided' % n)
        except _NoDerivative as ex:
            R.bad('evaluable' + tag, 'templates of use_primal_dual_scaling could not be evaluated (%s)' % ex, f0.loc())

    R.guard(body)


def _num_text(t, env, depth=0):
    """numeric value of a canonical text built from literals, one()/zero(), self.α, +-*/, sqrt and references resolved through env"""
    import math
    t = t.strip()
    if t in env:
        v = env[t]
        return _num_text(v, env, depth + 1) if isinstance(v, str) else v
    m = _re.fullmatch(r'(-?\d+(?:\.\d+)?(?:e-?\d+)?)(f64|f32)?', t)
    if m:
        return float(m.group(1))
    if t == 'one()':
        return 1.0
    if t == 'zero()':
        return 0.0
    sp = _txt_split(t)
    if sp is None or depth > 30:
        raise _NoDerivative('cannot evaluate %s' % t[:60])
    nm, args = sp
    nm = last_seg(nm)
    vals = [_num_text(a, env, depth + 1) for a in args]
    if nm == 'add':
        return vals[0] + vals[1]
    if nm == 'sub':
        return vals[0] - vals[1]
    if nm == 'mul':
        return vals[0] * vals[1]
    if nm == 'div':
        return vals[0] / vals[1]
    if nm == 'neg':
        return -vals[0]
    if nm == 'sqrt':
        return math.sqrt(vals[0])
    if nm in ('as_T', 'clone'):
        return vals[0]
    if nm in ('logsafe', 'ln'):
        if vals[0] <= 0:
            raise _NoDerivative('log of a non-positive number')
        return math.log(vals[0])
    if nm == 'exp':
        return math.exp(vals[0])
    if nm == '_wright_omega':
        # omega + log(omega) = x, solved by Newton's iteration (the function itself is not executed)
        x, w = vals[0], 1.0
        for _ in range(200):
            w = w - (w + math.log(w) - x) / (1.0 + 1.0 / w)
            if w <= 0:
                w = 1e-12
        return w
    raise _NoDerivative('cannot evaluate %s' % t[:60])


def _num_poly(poly, env, defs, reg, depth=0):
    """numeric value of a polynomial over coordinate atoms (env), recip atoms (reg) and log / pow atoms (defs)"""
    import math
    if depth > 12:
        raise _NoDerivative('nesting too deep')

    def atom(a):
        if isinstance(a, str):
            if a in env:
                return env[a]
            raise _NoDerivative('no value for atom %r' % (a,))
        if a[0] == 'recip' and a in reg:
            return 1.0 / _num_poly(reg[a], env, defs, reg, depth + 1)
        if a in defs:
            kind, args = defs[a]
            if kind == 'log':
                return math.log(_num_poly(args[0], env, defs, reg, depth + 1))
            if kind == 'pow':
                return _num_poly(args[0], env, defs, reg, depth + 1) ** _num_poly(args[1], env, defs, reg, depth + 1)
        raise _NoDerivative('no value for atom %r' % (a,))
    tot = 0.0
    for m, c in poly.items():
        v = float(c)
        for a, e in m:
            v *= atom(a) ** e
        tot += v
    return tot


def central_start(rep, F, E, tag):
    """"the unit starting point is the central point with mu = 1": the constants written by unit_initialization of the exponential and power cone must
    satisfy s = -grad f*(z) for the gradient that R11 ties to the dual barrier.  The constants (decimal literals for the exponential cone, square roots
    of 1 + alpha and 2 - alpha for the power cone) are evaluated from the source text - at three generic exponents for the power cone - and inserted into
    the gradient polynomial; no code of the repository runs."""
    R = rep.rule('C14.R16', 'unit_initialization of the exponential and power cone writes the central point: s = -grad f*(z), hence <s,z> = 3')

    def body():
        n = 0
        for K in ('ExponentialCone', 'PowerCone'):
            fg = F.one(name='update_dual_grad_H', adt=K)
            reg, holder = {}, {'defs': {}}
            Ig = LFSplit(F, E, fg, _diff_atoms('z', holder), reg)
            holder['I'] = Ig
            lg = Ig.run({})
            if len(lg) != 1:
                raise AnchorError('%s::update_dual_grad_H has %d paths' % (K, len(lg)))
            st = lg[0][2]
            g = [st.get('self.grad[%d_usize]' % i) for i in range(3)]
            if not all(x is not None and x[0] == 'S' for x in g):
                raise AnchorError('gradient of %s not evaluated' % K)
            fu = F.one(name='unit_initialization', adt=K)
            lv = [l for l in Walker(fu, local_stores=True).leaves() if l[1][0] != 'diverge']
            if not R.check(len(lv) == 1, 'straight-line|%s%s' % (K, tag), '%s::unit_initialization has %d paths' % (K, len(lv)), fu.loc()):
                continue
            for alpha in ((0.1, 0.35, 0.8) if K == 'PowerCone' else (None,)):
                env = {}
                if alpha is not None:
                    env['self.α'] = alpha
                    env['var:α'] = alpha
                # the values are read in store order: a component copied from the other vector takes the value that vector has then
                try:
                    for e in lv[0][2]:
                        if e[0] == 'store' and _re.fullmatch(r'arg[23]\[\d_usize\]', str(e[1])):
                            env[str(e[1])] = _num_text(str(e[2]), env)
                    z = [env['arg2[%d_usize]' % i] for i in range(3)]
                    s_ = [env['arg3[%d_usize]' % i] for i in range(3)]
                    pt = {'z0': z[0], 'z1': z[1], 'z2': z[2], 'alpha': alpha}
                    gv = [_num_poly(g[i][1], pt, holder['defs'], reg) for i in range(3)]
                except (_NoDerivative, KeyError, ValueError, ZeroDivisionError) as ex:
                    R.bad('evaluable|%s%s' % (K, tag), '%s::unit_initialization: constants could not be evaluated (%r)' % (K, ex), fu.loc())
                    break
                for i in range(3):
                    n += 1
                    R.check(abs(s_[i] + gv[i]) <= 1e-6 * max(1.0, abs(s_[i])), 'central|%s|%d%s%s' % (K, i, '' if alpha is None else '|alpha=%s' % alpha, tag),
                            '%s::unit_initialization: s[%d] = %.12g but -grad f*(z)[%d] = %.12g at the initial z%s: the start is not the central point '
                            '(mu = 1) of the barrier pair' % (K, i, s_[i], i, -gv[i], '' if alpha is None else ' for alpha = %s' % alpha), fu.loc())
        R.check(n >= 12, 'count' + tag, 'only %d central-point components checked' % n)

    R.guard(body)


def cholesky_scale_free(rep, F, tag):
    """higher_correction solves H u = ds with an explicit 3x3 Cholesky factorisation and returns eta = 0 when the factorisation reports failure.
    H*(z) scales like 1/|z|^2, so the failure test must be scale-free: a pivot is rejected iff it is <= 0 exactly.  An absolute threshold (epsilon) zeroes
    the correction for every dual point of large magnitude although H is positive definite."""
    R = rep.rule('C14.R17', '3x3 Cholesky used by the third-order correction: a pivot is rejected iff it is <= 0 exactly (no absolute tolerance); success only after all three pivots passed')

    def body():
        f = F.one(name='cholesky_3x3_explicit_factor')
        n_true = 0
        for val, ret, ev, tr in Walker(f, local_stores=True).leaves():
            if ret[0] == 'diverge':
                continue
            tests = []
            for k, v in val.items():
                m = _re.fullmatch(r'(le|lt|ge|gt)\((.*)\)', k)
                if not m:
                    continue
                a = split_args(k)
                op = m.group(1)
                # orientation: pivot OP zero
                if a[1] == 'zero()':
                    piv, rej = a[0], (v == 1) if op in ('le', 'lt') else (v == 0)
                    strict_ok = op in ('le', 'gt')
                elif a[0] == 'zero()':
                    piv, rej = a[1], (v == 1) if op in ('ge', 'gt') else (v == 0)
                    strict_ok = op in ('ge', 'lt')
                else:
                    R.bad('threshold|%d%s' % (len(tests), tag), 'cholesky_3x3_explicit_factor compares a pivot with %s: the test must be against zero exactly '
                          '(H* scales like 1/|z|^2; an absolute threshold rejects positive definite matrices of small magnitude)' % (a[1] if 'index(arg2' in a[0] or 'sub(' in a[0] else a[0])[:60], f.loc())
                    continue
                R.check(strict_ok, 'zero-rejected|%d%s' % (len(tests), tag), 'a zero pivot is accepted (%s): its square root is then divided by' % k[:60], f.loc())
                tests.append(rej)
            if ret[0] == 'c' and ret[1] == 1:
                n_true += 1
                R.check(len(tests) == 3 and not any(tests), 'success-after-three' + tag, 'the factorisation reports success after %d accepted pivots' % len([t for t in tests if not t]), f.loc())
            elif ret[0] == 'c' and ret[1] == 0:
                R.check(bool(tests) and tests[-1] and not any(tests[:-1]), 'failure-iff-rejected' + tag, 'the factorisation reports failure on the path %s' % {k[:40]: v for k, v in val.items()}, f.loc())
            else:
                R.bad('returns' + tag, 'unexpected return %s' % (ret,), f.loc())
        R.check(n_true == 1, 'paths' + tag, '%d success paths' % n_true, f.loc())
        # and the correction is zeroed only on that failure
        for K in ('ExponentialCone', 'PowerCone'):
            h = F.one(name='higher_correction', adt=K)
            for val, ret, ev, tr in Walker(h, cut_loops=True).leaves():
                if ret[0] == 'diverge':
                    continue
                ok_ = [v for k, v in val.items() if k.startswith('cholesky_3x3_explicit_factor(')]
                zeroed = ret[0] in ('s', 'c') and not any(e[0] == 'call' and e[1] == 'cholesky_3x3_explicit_solve' for e in ev)
                R.check(bool(ok_) and zeroed == (ok_[0] == 0), 'zero-iff-failed|%s%s' % (K, tag),
                        '%s::higher_correction %s the solve although the factorisation %s' % (K, 'skips' if zeroed else 'runs', 'succeeded' if ok_ and ok_[0] else 'failed / was not tested'), h.loc())

    R.guard(body)


def genpow_membership(rep, F, tag, rid='C14.R18'):
    """Generalised power cone, membership tests of the line search: s in K iff s_i > 0 and prod s_i^(2 a_i) > |w|^2; z in K* iff z_i > 0 and
    prod (z_i / a_i)^(2 a_i) > |w|^2.  The summand of the log-sum is compared, as a polynomial over a log atom, with 2 a log(s) resp. 2 a log(z / a): the
    normalisation by a_i belongs to the dual test only."""
    R = rep.rule(rid, 'generalised power cone membership: log-sum summand 2 a_i log(s_i) (primal) and 2 a_i log(z_i / a_i) (dual); compared with the squared norm of the tail')

    def body():
        from engine.linform import RatF, P_atom, P_const
        for nm, arg_want in (('is_primal_feasible', 'arg3.1'), ('is_dual_feasible', 'div(arg3.1, arg3.0)')):
            f = F.one(name=nm, adt='GenPowerCone')
            cls = [canon(g.sym_local(0)) for g in F.closures_of.get(f.key, [])]
            summ = [c for c in cls if 'logsafe(' in c or 'ln(' in c]
            if not R.check(len(summ) == 1, 'summand|%s%s' % (nm, tag), '%s has %d log-sum closures' % (nm, len(summ)), f.loc()):
                continue
            t = summ[0]
            logs = _re.findall(r'(?:logsafe|ln)\(((?:[^()]|\([^()]*\))*)\)', t)
            ok_arg = len(logs) == 1 and logs[0] == arg_want
            # replace the log call by an atom and compare the rest as a polynomial: acc + 2 a L
            ok_poly = False
            if len(logs) == 1:
                tt = _re.sub(r'(?:logsafe|ln)\((?:[^()]|\([^()]*\))*\)', 'LOGATOM', t)
                try:
                    A = lambda n_: RatF(P_atom(n_))
                    got = _txt_eval(tt, {'arg2': A('acc'), 'arg3.0': A('a'), 'LOGATOM': A('L'), 'arg1._ref__two': RatF(P_const(2)), 'arg1.two': RatF(P_const(2))}, {})
                    ok_poly = (got + (A('acc') + RatF(P_const(2)) * A('a') * A('L')) * RatF(P_const(-1))).is_zero()
                except _NoDerivative:
                    ok_poly = False
            R.check(ok_arg and ok_poly, 'definition|%s%s' % (nm, tag),
                    'GenPowerCone::%s sums %s: expected acc + 2 a_i log(%s) - %s' % (nm, t[:120], 's_i' if nm == 'is_primal_feasible' else 'z_i / a_i',
                                                                                     'the division by a_i belongs to the dual cone only' if nm == 'is_primal_feasible' else 'the dual cone is normalised by a_i'), f.loc())
            keys = set()
            for val, ret, ev, tr in Walker(f, cut_loops=True).leaves():
                keys |= {k.replace('withoverflow', '') for k in val if k.startswith('lt(zero(), sub(exp(')}
            R.check(len(keys) == 1 and 'sumsq(index(arg2, RangeFrom::RangeFrom(dim1(self))))' in list(keys)[0], 'tail|%s%s' % (nm, tag), '%s compares with %s' % (nm, [k[-80:] for k in keys]), f.loc())

    R.guard(body)


def exp_primal_barrier_conjugate(rep, F, E, tag):
    """"the barrier oracles are one conjugate pair": the exponential cone's primal barrier, evaluated by the dual-scaling line search, must be the Fenchel conjugate
    of the dual barrier, f(s) = -3 - f*(-g(s)) with g = gradient_primal, and -g(s) must be the dual point whose gradient is -s.  The three source expressions
    (with the Wright omega function solved numerically) are evaluated at four interior points; a swapped log weight changes f by log(s2/s3)."""
    R = rep.rule('C14.R19', 'exponential cone: barrier_primal(s) = -3 - barrier_dual(-gradient_primal(s)) and grad f*(-gradient_primal(s)) = -s at sample interior points')

    def body():
        K = 'ExponentialCone'
        fb, fg, fd = F.one(name='barrier_primal', adt=K), F.one(name='gradient_primal', adt=K), F.one(name='barrier_dual', adt=K)
        lb = [l for l in Walker(fb, local_stores=True).leaves() if l[1][0] != 'diverge']
        lg = [l for l in Walker(fg, local_stores=True).leaves() if l[1][0] != 'diverge']
        ld = [l for l in Walker(fd, local_stores=True).leaves() if l[1][0] != 'diverge']
        if not R.check(len(lb) == 1 and len(lg) == 1 and len(ld) == 1 and lb[0][1][0] == 's' and ld[0][1][0] == 's', 'straight-line' + tag,
                       'barrier_primal / gradient_primal / barrier_dual are not straight-line code', fb.loc()):
            return
        tb, td = str(lb[0][1][1]), str(ld[0][1][1])
        gst = [(str(e[1]), str(e[2])) for e in lg[0][2] if e[0] == 'store' and _re.fullmatch(r'var:\w+\[\d_usize\]', str(e[1]))]
        # gradient polynomial of the dual barrier (R11 ties it to barrier_dual)
        fgr = F.one(name='update_dual_grad_H', adt=K)
        reg, holder = {}, {'defs': {}}
        Ig = LFSplit(F, E, fgr, _diff_atoms('z', holder), reg)
        holder['I'] = Ig
        lgr = Ig.run({})
        gpoly = [lgr[0][2].get('self.grad[%d_usize]' % i) for i in range(3)] if len(lgr) == 1 else [None] * 3
        n = 0
        for s_ in ((-1.0, 1.0, 2.0), (0.3, 0.7, 3.0), (-2.0, 0.5, 0.9), (1.0, 2.0, 9.0)):
            env = {'arg2[%d_usize]' % i: s_[i] for i in range(3)}
            try:
                Fp = _num_text(tb, env)
                genv = dict(env)
                g = [None] * 3
                for t_, v_ in gst:
                    i = int(_re.search(r'\[(\d)_usize\]', t_).group(1))
                    g[i] = _num_text(v_, genv)
                    genv[t_] = g[i]
                if any(x is None for x in g):
                    raise _NoDerivative('gradient_primal components')
                z = [-x for x in g]
                Fd = _num_text(td, {'arg2[%d_usize]' % i: z[i] for i in range(3)})
                gz = [_num_poly(gpoly[i][1], {'z0': z[0], 'z1': z[1], 'z2': z[2]}, holder['defs'], reg) for i in range(3)] if all(x is not None and x[0] == 'S' for x in gpoly) else None
            except (_NoDerivative, ValueError, ZeroDivisionError, OverflowError) as ex:
                R.bad('evaluable' + tag, 'the barrier pair could not be evaluated at s = %s (%r)' % (s_, ex), fb.loc())
                return
            n += 1
            R.check(abs(Fp - (-3.0 - Fd)) <= 1e-8 * max(1.0, abs(Fp)), 'conjugate|%s%s' % (s_, tag),
                    'at s = %s barrier_primal gives %.10g but -3 - barrier_dual(-gradient_primal(s)) = %.10g: the primal barrier is not the conjugate of the dual barrier whose '
                    'gradient and Hessian drive the scaling' % (s_, Fp, -3.0 - Fd), fb.loc())
            if gz is not None:
                R.check(all(abs(gz[i] + s_[i]) <= 1e-7 * max(1.0, abs(s_[i])) for i in range(3)), 'gradient-map|%s%s' % (s_, tag),
                        'at s = %s: grad f*(-gradient_primal(s)) = %s, expected -s' % (s_, ['%.8g' % x for x in gz]), fg.loc())
        R.check(n >= 4, 'points' + tag, 'only %d sample points evaluated' % n)

    R.guard(body)


def run(ctx, rep, tier):
    for cfg in (CONFIGS_THOROUGH if tier == 'thorough' else CONFIGS):
        F = ctx.facts(cfg)
        E = ctx.eff(cfg)
        tag = '' if cfg == 'default' else '[%s]' % cfg
        state_independence(rep, F, E, tag)
        scaling_fallback(rep, F, tag)
        update_order(rep, F, E, tag)
        euler_identities(rep, F, E, tag)
        genpow_primal_gradient(rep, F, E, tag)
        reflection_symmetry(rep, F, E, tag)
        membership_guards(rep, F, tag)
        newton_start_siblings(rep, F, E, tag)
        newton_relative_stop(rep, F, tag)
        barrier_parameters(rep, F, tag)
        barrier_derivatives(rep, F, E, tag)
        newton_derivative(rep, F, E, tag)
        membership_definitions(rep, F, E, tag)
        central_start(rep, F, E, tag)
        genpow_membership(rep, F, tag)
        exp_primal_barrier_conjugate(rep, F, E, tag)
        cholesky_scale_free(rep, F, tag)
        if cfg == 'default':
            primal_dual_secant(rep, F, E, tag)
        if cfg == 'default':
            third_order_correction(rep, F, E, tag)   # ~30 s: once, the cone code is the same in every configuration
        R6 = rep.rule('C14.R6', 'unit initialisation overwrites both vectors of every cone wholly (the documented start point is reached on every solve, not only the first)')
        from . import c05
        R6.guard(lambda: c05.unit_init_must_write(R6, F, tag))
