"""C14 -- nonsymmetric-cone barrier calculus (structural clauses)"""
from engine.mir import last_seg, show, AnchorError, strip_generics
from engine.preds import canon, Walker
from engine.effects import IDX, fmt_path
from .common import *

CONFIGS = ['default']
CONFIGS_THOROUGH = ['default', 'full']
TECHNIQUE = 'effect analysis (barrier oracles read no scaling state), decision table of the primal-dual scaling fallback, path rule on the scaling update order'
EXPLANATION = (
    "Derivative formulas (gradient, Hessian, third-order correction, conjugacy) are numerical and NOT decided; "
    "checking them would need symbolic differentiation. Decided on the MIR of the current tree: (R1) for the "
    "exponential, power and generalised power cones the membership tests, barrier functions and the primal gradient "
    "are functions of their argument and construction-time constants only - they read no field that the scaling "
    "update writes (declared scratch excepted); (R2) the primal-dual scaling formula is used only under the four "
    "documented guards and every other path falls back to mu*H; update_Hs selects by the strategy; the generalised "
    "power cone never claims primal-dual scaling; (R3) update_scaling refreshes the dual gradient/Hessian before "
    "the scaling matrix and records the scaling point z on every successful path.")
ASSUMPTIONS = ['rustc MIR construction and trait resolution are correct']

NONSYM = ('ExponentialCone', 'PowerCone', 'GenPowerCone')
ORACLES = ('is_primal_feasible', 'is_dual_feasible', 'barrier_dual', 'barrier_primal', 'gradient_primal')
# scratch fields: every reader overwrites them before reading within the same call
SCRATCH = {
    'GenPowerCone': {'work': 'taken out with mem::take, fully rewritten by waxpby before any read',
                     'work_pb': 'gradient buffer written by gradient_primal before barrier_primal reads it'},
}


def state_independence(rep, F, E, tag):
    R = rep.rule('C14.R1', 'barrier oracles are functions of the point: no read of scaling state')

    def body():
        n = 0
        for K in NONSYM:
            us = F.one(name='update_scaling', adt=K, trait='Cone')
            state = set()
            for r, ch in E.W[us.key]:
                if r == ('param', 1):
                    nc = norm_chain(ch)
                    if nc:
                        state.add(nc)
            R.check(len(state) >= 3, 'state|%s%s' % (K, tag), 'update_scaling of %s writes only %d fields (anchor drift)' % (K, len(state)), us.loc())
            scratch = SCRATCH.get(K, {})
            for nm in ORACLES:
                fs = F.find(name=nm, adt=K)
                if len(fs) != 1:
                    R.bad('oracle-anchor|%s::%s%s' % (K, nm, tag), '%d implementations of %s::%s' % (len(fs), K, nm))
                    continue
                f = fs[0]
                n += 1
                bad = []
                for r, ch in E.R[f.key]:
                    if r != ('param', 1):
                        continue
                    nc = norm_chain(ch)
                    if not nc:
                        continue
                    if nc[-1][1] in scratch:
                        continue
                    if any(nc[:len(s)] == s or s[:len(nc)] == nc for s in state):
                        # reading a prefix (navigating to a sub-object) is not a read of the state itself
                        if any(nc[:len(s)] == s for s in state):
                            bad.append(nc)
                R.check(not bad, 'pure|%s::%s%s' % (K, nm, tag),
                        '%s::%s reads %s, which update_scaling overwrites: the result depends on the last scaling '
                        'point instead of only on its argument' % (K, nm, sorted('.'.join(e[1] for e in b) for b in bad)), f.loc())
            # scratch justification: written before read inside the oracle that uses it
        R.check(n >= 15, 'oracle-count' + tag, 'only %d oracle functions analysed' % n)

    R.guard(body)


def scaling_fallback(rep, F, tag):
    R = rep.rule('C14.R2', 'primal-dual scaling only under the four guards, otherwise mu*H; strategy dispatch')

    def body():
        f = F.one(name='use_primal_dual_scaling', trait='Nonsymmetric3DConeUtils')
        leaves = Walker(f, cut_loops=True).leaves()

        def kind(k):
            if 'abs(' in k and 'sqrt(epsilon())' in k:
                return 'de1'
            if 'abs(' in k and 'epsilon()' in k:
                return 'de2'
            if k.startswith('lt(zero(), dot(arg2, arg3))'):
                return 'dot_sz'
            if k.startswith('lt(zero(), dot('):
                return 'dot_dsz'
            return None
        seen_pd = seen_fb = 0
        for val, ret, ev, tr in leaves:
            if ret[0] == 'diverge':
                continue
            g = {}
            for k, v in val.items():
                kd = kind(k)
                if kd:
                    g[kd] = v
            fb = any(e[0] == 'call' and e[1] == 'use_dual_scaling' for e in ev)
            wrote = any(e[0] == 'call' and e[1] in ('copy_from', 'index_mut', 'norm_fro') for e in ev)
            allok = len(g) == 4 and all(v == 1 for v in g.values())
            if fb:
                seen_fb += 1
                R.check(not allok, 'fallback-only-when-guard-fails' + tag, 'falls back to dual scaling although all guards hold', f.loc())
                fa = [e[2] for e in ev if e[0] == 'call' and e[1] == 'use_dual_scaling']
                R.check(all(x.startswith('use_dual_scaling(self, div(dot(arg2, arg3), ') for x in fa), 'fallback-mu' + tag,
                        'the fallback scales the dual Hessian by %s, expected mu = <s,z>/3' % [x[:80] for x in fa], f.loc())
            else:
                if ret[0] in ('cut',):
                    # inside the pd branch loops
                    R.check(allok or not wrote, 'pd-guarded|cut' + tag, 'primal-dual formula reached with guards %s' % g, f.loc())
                    continue
                seen_pd += 1
                R.check(allok, 'pd-guarded' + tag,
                        'the primal-dual scaling formula is used on a path where the guards are %s (all four of '
                        '|de1|>sqrt(eps), |de2|>eps, <s,z> > 0, <ds,dz> > 0 must hold)' % g, f.loc())
        R.check(seen_fb >= 1, 'fallback-exists' + tag, 'no fallback path to use_dual_scaling (anchor drift)')
        uh = F.one(name='update_Hs', trait='Nonsymmetric3DConeUtils')
        for val, ret, ev, tr in Walker(uh).leaves():
            k = [x for x in val if 'ScalingStrategy::Dual' in x]
            calls = [e[1] for e in ev if e[0] == 'call']
            if not k:
                R.bad('dispatch-test' + tag, 'update_Hs does not test the scaling strategy', uh.loc())
                continue
            R.check(('use_dual_scaling' in calls) == bool(val[k[0]]) and ('use_primal_dual_scaling' in calls) == (not val[k[0]]),
                    'dispatch|%d%s' % (val[k[0]], tag), 'update_Hs calls %s with strategy==Dual %s' % (calls, bool(val[k[0]])), uh.loc())
        ud = F.one(name='use_dual_scaling', trait='Nonsymmetric3DConeUtils')
        sf = calls_named(ud, 'scaled_from')
        R.check(len(sf) == 1 and canon(ud.sym_operand(sf[0].args[1])) == 'arg2', 'dual-scaling-mu' + tag, 'use_dual_scaling does not scale by its mu argument', ud.loc())
        gp = F.one(name='allows_primal_dual_scaling', adt='GenPowerCone', trait='Cone')
        R.check(canon(gp.sym_local(0)) == 'false', 'genpow-dual-only' + tag, 'GenPowerCone::allows_primal_dual_scaling returns %s' % canon(gp.sym_local(0)), gp.loc())

    R.guard(body)


def update_order(rep, F, E, tag):
    R = rep.rule('C14.R3', 'update_scaling: dual gradient/Hessian refreshed first, scaling point recorded on every path')

    def body():
        for K in NONSYM:
            f = F.one(name='update_scaling', adt=K, trait='Cone')
            ug = calls_named(f, 'update_dual_grad_H')
            R.check(len(ug) == 1 and canon(f.sym_operand(ug[0].args[1])) == 'arg3', 'grad-call|%s%s' % (K, tag),
                    '%s::update_scaling does not call update_dual_grad_H(z)' % K, f.loc())
            uh = [c for c in f.calls if c.callee.name in ('update_Hs', 'use_dual_scaling')]
            if K != 'GenPowerCone':
                R.check(len(uh) == 1 and ug and f.dominates(ug[0].bb, uh[0].bb), 'grad-before-Hs|%s%s' % (K, tag),
                        '%s::update_scaling does not refresh the dual gradient before the scaling matrix' % K, f.loc())
                if uh:
                    a = [canon(f.sym_operand(x)) for x in uh[0].args]
                    R.check(a[:5] == ['self', 'arg2', 'arg3', 'arg4', 'arg5'], 'Hs-args|%s%s' % (K, tag), 'update_Hs(%s)' % a, f.loc(uh[0].sp))
            # z recorded: a direct write of the cone's z field from the z argument, on every returning path
            sites = E.direct_write_sites(f, K if K != 'GenPowerCone' else 'GenPowerConeData', 'z')
            zs = []
            for c in f.calls:
                if c.callee.name in ('copy_from', 'copy_from_slice', 'clone_from_slice'):
                    a = [canon(f.sym_operand(x)) for x in c.args]
                    if a[0].endswith('.z') and a[1] == 'arg3':
                        zs.append(c)
            pd = f.postdominators()
            R.check(len(zs) >= 1 and any(c.bb in pd.get(0, set()) for c in zs), 'z-recorded|%s%s' % (K, tag),
                    '%s::update_scaling does not unconditionally record the scaling point z (needed by the '
                    'higher-order correction and combined_ds_shift)' % K, f.loc())
            if ug and zs:
                R.check(all(f.dominates(ug[0].bb, c.bb) for c in zs), 'z-after-grad|%s%s' % (K, tag), 'z is recorded before the gradient update', f.loc())

    R.guard(body)


def run(ctx, rep, tier):
    for cfg in (CONFIGS_THOROUGH if tier == 'thorough' else CONFIGS):
        F = ctx.facts(cfg)
        E = ctx.eff(cfg)
        tag = '' if cfg == 'default' else '[%s]' % cfg
        state_independence(rep, F, E, tag)
        scaling_fallback(rep, F, tag)
        update_order(rep, F, E, tag)
