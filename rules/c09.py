"""C09 -- infinite bounds are removed and restored transparently (structural clauses)"""
import re
from engine.mir import last_seg, show, AnchorError, strip_generics
from engine.preds import canon, Walker
from engine.effects import IDX
from .common import *
from . import shared

CONFIGS = ['default', 'full']
TECHNIQUE = 'acyclic-path decision tables over MIR (drop condition, reversal arms), who-may-call / dataflow of the captured bound, post-dominance of the cap'
EXPLANATION = (
    "That the reduced solve equals the hand-reduced problem is NOT decided (index arithmetic of select_rows + "
    "numerics). Decided on the MIR of the current tree: (R1) the bound is read once at construction, stored in the "
    "presolver and the same value drives the reduction map; reversal uses the stored value; (R2) a row is marked "
    "dropped exactly when it lies in a NonnegativeConeT and b > k*bound with a relative contraction k<1 (so b == bound "
    "is dropped), the row counter and index advance consistently, only nonnegative cones are resized; (R3) the "
    "reversal fills kept rows from the internal iterate in order and dropped rows with (s=bound, z=0), x copied; "
    "(R4) the cap min(b, bound) is applied on every path of DefaultProblemData::new, independent of "
    "presolve_enable; (R5) the presolver exists only if enabled and something was reduced; (R2, cone cursor) reduce_cones moves "
    "its marker cursor past every cone on every path; (R7) select_rows gives every column - empty or not - its start pointer "
    "and every kept entry its renumbered row, value and count."
    " R2 also requires that the drop test compares the entry b[idx] itself (not |b|), with comparisons normalised to one orientation."
    " R2 also: the row cursor into b starts at 0 and only advances - by one per examined row, by nvars over a skipped cone."
    " R7 also: every return of select_rows is the matrix allocated for the reduced size (never a clone of the input)."
    ' R2 also: a resized nonnegative cone gets the count of kept markers inside its own window, not a running total.')
ASSUMPTIONS = ['rustc MIR construction and trait resolution are correct',
               'CscMatrix::select_rows / select keep the order of the retained rows (C16 territory)']


def const_poly(k):
    """evaluate a constant expression over {one(), zero(), epsilon(), literals, add, sub, mul} as a + b*eps
    (eps^2 dropped); None if not constant"""
    k = k.strip()
    m = re.fullmatch(r'(-?\d+(\.\d+)?(e-?\d+)?)(f64|f32|_\w+)?', k)
    if m:
        return (float(m.group(1)), 0.0)
    if k == 'one()':
        return (1.0, 0.0)
    if k == 'zero()':
        return (0.0, 0.0)
    if k == 'epsilon()':
        return (0.0, 1.0)
    for op in ('sub', 'add', 'mul'):
        if k.startswith(op + '(') and k.endswith(')'):
            inner = k[len(op) + 1:-1]
            d = 0
            for i, ch in enumerate(inner):
                if ch in '([':
                    d += 1
                elif ch in ')]':
                    d -= 1
                elif ch == ',' and d == 0:
                    a, b = const_poly(inner[:i]), const_poly(inner[i + 1:])
                    if a is None or b is None:
                        return None
                    if op == 'add':
                        return (a[0] + b[0], a[1] + b[1])
                    if op == 'sub':
                        return (a[0] - b[0], a[1] - b[1])
                    return (a[0] * b[0], a[0] * b[1] + a[1] * b[0])
            return None
    return None


def split2(inner):
    d = 0
    for i, ch in enumerate(inner):
        if ch in '([':
            d += 1
        elif ch in ')]':
            d -= 1
        elif ch == ',' and d == 0:
            return inner[:i].strip(), inner[i + 1:].strip()
    return None


def bound_capture(rep, F, E, tag):
    R = rep.rule('C09.R1', 'the infinity bound is captured at construction and the stored value is used afterwards')

    def body():
        f = F.one(name='new', adt='Presolver')
        gi = calls_named(f, 'get_infinity')
        R.check(len(gi) == 1, 'single-read' + tag, 'Presolver::new reads the bound %d times' % len(gi), f.loc())
        mr = one_call(f, 'make_reduction_map')
        a = [canon(f.sym_operand(x)) for x in mr.args]
        R.check(a == ['arg3', 'arg2', 'get_infinity()'], 'map-args' + tag, 'make_reduction_map(%s): expected (cones, b, the bound just read)' % a, f.loc(mr.sp))
        ok = False
        for bi, si, st in f.assignments():
            rv = st['rv']
            if rv['k'] == 'agg' and rv['ak']['a'] == 'adt' and last_seg(strip_generics(rv['ak']['adt'])) == 'Presolver':
                ok = True
                if 'infbound' not in rv['ak']['fields']:
                    R.bad('stored' + tag, 'Presolver no longer stores the bound read at construction (no field infbound): the value written at dropped rows '
                          'cannot be the bound in force when the solver was built', f.loc(st['sp']))
                    continue
                i = rv['ak']['fields'].index('infbound')
                src = canon(f.sym_operand(rv['ops'][i]))
                R.check(src == 'get_infinity()', 'stored' + tag, 'Presolver.infbound is initialised from %s' % src, f.loc(st['sp']))
                i2 = rv['ak']['fields'].index('mfull')
                R.check(canon(f.sym_operand(rv['ops'][i2])) == 'len(arg2)', 'mfull' + tag, 'mfull initialised from %s' % canon(f.sym_operand(rv['ops'][i2])), f.loc(st['sp']))
        R.check(ok, 'ctor' + tag, 'Presolver aggregate not found')
        for k, hits in E.direct_writers_of('Presolver', 'infbound').items():
            R.bad('infbound-writer|%s%s' % (short(k), tag), '%s modifies the captured bound' % k, F.by_key[k][0].loc(hits[0][1]))
        # DefaultProblemData::new: the cap uses the bound read there
        d = F.one(name='new', adt='DefaultProblemData')
        R.check(len(calls_named(d, 'get_infinity')) == 1, 'data-single-read' + tag, 'DefaultProblemData::new reads the bound %d times' % len(calls_named(d, 'get_infinity')), d.loc())

    R.guard(body)


def drop_condition(rep, F, tag):
    R = rep.rule('C09.R2', 'rows are dropped exactly when in a nonnegative cone and b > k*bound (k<1 relative contraction)')

    def body():
        f = F.one(name='make_reduction_map')
        adt = F.adt('SupportedConeT')
        vn = [v['n'] for v in adt['variants']]
        nn = vn.index('NonnegativeConeT')
        leaves = Walker(f, cut_loops=True).leaves()
        n_drop = 0
        thr_keys = set()
        def norm(val):
            # bring every comparison of b[idx] with the bound into the form  op(threshold, b[idx]) : truth
            out = dict(val)
            for k, v in val.items():
                if k[:3] in ('lt(', 'le(') and 'arg2[' in k and 'arg3' in k:
                    a, b = split2(k[3:-1])
                    if 'arg2[' in a and 'arg2[' not in b:
                        del out[k]
                        out['%s(%s, %s)' % ('le' if k[:2] == 'lt' else 'lt', b, a)] = 1 - v
            return out
        leaves = [(norm(val), ret, ev, tr) for val, ret, ev, tr in leaves]
        for val, ret, ev, tr in leaves:
            stores = [(e[1], e[2]) for e in ev if e[0] == 'store' and e[1].startswith('index_mut(')]
            cone_k = [k for k in val if k.startswith('discr(') and k.endswith('@Some.0)')]
            cmp_k = [k for k in val if (k.startswith('lt(') or k.startswith('le(')) and 'arg2[' in k and 'arg3' in k]
            thr_keys |= set(cmp_k)
            drops = [s for s in stores if s[1] in (0, '0', 'false')]
            for s in stores:
                R.check(s[1] in (0, '0', 'false'), 'only-false-stored' + tag, 'keep_logical receives %s' % (s[1],), f.loc())
            if drops:
                n_drop += 1
                R.check(bool(cone_k) and val[cone_k[0]] == nn, 'drop-only-nn' + tag,
                        'a row is dropped on a path where the cone is not a NonnegativeConeT (discriminant %s)' % (
                            val[cone_k[0]] if cone_k else '?'), f.loc())
                R.check(bool(cmp_k) and all(val[k] == 1 for k in cmp_k), 'drop-only-above' + tag,
                        'a row is dropped without the b > bound test being true', f.loc())
            else:
                if cone_k and val[cone_k[0]] == nn and cmp_k and all(val[k] == 1 for k in cmp_k):
                    R.bad('drop-missing' + tag, 'a nonnegative row above the bound is not dropped', f.loc())
        R.check(n_drop >= 1, 'drop-site' + tag, 'no path marks a row as dropped (anchor drift)')
        for k in thr_keys:
            op = k[:2]
            lhs, rhs = split2(k[3:-1])
            # lhs is the threshold, rhs is b[idx]
            R.check(re.fullmatch(r'arg2\[var:\w+\]', rhs) is not None, 'tested-entry|%s%s' % (k, tag),
                    'the drop test compares %s with the bound: it must compare the entry b[idx] itself (a row with b <= -bound is a binding '
                    'constraint, not an infinite bound)' % rhs, f.loc())
            if op == 'le' and lhs == 'arg3':
                R.ok('threshold|%s%s' % (k, tag))
                continue
            ok = False
            if lhs.startswith('mul('):
                a, b = split2(lhs[4:-1])
                for x, y in ((a, b), (b, a)):
                    if y == 'arg3':
                        p = const_poly(x)
                        if p is not None and (p[0] < 1.0 or (p[0] == 1.0 and p[1] < 0)) and p[0] > 0.5:
                            ok = True
            R.check(ok, 'threshold|%s%s' % (k, tag),
                    'the drop test is %s: it must be true for b == bound for every positive bound (relative '
                    'contraction k*bound with k<1, or >=)' % k, f.loc())
        R.check(len(thr_keys) == 1, 'threshold-unique' + tag, 'drop tests: %s' % sorted(thr_keys))
        # bookkeeping: mreduced decrements exactly where rows are dropped; is_reduced <=> mreduced < len(b)
        for val, ret, ev, tr in leaves:
            pass
        dec = []
        for bi, si, st in f.assignments():
            c = canon(f.sym_rvalue(st['rv']))
            if st['p']['p'] or f.local_name(st['p']['l']) != 'mreduced':
                continue
            if c.startswith('subwithoverflow(var:mreduced, 1_') or c.startswith('sub(var:mreduced, 1_'):
                dec.append(bi)
        drop_blocks = set()
        for val, ret, ev, tr in leaves:
            for e in ev:
                if e[0] == 'store' and e[1].startswith('index_mut('):
                    drop_blocks.add(e[3])
        loops = f.loops()
        ok = len(dec) == 1 and bool(drop_blocks)
        if ok:
            for b in drop_blocks:
                inner = [h for h, body in loops.items() if b in body]
                h = min(inner, key=lambda x: len(loops[x])) if inner else None
                d = dec[0]
                # the marker store and the decrement always happen together, in either order
                fwd = f.dominates(b, d) and not (h is not None and f.paths_exist_avoiding(b, h, [d]))
                bwd = f.dominates(d, b) and not (h is not None and f.paths_exist_avoiding(d, h, [b]))
                if not (fwd or bwd):
                    ok = False
        R.check(ok, 'mreduced-dec' + tag, 'mreduced is not decremented exactly once per dropped row', f.loc())
        # the row cursor into b: starts at 0, moves by one per examined row and by nvars(cone) over a skipped cone - nothing else
        ups = []
        for bi, si, st in f.assignments():
            if st['p']['p'] or f.local_name(st['p']['l']) != 'idx':
                continue
            ups.append((canon(f.sym_rvalue(st['rv'])).replace('withoverflow', '').replace(').0', ')'), bi))
        allowed = lambda v: v == '0_usize' or v == 'add(var:idx, 1_usize)' or re.fullmatch(r'add\(var:idx, (nvars\(.*\)|var:numel_cone)\)', v) is not None
        R.check(bool(ups) and all(allowed(v) for v, b in ups), 'row-cursor|updates' + tag,
                'the row cursor into b is updated by %s: it must start at 0 and only ever advance (by 1 per examined row, by nvars over a skipped cone) - '
                'a reset makes later nonnegative cones test the wrong rows' % sorted(set(v for v, b in ups)), f.loc())
        for val, ret, ev, tr in leaves:
            if ret[0] != 'cut':
                continue
            cone_k2 = [k for k in val if k.startswith('discr(') and k.endswith('@Some.0)')]
            inner_it = [k for k in val if k.startswith('discr(next(into_iter(Range::Range(0_usize')]
            moved = [v for v, b in ups if b in tr and v != '0_usize']
            if cone_k2 and val[cone_k2[0]] != nn and not inner_it:
                R.check(any('nvars(' in v or 'numel_cone' in v for v in moved), 'row-cursor|skip' + tag, 'a skipped cone does not advance the row cursor by its size (updates on the path: %s)' % moved, f.loc())
            if inner_it and val[inner_it[0]] == 1:
                R.check('add(var:idx, 1_usize)' in moved, 'row-cursor|row' + tag, 'an examined row does not advance the row cursor (updates on the path: %s)' % moved, f.loc())
        # reduce_cones: only NonnegativeConeT is resized
        rc = F.one(name='reduce_cones', adt='Presolver')
        for val, ret, ev, tr in Walker(rc, cut_loops=True).leaves():
            pushes = [e[2] for e in ev if e[0] == 'call' and e[1] == 'push']
            ck = [k for k in val if k.startswith('discr(') and k.endswith('@Some.0)')]
            for p in pushes:
                if 'SupportedConeT::NonnegativeConeT(' in p:
                    R.check(bool(ck) and val[ck[0]] == nn, 'resize-only-nn' + tag, 'a cone is replaced by a NonnegativeConeT on a non-NN path', rc.loc())
                    # ... with the number of kept rows of *this* cone: the count of the markers in its own take(nvars) window, not a running total
                    m_ = re.search(r'SupportedConeT::NonnegativeConeT\((.*)\)\)$', p)
                    cnt = m_.group(1) if m_ else p
                    R.check(cnt.startswith('count(filter(') and 'nvars(' in cnt, 'resize-own-count' + tag,
                            'the resized nonnegative cone gets the size %s: expected the count of kept markers inside this cone\'s window (a loop-carried total gives every '
                            'later cone the cumulative count, and the cone list no longer matches the reduced rows)' % cnt[:100], rc.loc())
                else:
                    R.check('@Some.0)' in p and (not ck or val[ck[0]] != nn), 'others-cloned' + tag, 'non-NN cone pushed as %s' % p[:80], rc.loc())

    R.guard(body)


def reversal(rep, F, tag):
    R = rep.rule('C09.R3', 'reverse_presolve: kept rows from the internal iterate in order, dropped rows (s=bound, z=0), x copied')

    def body():
        f = F.one(name='reverse_presolve', adt='Presolver')
        leaves = Walker(f, cut_loops=True).leaves()
        seen = set()
        for val, ret, ev, tr in leaves:
            kk = [k for k in val if 'keep_logical' in k and k.endswith('@Some.0.1')]
            stores = {}
            for e in ev:
                if e[0] == 'store' and e[1].startswith('index_mut(arg2.'):
                    fld = e[1][len('index_mut(arg2.'):].split(',')[0]
                    idx = e[1].split(',', 1)[1]
                    stores[fld] = (e[2], idx)
            if not kk:
                continue
            keep = val[kk[0]]
            seen.add(keep)
            for fld in ('s', 'z'):
                if fld not in stores:
                    R.bad('arm-writes|%d|%s%s' % (keep, fld, tag), 'the %s arm does not write solution.%s' % ('keep' if keep else 'drop', fld), f.loc())
                    continue
                v, idx = stores[fld]
                R.check(idx.strip().endswith('@Some.0.0)'), 'index|%d|%s%s' % (keep, fld, tag), 'solution.%s is indexed by %s, expected the enumeration index' % (fld, idx), f.loc())
                if keep:
                    R.check(v == 'index(arg3.%s, var:ctr)' % fld, 'keep|%s%s' % (fld, tag), 'kept row: solution.%s <- %s, expected variables.%s[ctr]' % (fld, v, fld), f.loc())
                else:
                    want = 'self.infbound' if fld == 's' else 'zero()'
                    R.check(v == want, 'drop|%s%s' % (fld, tag), 'dropped row: solution.%s <- %s, expected %s' % (fld, v, want), f.loc())
        R.check(seen == {0, 1}, 'both-arms' + tag, 'reverse_presolve arms seen: %s' % sorted(seen))
        inc = [canon(f.sym_rvalue(st['rv'])) for bi, si, st in f.assignments() if not st['p']['p'] and f.local_name(st['p']['l']) == 'ctr']
        R.check(any(x.startswith('addwithoverflow(var:ctr, 1_') for x in inc) and '0_usize' in inc, 'ctr' + tag, 'ctr updates: %s' % inc, f.loc())
        # ctr increments only in the keep arm
        for val, ret, ev, tr in leaves:
            kk = [k for k in val if 'keep_logical' in k and k.endswith('@Some.0.1')]
            if kk:
                incb = any(any(('p' in st and not st['p']['p'] and f.local_name(st['p']['l']) == 'ctr') for st in f.blocks[b]['s']) for b in tr if b != 0 and f.dominates(0, b) and b in tr[2:])
                inloop = [b for b in tr if any(('p' in st and not st['p']['p'] and f.local_name(st['p']['l']) == 'ctr' and canon(f.sym_rvalue(st['rv'])).startswith('addwith')) for st in f.blocks[b]['s'])]
                R.check(bool(inloop) == bool(val[kk[0]]), 'ctr-arm|%d%s' % (val[kk[0]], tag), 'ctr advance in the %s arm' % ('keep' if val[kk[0]] else 'drop'), f.loc())
        cx = [canon(('call', c.callee.target_key, tuple(f.sym_operand(a) for a in c.args), c.bb)) for c in calls_named(f, 'copy_from')]
        R.check('copy_from(arg2.x, arg3.x)' in cx, 'x-copied' + tag, 'solution.x is not copied from variables.x: %s' % cx, f.loc())

    R.guard(body)


def cap_unconditional(rep, F, tag):
    R = rep.rule('C09.R4', 'the cap min(b, bound) is applied on every path of DefaultProblemData::new')

    def body():
        f = F.one(name='new', adt='DefaultProblemData')
        caps = []
        for c in f.calls:
            if c.callee.name in ('scalarop', 'scalarop_from'):
                a = [f.sym_operand(x) for x in c.args]
                clo = a[1]
                while clo[0] in ('ref', 'deref'):
                    clo = clo[1]
                if clo[0] == 'agg' and clo[1][0] == 'closure':
                    g = F.by_key[clo[1][1]][0]
                    if any(x.callee.name == 'min' for x in g.calls):
                        ups = [canon(o) for o in clo[2]]
                        body_ = canon(g.sym_local(0))
                        R.check(re.fullmatch(r'min\(arg2, arg1\.(_ref__)?\w+\)|min\(arg1\.(_ref__)?\w+, arg2\)', body_) is not None, 'cap-is-min' + tag,
                                'the cap maps an entry x to %s, expected min(x, bound)' % body_, g.loc())
                        caps.append((c, canon(a[0]), ups))
        # the cap is one-sided: only +infinity-like right-hand sides are limited; a two-sided clip alters large negative entries (real constraints)
        two_sided = [c for c in f.calls if c.callee.name == 'clip' and 'b' in canon(f.sym_operand(c.args[0]))[:40] and 'get_infinity' in ''.join(canon(f.sym_operand(a)) for a in c.args[1:])]
        R.check(not two_sided, 'cap-one-sided' + tag, 'DefaultProblemData::new clips b on both sides (%s): entries below -bound are finite data and must be kept' % [canon(f.sym_operand(a))[:40] for c in two_sided for a in c.args[1:]], f.loc())
        if two_sided:
            return
        if not R.check(len(caps) >= 1, 'cap-exists' + tag,
                       'DefaultProblemData::new has no unconditional elementwise min(b, bound) pass over the internal b', f.loc()):
            return
        c, tgt, ups = caps[0]
        pd = f.postdominators()
        R.check(c.bb in pd.get(0, set()), 'cap-every-path' + tag, 'the cap is skipped on some path (not a post-dominator of the entry)', f.loc(c.sp))
        R.check(any('get_infinity()' in u for u in ups), 'cap-bound' + tag, 'the cap bound is %s, expected the module bound read in this constructor' % ups, f.loc(c.sp))
        # the capped vector is the one stored in the data
        ok = False
        for bi, si, st in f.assignments():
            rv = st['rv']
            if rv['k'] == 'agg' and rv['ak']['a'] == 'adt' and last_seg(strip_generics(rv['ak']['adt'])) == 'DefaultProblemData':
                i = rv['ak']['fields'].index('b')
                src = canon(f.sym_operand(rv['ops'][i]))
                ok = True
                R.check(src == tgt or tgt in src or src in tgt, 'cap-target' + tag, 'the capped vector %s is not the stored b (%s)' % (tgt, src), f.loc(c.sp))
                R.check(f.dominates(c.bb, bi), 'cap-before-store' + tag, 'b is stored before it is capped', f.loc(c.sp))
        R.check(ok, 'data-ctor' + tag, 'DefaultProblemData aggregate not found')

    R.guard(body)


def presolver_gate(rep, F, tag):
    R = rep.rule('C09.R5', 'the presolver exists only when enabled and a reduction happened')

    def body():
        f = F.one(name='try_presolver')
        for val, ret, ev, tr in Walker(f).leaves():
            en = [k for k in val if k.endswith('.presolve_enable')]
            rd = [k for k in val if k.startswith('is_reduced(')]
            some = 'Option::Some' in (ret[1] if ret[0] == 's' else '') or any(
                'Some' in str(e) for e in ev if e[0] == 'store')
            r0 = canon(f.sym_local(0))
            is_some = (bool(en) and val[en[0]] == 1 and bool(rd) and val[rd[0]] == 1)
            built = any(e[0] == 'call' and e[1] == 'new' for e in ev)
            R.check(built or not is_some, 'gate|%s%s' % (sorted(val.values()), tag), 'presolver returned without being built', f.loc())
            if en and val[en[0]] == 0:
                R.check(not built, 'disabled-not-built' + tag, 'presolver built although presolve_enable is false', f.loc())
        ir = F.one(name='is_reduced', adt='Presolver')
        R.check(canon(ir.sym_local(0)) == 'is_some(self.reduce_map)', 'is_reduced' + tag, 'is_reduced returns %s' % canon(ir.sym_local(0)), ir.loc())
        m = F.one(name='make_reduction_map')
        ok = False
        bad_ = []
        for val, ret, ev, tr in Walker(m, cut_loops=True).leaves():
            if ret[0] != 's':
                continue
            red = None          # "fewer rows kept than there are": read in whichever way the test is written
            for x, v in val.items():
                xx = re.sub(r'#\d+$', '', x)
                a_, b_ = 'var:mreduced', 'len(arg2)'
                forms = {'lt(%s, %s)' % (a_, b_): v, 'gt(%s, %s)' % (b_, a_): v, 'ne(%s, %s)' % (a_, b_): v, 'ne(%s, %s)' % (b_, a_): v,
                         'eq(%s, %s)' % (a_, b_): 1 - v, 'eq(%s, %s)' % (b_, a_): 1 - v, 'ge(%s, %s)' % (a_, b_): 1 - v, 'le(%s, %s)' % (b_, a_): 1 - v}
                if xx in forms:
                    red = forms[xx]
            if red is None:
                continue
            rtxt = str(ret[1])
            # a local given its value in the two branches: take the assignment on this path
            for mm in re.finditer(r'var:(\w+)', str(ret[1])):
                ls = [i for i, l in enumerate(m.locals) if l['n'] == mm.group(1)]
                got = [canon(m.sym_rvalue(st['rv'])) for bi, si, st in m.assignments() if bi in tr and not st['p']['p'] and st['p']['l'] in ls]
                if len(got) == 1:
                    rtxt = rtxt.replace('var:' + mm.group(1), got[0])
            some = 'Option::Some(' in rtxt
            none = 'Option::None' in rtxt
            if (red == 1 and some and not none) or (red == 0 and none and not some):
                ok = True
            else:
                bad_.append((red, rtxt[:60]))
        ok = ok and not bad_
        R.check(ok, 'some-iff-reduced' + tag, 'reduce_map is not Some exactly when mreduced < len(b)', m.loc())

    R.guard(body)


def cone_cursor(rep, F, tag):
    """reduce_cones walks the keep markers cone by cone: whatever a cone's branch does (resize, drop, keep), the marker cursor
    must have moved past that cone's rows when the next cone is looked at - by consuming the take(nvars) window of a shared
    iterator or by adding nvars to an index.  A path that skips the advance reads the next cones' markers from the wrong window."""
    R = rep.rule('C09.R2', 'a row is dropped exactly when it is nonnegative and at/above the contracted bound; counters advance consistently')

    def body():
        f = F.one(name='reduce_cones')
        n = 0
        for val, ret, ev, tr in Walker(f, cut_loops=True).leaves():
            if ret[0] != 'cut':
                continue
            n += 1
            consumed = any(e[0] == 'call' and e[1] in ('count', 'last', 'for_each', 'sum', 'fold', 'collect', 'all', 'any') and 'take(by_ref(' in e[2] and 'nvars(' in e[2] for e in ev)
            advanced = False
            for e in ev:
                if e[0] == 'assign' and isinstance(e[4], dict) and e[1]:
                    v = canon(f.sym_rvalue(e[4]['rv'])).replace('withoverflow', '').replace(').0', ')')
                    if re.fullmatch(r'add\(var:%s, (nvars\(.*\)|var:\w+)\)' % re.escape(e[1]), v) and ('nvars(' in v or any(x[0] == 'assign' and x[1] and ('var:' + x[1]) in v and isinstance(x[4], dict) and 'nvars(' in canon(f.sym_rvalue(x[4]['rv'])) for x in ev)):
                        advanced = True
            kinds = {k[:40]: v for k, v in val.items() if 'discr(next(into_iter(arg2))@Some.0)' in k or k.startswith('lt(0_usize, count(') or k.startswith('eq(')}
            R.check(consumed or advanced, 'cone-cursor|%s%s' % (sorted(kinds.items()), tag),
                    'reduce_cones: on the iteration path %s the marker cursor is not advanced past the cone (neither the take(nvars) window consumed nor '
                    'an index increased by nvars): the following cones read their keep markers from a shifted window' % kinds, f.loc())
        R.check(n >= 3, 'cone-cursor-paths' + tag, 'only %d iteration paths of reduce_cones analysed' % n, f.loc())

    R.guard(body)


def row_selection(rep, F, tag):
    """The presolver removes rows with CscMatrix::select_rows.  The reduced matrix is the original one with the dropped rows
    deleted only if every column - empty or not - gets its start pointer: colptr[col] = running count is written on every
    iteration of the column loop (a `continue` for an empty column leaves the zero of the allocation there and the previous
    column's entries are attributed to it), and a kept entry writes its row index, its value and advances the count."""
    R = rep.rule('C09.R7', 'select_rows: every column gets its start pointer, every kept entry its renumbered row, value and count')

    def body():
        f = F.one(name='select_rows', adt='CscMatrix')
        loops = f.loops()
        colp = []
        for bi, si, st in f.assignments():
            if st['p']['p']:
                t = canon(f.sym_place(st['p']))
                v = canon(f.sym_rvalue(st['rv']))
                if re.search(r'\.colptr, next\(into_iter\(Range::Range\(0_usize, self\.n\)\)\)@Some\.0\)$', t) and v == 'var:ptrred':
                    colp.append(bi)
        R.check(len(colp) == 1, 'colptr-store' + tag, '%d stores of the running count into colptr[col] found' % len(colp), f.loc())
        if len(colp) == 1:
            S = colp[0]
            outer = [h for h, body in loops.items() if S in body]
            H = max(outer, key=lambda h: len(loops[h])) if outer else None
            if H is None:
                R.bad('column-loop' + tag, 'the colptr store is not inside a loop', f.loc())
            else:
                entries = [b for b in f.succ[H] if b in loops[H]]
                bad = any(f.paths_exist_avoiding(e_, H, [S]) and e_ != S for e_ in entries)
                R.check(not bad, 'colptr-every-column' + tag,
                        'select_rows: an iteration of the column loop can complete without writing colptr[col] (e.g. a `continue` for an empty column): '
                        'the column keeps the zero of the allocation and the previous column\'s kept entries move into it', f.loc())
        # kept entries
        kept = {'rowval': False, 'nzval': False, 'count': False}
        for val, ret, ev, tr in Walker(f, cut_loops=True).leaves():
            if ret[0] != 'cut':
                continue
            sel = [v for k, v in val.items() if k.startswith('index(arg2, index(self.rowval')]
            if len(sel) == 1 and sel[0] == 1:
                for e in ev:
                    if e[0] == 'store' and '.rowval, var:ptrred)' in str(e[1]) and 'index(from_elem(0_usize, self.m), index(self.rowval' in str(e[2]):
                        kept['rowval'] = True
                    if e[0] == 'store' and '.nzval, var:ptrred)' in str(e[1]) and str(e[2]).startswith('index(self.nzval'):
                        kept['nzval'] = True
                    if e[0] == 'assign' and e[1] == 'ptrred' and isinstance(e[4], dict) and canon(f.sym_rvalue(e[4]['rv'])).replace('withoverflow', '').startswith('add(var:ptrred, 1_usize)'):
                        kept['count'] = True
        R.check(all(kept.values()), 'kept-entry' + tag, 'select_rows: a kept entry must store its renumbered row, its value and advance the count (%s)' % kept, f.loc())

        # every return hands back the matrix that was allocated for the reduced size and filled with renumbered rows - never (a copy
        # of) the input with only its row count changed
        nret = 0
        for val, ret, ev, tr in Walker(f, cut_loops=True, local_stores=True).leaves():
            if ret[0] != 's':
                continue
            nret += 1
            src = [canon(f.sym_rvalue(e[4]['rv'])) for e in ev if e[0] == 'assign' and isinstance(e[4], dict) and str(ret[1]) == 'var:' + str(e[1])]
            calls = [str(e[2]) for e in ev if e[0] == 'call' and e[1] in ('spalloc', 'clone')]
            ok = any(c.startswith('spalloc(') for c in calls) and not any(c == 'clone(self)' or c.startswith('clone(self)') or c == 'self' for c in calls)
            R.check(ok and 'self' != str(ret[1]), 'returns-rebuilt' + tag,
                    'select_rows returns %s built from %s on the path %s: the reduced matrix must be allocated for the kept rows and filled with renumbered row indices '
                    '(a copy of the input keeps the old indices although b and the cones are compacted)' % (str(ret[1])[:40], calls[:3], {k[:40]: v for k, v in val.items()}), f.loc())
        R.check(nret >= 1, 'return-paths' + tag, 'no return path of select_rows analysed', f.loc())

    R.guard(body)


def run(ctx, rep, tier):
    for cfg in CONFIGS:
        F = ctx.facts(cfg)
        E = ctx.eff(cfg)
        tag = '' if cfg == 'default' else '[%s]' % cfg
        bound_capture(rep, F, E, tag)
        drop_condition(rep, F, tag)
        cone_cursor(rep, F, tag)
        row_selection(rep, F, tag)
        reversal(rep, F, tag)
        cap_unconditional(rep, F, tag)
        presolver_gate(rep, F, tag)
    from . import c18
    c18.stage_rules(ctx, rep, 'C09.R6')
