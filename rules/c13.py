"""C13 -- Nesterov-Todd identities (decided exactly for the nonnegative cone, structurally for the shared
symmetric-cone utilities; NOT decided for the second-order and PSD formulas)"""
import re
from fractions import Fraction
from engine.mir import last_seg, AnchorError, strip_generics
from engine.preds import canon, Walker
from engine.units import Interp, S, V, ONE, umul, upow, ufmt, vfmt, elem_unit
from .common import *

CONFIGS = ['default', 'full']
CONFIGS_THOROUGH = ['default', 'full', 'sdp']
TECHNIQUE = ('abstract interpretation of MIR over monomials (exact for the diagonal algebra of the nonnegative cone) and over '
             'polynomials / rational functions on head-tail split vectors modulo the hyperboloid relation (second-order cone), '
             'free-monoid words of matrix products (PSD cone), call-sequence / transpose-flag rules on the shared utilities, '
             'effect analysis (reset completeness, one scaling state)')
EXPLANATION = (
    "Partial claim. NOT decided: lambda = W z and the ds-offset formula of the second-order cone (nested square roots of the "
    "inputs), everything numerical about the PSD cone (Cholesky/SVD-based R, lambda, its Jordan products), the dense-triangle "
    "packing loop of SOC get_Hs, and all rounding behaviour near the boundary. Decided on the MIR of the current tree, for all "
    "inputs: (R1) nonnegative cone, exactly: w = (s/z)^1/2, lambda = (s z)^1/2, hence W z = W^-1 s = lambda and (W'W) z = s; "
    "mul_W / mul_Winv mutually inverse; Hs block = operator of mul_Hs = w^2; circ / inv_circ / lambda-inverse; affine term "
    "lambda o lambda; slack offset = W'(lambda \\ ds) = ds/z; (R2) the utilities shared by all symmetric cones compose the "
    "primitives as documented (dz <- W dz (N), ds <- W^-T ds, shift = ds o dz - sigma mu e, offset = W'(lambda \\ ds)) and every "
    "symmetric cone routes through them; (R3) PSD mul_Hs = W'(W x); KKT block and recovery operator read one scaling state; "
    "(R4) second-order cone as polynomial identities over (head, tail) vectors: mul_W is the documented eta [w0 w1'; w1 I + "
    "w1 w1'/(1+w0)]; mul_Winv at the reflected point (w0, -w1, 1/eta) is identical to mul_W; mul_Hs x = W(W x) modulo "
    "w0^2 - <w1,w1> = 1; circ_op is the Jordan product and y o inv_circ_op(y, z) = z; (R5) that relation holds: the last write to "
    "w on every successful path is w0 = sqrt(1 + <w1,w1>); (R6) PSD mul_W / mul_Winv are the words R'XR (N) and RXR' (T) over R "
    "resp. Rinv; (R7) set_identity_scaling resets every field that update_scaling computes and an operator reads; (R8) the "
    "sparse expansion written into the KKT matrix (diagonal d, columns u and v, extension diagonal, pivot signs) has Schur "
    "complement eta^2 (2 w w' - J), proved as rational-function identities on the hyperboloid; (R9) the composite cone hands "
    "every cone exactly its own range of every vector argument."
    " (R10) dense second-order cone KKT block: packed upper triangle of eta^2 (2 w w' - J) - entry (0,0) = 2 w0^2 - 1 modulo (sqrt 2)^2 = 2, later columns 2 w_r w_c with +1 on the diagonal, scaled by eta^2."
    " (R11) identity scaling of the second-order cone: w = (1, 0), eta = 1 and the sparse expansion satisfies d + u0^2 - v0^2 = 1 (modulo (1/sqrt 2)^2 = 1/2) with zero tails."
    " (R12) the interior test of the second-order cone scaling is residual > 0 exactly."
    ' (R13) combined_step_rhs: the Mehrotra factor M scales exactly one affine direction before combined_ds_shift, iff M != 1; the shift, which contains the centring term, is added to d.s with coefficient one.')
ASSUMPTIONS = ['rustc MIR construction and trait resolution are correct',
               'sqrt, *, /, dot, norm, axpby, waxpby, scale on T are the real operations (identities are over the reals, not floating point); s, z interior',
               'the diagonal KKT block is minus get_Hs (decided under C11)']

NN = 'NonnegativeCone'


def _interp(ctx, cfg, f):
    F, E = ctx.facts(cfg), ctx.eff(cfg)
    return Interp(F, E, f, lambda o, fld, k: None)


def u(**kw):
    return {k: Fraction(v) for k, v in kw.items() if v != 0}


def nn_identities(rep, ctx, cfg, tag):
    R = rep.rule('C13.R1', 'nonnegative cone: NT identities as monomial identities (exact)')

    def final(f, init, want_key):
        I = _interp(ctx, cfg, f)
        outs = []
        cut = []
        for val, ret, st in I.run(init):
            if want_key in st:
                (cut if ret[0] == 'cut' else outs).append(st[want_key])
        return (cut or outs), I

    def body():
        F = ctx.facts(cfg)
        us = F.one(name='update_scaling', adt=NN, trait='Cone')
        I = _interp(ctx, cfg, us)
        lam = w = None
        for val, ret, st in I.run({'arg2': V(u(S=1)), 'arg3': V(u(Z=1))}):
            if ret[0] != 'cut':
                continue
            if 'self.λ' in st:
                lam = st['self.λ']
            if 'self.w' in st:
                w = st['self.w']
        R.check(lam == V(u(S=Fraction(1, 2), Z=Fraction(1, 2))), 'lambda' + tag, 'update_scaling computes lambda = %s, expected (s z)^1/2' % vfmt(lam), us.loc())
        R.check(w == V(u(S=Fraction(1, 2), Z=Fraction(-1, 2))), 'w' + tag, 'update_scaling computes w = %s, expected (s/z)^1/2' % vfmt(w), us.loc())
        if lam is None or w is None or lam[0] != 'V' or w[0] != 'V':
            return
        ul, uw = lam[1], w[1]
        I0 = I
        # the operators, with symbolic state
        Wst = {'self.w': V(u(W=1)), 'self.λ': V(u(L=1))}

        def op(name, trait, init, outkey):
            f = F.one(name=name, adt=NN, trait=trait)
            st0 = dict(Wst)
            st0.update(init)
            # a wrapper that forwards to one free helper of the same module: analyse the helper with the
            # wrapper's actual arguments bound to its parameters
            loc = [c for c in f.calls if c.callee.local and c.callee.name.startswith('_')]
            if len(loc) == 1 and len([c for c in f.calls if c.callee.local]) == 1:
                gl = F.by_key.get(loc[0].callee.key) or []
                g = gl[0] if len(gl) == 1 else None
                if g is not None:
                    st1 = {}
                    for i, a in enumerate(loc[0].args):
                        k = canon(I0._strip(f.sym_operand(a)))
                        if k in st0:
                            st1['arg%d' % (i + 1)] = st0[k]
                        if k == outkey:
                            outkey = 'arg%d' % (i + 1)
                    outs, I2 = final(g, st1, outkey)
                    return f, (outs[-1] if outs else None), [fd for fd in I2.findings if fd.kind == 'U-DE']
            outs, I2 = final(f, st0, outkey)
            de = [fd for fd in I2.findings if fd.kind == 'U-DE']
            return f, (outs[-1] if outs else None), de
        f, hs, _ = op('get_Hs', 'Cone', {}, 'arg2')
        R.check(hs == V(u(W=2)), 'get_Hs' + tag, 'get_Hs writes %s, expected w^2' % vfmt(hs), f.loc())
        f, y, _ = op('mul_Hs', 'Cone', {'arg3': V(u(X=1))}, 'arg2')
        R.check(y == V(u(W=2, X=1)), 'mul_Hs' + tag, 'mul_Hs computes %s, expected w^2 x (the same operator as the KKT block)' % vfmt(y), f.loc())
        f, y, de = op('mul_W', 'SymmetricCone', {'arg4': V(u(X=1)), 'arg5': S(u(A=1)), 'arg6': S(ONE), 'arg3': V(u(A=1, W=1, X=1))}, 'arg3')
        R.check(y == V(u(A=1, W=1, X=1)) and not de, 'mul_W' + tag, 'mul_W computes %s (%s), expected alpha w x + beta y' % (vfmt(y), [d.msg[:60] for d in de][:1]), f.loc())
        f, y, de = op('mul_Winv', 'SymmetricCone', {'arg4': V(u(X=1)), 'arg5': S(u(A=1)), 'arg6': S(ONE), 'arg3': V(u(A=1, W=-1, X=1))}, 'arg3')
        R.check(y == V(u(A=1, W=-1, X=1)) and not de, 'mul_Winv' + tag, 'mul_Winv computes %s, expected alpha x / w + beta y' % vfmt(y), f.loc())
        f, x, _ = op('λ_inv_circ_op', 'SymmetricCone', {'arg3': V(u(Q=1))}, 'arg2')
        R.check(x == V(u(Q=1, L=-1)), 'lambda_inv_circ' + tag, 'lambda_inv_circ_op computes %s, expected z / lambda' % vfmt(x), f.loc())
        f, x, _ = op('circ_op', 'JordanAlgebra', {'arg3': V(u(P=1)), 'arg4': V(u(Q=1))}, 'arg2')
        R.check(x == V(u(P=1, Q=1)), 'circ_op' + tag, 'circ_op computes %s, expected y o z' % vfmt(x), f.loc())
        f, x, _ = op('inv_circ_op', 'JordanAlgebra', {'arg3': V(u(P=1)), 'arg4': V(u(Q=1))}, 'arg2')
        R.check(x == V(u(P=-1, Q=1)), 'inv_circ_op' + tag, 'inv_circ_op computes %s, expected z / y (the inverse of circ_op in its first argument)' % vfmt(x), f.loc())
        f, ds, _ = op('affine_ds', 'Cone', {}, 'arg2')
        R.check(ds == V(u(L=2)), 'affine_ds' + tag, 'affine_ds computes %s, expected lambda o lambda' % vfmt(ds), f.loc())
        f, out, _ = op('Δs_from_Δz_offset', 'Cone', {'arg3': V(u(DS=1)), 'arg5': V(u(Z=1))}, 'arg2')
        # W'(lambda \\ ds) with the derived w, lambda:
        want = umul(umul(u(DS=1), upow(ul, -1)), uw)
        R.check(out is not None and out[0] == 'V' and out[1] == want, 'ds_offset' + tag,
                'ds_from_dz_offset computes %s; W\'(lambda \\ ds) with w=(s/z)^1/2, lambda=(sz)^1/2 is %s' % (vfmt(out), ufmt(want)), f.loc())
        # the identities themselves, from the derived monomials
        R.check(umul(uw, u(Z=1)) == ul, 'identity|Wz=lambda' + tag, 'W z = %s but lambda = %s' % (ufmt(umul(uw, u(Z=1))), ufmt(ul)))
        R.check(umul(u(S=1), uw, 1, -1) == ul, 'identity|W^-1 s=lambda' + tag, 'W^-1 s = %s but lambda = %s' % (ufmt(umul(u(S=1), uw, 1, -1)), ufmt(ul)))
        R.check(umul(upow(uw, 2), u(Z=1)) == u(S=1), 'identity|(W\'W)z=s' + tag, '(W\'W) z = %s, expected s' % ufmt(umul(upow(uw, 2), u(Z=1))))

    R.guard(body)


SEQ_SHIFT = [
    ('copy_from', ['arg2', 'arg3']),
    ('mul_W', ['self', 'MatrixShape::N', 'arg3', 'arg2', 'one()', 'zero()']),
    ('copy_from', ['arg2', 'arg4']),
    ('mul_Winv', ['self', 'MatrixShape::T', 'arg4', 'arg2', 'one()', 'zero()']),
    ('circ_op', ['self', 'arg2', 'arg4', 'arg3']),
    ('scaled_unit_shift', ['self', 'arg2', 'neg(arg5)', None]),
]
SEQ_OFFSET = [
    ('λ_inv_circ_op', ['self', 'arg4', 'arg3']),
    ('mul_W', ['self', 'MatrixShape::T', 'arg2', 'arg4', 'one()', 'zero()']),
]


def shared_utilities(rep, ctx, cfg, tag):
    R = rep.rule('C13.R2', 'shared symmetric-cone utilities compose W, W^-T, the Jordan product and the unit shift as documented')

    def seq(f, names):
        out = []
        for val, ret, ev, tr in Walker(f).leaves():
            for e in ev:
                if e[0] == 'call' and e[1] in names:
                    out.append((e[1], split_args(e[2])))
        return out

    def body():
        F = ctx.facts(cfg)
        f = F.one(name='_combined_ds_shift_symmetric', trait='SymmetricConeUtils')
        got = seq(f, {x[0] for x in SEQ_SHIFT})
        R.check(len(got) == len(SEQ_SHIFT), 'shift-steps' + tag, '_combined_ds_shift_symmetric performs %s' % [g[0] for g in got], f.loc())
        for (nm, want), (gn, ga) in zip(SEQ_SHIFT, got):
            ok = nm == gn and all(w is None or w == a for w, a in zip(want, ga))
            if nm == 'circ_op' and nm == gn:
                # the Jordan product is commutative: either operand order is the same shift
                ok = ga[:2] == want[:2] and sorted(ga[2:]) == sorted(want[2:])
            R.check(ok, 'shift|%s%s' % (nm, tag),
                    'combined shift: step %s(%s), documented %s(%s) [dz <- W dz; ds <- W^-T ds; shift = ds o dz - sigma mu e]' % (gn, ', '.join(ga), nm, ', '.join(str(x) for x in want)), f.loc())
        f2 = F.one(name='_Δs_from_Δz_offset_symmetric', trait='SymmetricConeUtils')
        got = seq(f2, {x[0] for x in SEQ_OFFSET})
        R.check(len(got) == len(SEQ_OFFSET), 'offset-steps' + tag, '_ds_from_dz_offset_symmetric performs %s' % [g[0] for g in got], f2.loc())
        for (nm, want), (gn, ga) in zip(SEQ_OFFSET, got):
            R.check(nm == gn and want == ga, 'offset|%s%s' % (nm, tag), 'slack offset: step %s(%s), documented %s(%s) [W\'(lambda \\ ds)]' % (gn, ', '.join(ga), nm, ', '.join(want)), f2.loc())
        # every symmetric cone routes combined_ds_shift through the shared utility, arguments in order
        n = 0
        for K in ('NonnegativeCone', 'SecondOrderCone', 'PSDTriangleCone'):
            fs = F.find(name='combined_ds_shift', adt=K, trait='Cone')
            if not fs:
                continue
            n += 1
            g = fs[0]
            cs = calls_named(g, '_combined_ds_shift_symmetric')
            ok = len(cs) == 1 and [canon(g.sym_operand(a)) for a in cs[0].args] == ['self', 'arg2', 'arg3', 'arg4', 'arg5']
            R.check(ok, 'routes|%s%s' % (K, tag), '%s::combined_ds_shift does not forward (shift, step_z, step_s, sigma mu) to the shared utility' % K, g.loc())
        R.check(n >= 2, 'symmetric-cones' + tag, 'only %d symmetric cone types analysed' % n)
        for K in ('PSDTriangleCone',):
            fs = F.find(name='Δs_from_Δz_offset', adt=K, trait='Cone')
            for g in fs:
                cs = calls_named(g, '_Δs_from_Δz_offset_symmetric')
                ok = len(cs) == 1 and [canon(g.sym_operand(a)) for a in cs[0].args] == ['self', 'arg2', 'arg3', 'arg4']
                R.check(ok, 'offset-routes|%s%s' % (K, tag), '%s::ds_from_dz_offset does not forward (out, ds, work)' % K, g.loc())
            fs = F.find(name='mul_Hs', adt=K, trait='Cone')
            for g in fs:
                got = seq(g, {'mul_W'})
                want = [['self', 'MatrixShape::N', 'arg4', 'arg3', 'one()', 'zero()'], ['self', 'MatrixShape::T', 'arg2', 'arg4', 'one()', 'zero()']]
                R3 = rep.rule('C13.R3', 'the operator that recovers the slack step is W\'(W x), built from the same mul_W; one scaling state')
                R3.check([a for n_, a in got] == want, 'mul_Hs|%s%s' % (K, tag), '%s::mul_Hs performs %s, expected work = W x (N) then y = W\' work (T)' % (K, got), g.loc())

    R.guard(body)


# ---------------------------------------------------------------------------
# second-order cone: polynomial identities over (head, tail) split vectors
# ---------------------------------------------------------------------------
from engine.linform import (LFSplit, P_atom, P_const, P_add, P_mul, P_inv, P_neg, P_fmt, P_key, P_reduce,
                            L_atom, L_scale, L_add, L_dot, L_key, L_fmt, L_reduce)

SOC = 'SecondOrderCone'


def _Pv(h, t):
    return ('P', P_atom(h), L_atom(t))


def _Sv(a):
    return ('S', P_atom(a))


def _dot_atom(a, b):
    pair = tuple(sorted([((), a), ((), b)], key=str))
    return ('dot', pair[0], pair[1])


def _rules_from_registry(reg, extra):
    """relations: norm(v)^2 = <v,v>, sqrt(p)^2 = p, recip(p) * pivot(p) = 1 - recip(p) * (p - pivot)"""
    first = []
    for atom, poly in reg.items():
        if atom[0] in ('norm', 'sqrt'):
            first.append(({atom: 2}, poly))
    rules = first + list(extra)
    for atom, poly in reg.items():
        if atom[0] != 'recip':
            continue
        p = P_reduce(poly, rules)
        # pivot: a monomial that is one inner product, else one plain atom, else the largest
        def rank(m):
            if len(m) == 1 and m[0][1] == 1 and isinstance(m[0][0], tuple) and m[0][0][0] == 'dot':
                return 0
            if len(m) == 1 and m[0][1] == 1:
                return 1
            return 2 if m else 9
        piv = sorted(p.keys(), key=lambda m: (rank(m), str(m)))[0]
        if not piv:
            continue
        c = p[piv]
        rest = {m: v for m, v in p.items() if m != piv}
        pat = {atom: 1}
        for a, e in piv:
            pat[a] = e
        rep = P_add(P_const(1), P_mul(P_atom(atom), rest), -1)
        rep = {m: v / c for m, v in rep.items()}
        rules.append((pat, rep))
    return rules


def soc_algebra(rep, ctx, cfg, tag):
    R = rep.rule('C13.R4', 'second-order cone: W^-1 is W at the reflected point, mul_Hs = W(W x), Jordan product and its inverse '
                           '(polynomial identities over head/tail split vectors, modulo w0^2 - <w1,w1> = 1)')

    def body():
        F, E = ctx.facts(cfg), ctx.eff(cfg)
        reg = {}

        def run1(f, init):
            I = LFSplit(F, E, f, lambda k, s: None, reg)
            leaves = I.run(init)
            return leaves, I

        Wf = F.one(name='_soc_mul_W_inner')
        Wi = F.one(name='_soc_mul_Winv_inner')
        ZERO = ('P', {}, {})

        def apply(f, x, y, al, be, w, eta):
            leaves, I = run1(f, {'arg1': y, 'arg2': x, 'arg3': al, 'arg4': be, 'arg5': w, 'arg6': eta})
            if len(leaves) != 1:
                return None
            return leaves[0][2].get('arg1')
        w = _Pv('w0', 'W1')
        wneg = ('P', P_atom('w0'), L_scale(L_atom('W1'), P_const(-1)))
        eta = _Sv('eta')
        etainv = ('S', P_inv(P_atom('eta')))
        x, y = _Pv('x0', 'X1'), _Pv('y0', 'Y1')
        al, be = _Sv('al'), _Sv('be')
        a = apply(Wf, x, y, al, be, w, eta)
        b = apply(Wi, x, y, al, be, wneg, etainv)
        ok = a is not None and b is not None and a[0] == 'P' and b[0] == 'P' and a[1] == b[1] and L_key(a[2]) == L_key(b[2])
        R.check(ok, 'W-Winv-reflection' + tag,
                'mul_Winv is not mul_W at the reflected scaling point (w0, -w1, 1/eta): W gives head %s tail %s; Winv at the '
                'reflected point gives head %s tail %s' % (((P_fmt(a[1]), L_fmt(a[2])) if a else ('?', '?')) + ((P_fmt(b[1]), L_fmt(b[2])) if b else ('?', '?'))), Wi.loc())
        # documented form of W itself: eta [w0 w1'; w1 I + w1 w1'/(1+w0)] x
        if a is not None and a[0] == 'P':
            zeta = {((_dot_atom('W1', 'X1'), Fraction(1)),): Fraction(1)}
            aeta = P_mul(P_atom('al'), P_atom('eta'))
            head = P_add(P_mul(aeta, P_add(P_mul(P_atom('w0'), P_atom('x0')), zeta)), P_mul(P_atom('be'), P_atom('y0')))
            rinv = P_inv(P_add(P_const(1), P_atom('w0')))
            c = P_add(P_atom('x0'), P_mul(zeta, rinv))
            tail = L_add(L_add(L_scale(L_atom('W1'), P_mul(aeta, c)), L_scale(L_atom('X1'), aeta)), L_scale(L_atom('Y1'), P_atom('be')))
            R.check(a[1] == head and L_key(a[2]) == L_key(tail), 'W-definition' + tag,
                    'mul_W computes head %s tail %s; the NT scaling is alpha eta [w0 w1\'; w1 I + w1 w1\'/(1+w0)] x + beta y' % (P_fmt(a[1]), L_fmt(a[2])), Wf.loc())
        # wrappers forward the cone's own (w, eta)
        for nm, inner in (('mul_W', '_soc_mul_W_inner'), ('mul_Winv', '_soc_mul_Winv_inner')):
            g = F.one(name=nm, adt=SOC, trait='SymmetricCone')
            cs = calls_named(g, inner)
            got = [canon(g.sym_operand(z)) for z in cs[0].args] if len(cs) == 1 else None
            R.check(got == ['arg3', 'arg4', 'arg5', 'arg6', 'self.w', 'self.η'], 'wrapper|%s%s' % (nm, tag),
                    '%s::%s forwards %s to %s, expected (y, x, alpha, beta, self.w, self.eta)' % (SOC, nm, got, inner), g.loc())
        # mul_Hs == W(W x)
        one, zero = ('S', P_const(1)), ('S', P_const(0))
        t1 = apply(Wf, x, ZERO, one, zero, w, eta)
        t2 = apply(Wf, t1, ZERO, one, zero, w, eta) if t1 is not None else None
        hs = F.one(name='mul_Hs', adt=SOC, trait='Cone')
        leaves, I = run1(hs, {'self.w': w, 'self.η': eta, 'arg3': x, 'arg2': y})
        h = leaves[0][2].get('arg2') if len(leaves) == 1 else None
        hyper = ({_dot_atom('W1', 'W1'): 1}, P_add(P_mul(P_atom('w0'), P_atom('w0')), P_const(-1)))
        rules = _rules_from_registry(reg, [hyper])
        if t2 is None or h is None or t2[0] != 'P' or h[0] != 'P':
            R.bad('mul_Hs=W(Wx)' + tag, 'could not evaluate mul_Hs (%s) or W(W x) (%s) symbolically' % (h and h[0], t2 and t2[0]), hs.loc())
        else:
            lh, lt = P_reduce(h[1], rules), L_reduce(h[2], rules)
            rh, rt = P_reduce(t2[1], rules), L_reduce(t2[2], rules)
            R.check(lh == rh and L_key(lt) == L_key(rt), 'mul_Hs=W(Wx)' + tag,
                    'mul_Hs x = [%s ; %s] differs from W(W x) = [%s ; %s] modulo w0^2 - <w1,w1> = 1: the operator used to recover ds '
                    'is not W\'W' % (P_fmt(lh), L_fmt(lt), P_fmt(rh), L_fmt(rt)), hs.loc())
        # Jordan product and its inverse
        co = F.one(name='_circ_op', suffix='socone::_circ_op')
        ico = F.one(name='_inv_circ_op', suffix='socone::_inv_circ_op')
        yy, zz = _Pv('p0', 'P1'), _Pv('q0', 'Q1')

        def circ(f, yv, zv):
            leaves, I = run1(f, {'arg1': _Pv('o0', 'O1'), 'arg2': yv, 'arg3': zv})
            return leaves[0][2].get('arg1') if len(leaves) == 1 else None
        c = circ(co, yy, zz)
        want_h = P_add(P_mul(P_atom('p0'), P_atom('q0')), {((_dot_atom('P1', 'Q1'), Fraction(1)),): Fraction(1)})
        want_t = L_add(L_scale(L_atom('Q1'), P_atom('p0')), L_scale(L_atom('P1'), P_atom('q0')))
        R.check(c is not None and c[0] == 'P' and c[1] == want_h and L_key(c[2]) == L_key(want_t), 'circ-definition' + tag,
                'circ_op(y, z) = %s, expected [<y,z> ; y0 z1 + z0 y1]' % ('[%s ; %s]' % (P_fmt(c[1]), L_fmt(c[2])) if c and c[0] == 'P' else c), co.loc())
        # inv_circ_op uses the local helper _soc_residual: bind its result by evaluating the helper itself
        sr = F.one(name='_soc_residual')
        lv, Isr = run1(sr, {'arg1': yy})
        res = Isr.ev(lv[0][2], sr.sym_local(0)) if len(lv) == 1 else None
        R.check(res is not None and res[0] == 'S', 'soc-residual' + tag, '_soc_residual could not be evaluated', sr.loc())
        if res is not None and res[0] == 'S':
            want = P_add(P_mul(P_atom('p0'), P_atom('p0')), {((_dot_atom('P1', 'P1'), Fraction(1)),): Fraction(-1)})
            got = P_reduce(res[1], _rules_from_registry(reg, []))
            R.check(got == want, 'soc-residual-definition' + tag, '_soc_residual(y) = %s, expected y0^2 - <y1,y1>' % P_fmt(got), sr.loc())
            I2 = LFSplit(F, E, ico, lambda k, s: res if k.startswith('_soc_residual(') else None, reg)
            lv2 = I2.run({'arg1': _Pv('o0', 'O1'), 'arg2': yy, 'arg3': zz})
            xi = lv2[0][2].get('arg1') if len(lv2) == 1 else None
            back = circ(co, yy, xi) if xi is not None and xi[0] == 'P' else None
            if back is None or back[0] != 'P':
                R.bad('inv-circ-inverse' + tag, 'could not evaluate y o (y \\ z) symbolically (%s)' % (xi and xi[0],), ico.loc())
            else:
                rules2 = _rules_from_registry(reg, [])
                bh, bt = P_reduce(back[1], rules2), L_reduce(back[2], rules2)
                R.check(bh == zz[1] and L_key(bt) == L_key(zz[2]), 'inv-circ-inverse' + tag,
                        'y o inv_circ_op(y, z) = [%s ; %s], expected z' % (P_fmt(bh), L_fmt(bt)), ico.loc())
        for nm, inner in (('circ_op', '_circ_op'), ('inv_circ_op', '_inv_circ_op')):
            g = F.one(name=nm, adt=SOC, trait='JordanAlgebra')
            cs = calls_named(g, inner)
            got = [canon(g.sym_operand(z)) for z in cs[0].args] if len(cs) == 1 else None
            R.check(got == ['arg2', 'arg3', 'arg4'], 'wrapper|%s%s' % (nm, tag), '%s::%s forwards %s' % (SOC, nm, got), g.loc())
        g = F.one(name='λ_inv_circ_op', adt=SOC, trait='SymmetricCone')
        cs = calls_named(g, '_inv_circ_op')
        got = [canon(g.sym_operand(z)) for z in cs[0].args] if len(cs) == 1 else None
        R.check(got == ['arg2', 'self.λ', 'arg3'], 'wrapper|lambda_inv_circ_op' + tag, '%s::lambda_inv_circ_op forwards %s, expected (x, lambda, z)' % (SOC, got), g.loc())
        g = F.one(name='affine_ds', adt=SOC, trait='Cone')
        cs = calls_named(g, '_circ_op')
        got = [canon(g.sym_operand(z)) for z in cs[0].args] if len(cs) == 1 else None
        R.check(got == ['arg2', 'self.λ', 'self.λ'], 'affine_ds' + tag, '%s::affine_ds computes circ_op%s, expected lambda o lambda' % (SOC, got), g.loc())

    R.guard(body)


def soc_normalisation(rep, ctx, cfg, tag):
    R = rep.rule('C13.R5', 'second-order cone: the stored w lies on the hyperboloid (w0 = sqrt(1 + <w1,w1>) is the last write to w)')

    def body():
        F = ctx.facts(cfg)
        f = F.one(name='update_scaling', adt=SOC, trait='Cone')
        n = 0
        for val, ret, ev, tr in Walker(f, cut_loops=True).leaves():
            if not (ret[0] == 'c' and ret[1] == 1):
                continue
            n += 1
            last = None
            lastvec = None
            sumsq_at = None

            def target(txt):
                """(base, part) of a written place: part is head / tail / whole"""
                t, part = txt, 'whole'
                while t.startswith('index_mut(') or t.startswith('index('):
                    inner = t[t.index('(') + 1:]
                    part = 'head' if ', 0_usize)' in inner else ('tail' if 'RangeFrom(1_usize)' in inner else 'other')
                    t = inner
                base = t.split(',')[0].split(')')[0].split('[')[0]
                if '[0_usize]' in t.split(',')[0]:
                    part = 'head'
                return base, part
            VM = ('scale', 'axpby', 'waxpby', 'copy_from', 'set', 'fill', 'negate', 'hadamard', 'recip', 'scalarop', 'scalarop_from', 'translate', 'rsqrt', 'sqrt')
            for i, e in enumerate(ev):
                if e[0] == 'store' and e[4]['p']['p']:
                    base, part = target(canon(f.sym_place(e[4]['p'])))
                    if base == 'self.w':
                        last = (i, part, canon(f.sym_rvalue(e[4]['rv'])))
                        if part != 'head':
                            lastvec = i
                elif e[0] == 'call':
                    c = e[4]
                    tr_ = c.callee.trait or ''
                    if c.args and ((c.callee.name in VM and tr_.endswith('VectorMath')) or c.callee.name in ('add_assign', 'sub_assign', 'mul_assign', 'div_assign', 'copy_from_slice', 'clone_from_slice')):
                        base, part = target(canon(f.sym_operand(c.args[0])))
                        if base == 'self.w':
                            last = (i, part, c.callee.name)
                            if part != 'head':
                                lastvec = i
                    if c.callee.name == 'sumsq' and target(canon(f.sym_operand(c.args[0]))) == ('self.w', 'tail'):
                        sumsq_at = i
            v = last[2] if last else ''
            ok = last is not None and last[1] == 'head' and v in (
                'sqrt(add(one(), sumsq(index(self.w, RangeFrom::RangeFrom(1_usize)))))', 'sqrt(add(sumsq(index(self.w, RangeFrom::RangeFrom(1_usize))), one()))')
            R.check(ok, 'normalised|%d%s' % (n, tag),
                    'on a successful path the last write to w is %s; the identities W^-1 = reflected W and mul_Hs = W\'W need w0 = sqrt(1 + <w1,w1>) '
                    'as the final update' % (last,), f.loc())
            R.check(sumsq_at is not None and (lastvec is None or lastvec < sumsq_at), 'normalised-order|%d%s' % (n, tag),
                    '<w1,w1> is taken before the last update of w1', f.loc())
        R.check(n >= 1, 'success-paths' + tag, 'no successful path through update_scaling (anchor drift)', f.loc())

    R.guard(body)


# ---------------------------------------------------------------------------
# PSD cone: W and W^-1 as words over (R, X, R') in the free monoid of matrix products
# ---------------------------------------------------------------------------
PSD = 'PSDTriangleCone'


def psd_words(rep, ctx, cfg, tag):
    R = rep.rule('C13.R6', 'PSD cone: mul_W / mul_Winv are X -> R\'XR (N) and RXR\' (T) with R resp. Rinv: transposes of each other, same function for W and W^-1')

    def body():
        F = ctx.facts(cfg)
        fs = F.find(name='mul_Wx_inner')
        if not fs:
            R.check(cfg == 'default', 'psd-present' + tag, 'PSD cone code not found in configuration %s' % cfg)
            return
        f = fs[0]
        shape = {v['discr']: v['n'] for v in F.adt('MatrixShape')['variants']}
        seen = {}
        for val, ret, ev, tr in Walker(f, cut_loops=True).leaves():
            if ret[0] == 'diverge':
                continue
            d = [v for k, v in val.items() if k == 'discr(arg1)']
            if len(d) != 1:
                R.bad('flag-tested' + tag, 'mul_Wx_inner does not branch on the transpose flag alone: %s' % val, f.loc())
                continue
            arm = shape.get(str(d[0]))
            # matrices: name -> list of (coefficient tuple, word tuple); word letters are (matrix, transposed)
            st = {}

            def mat(sym_txt):
                t = sym_txt.strip()
                if t.startswith('t(') and t.endswith(')'):
                    inner = mat(t[2:-1])
                    return [(c, tuple((n, not tr_) for n, tr_ in reversed(w))) for c, w in inner]
                return st.get(t, [((), ((t, False),))])

            def coef(txt):
                t = txt.strip()
                return None if t == 'zero()' else (() if t == 'one()' else (t,))
            for e in ev:
                if e[0] != 'call':
                    continue
                a = split_args(e[2])
                if e[1] == 'svec_to_mat':
                    st[a[0]] = [((), (('mat(%s)' % a[1], False),))]
                elif e[1] == 'mat_to_svec':
                    st['out:' + a[0]] = st.get(a[1])
                elif e[1] == 'mul' and len(a) == 5 and (e[4].callee.trait or '').endswith('MultiplyGEMM'):
                    A, B, al, be = mat(a[1]), mat(a[2]), coef(a[3]), coef(a[4])
                    terms = []
                    if al is not None:
                        for c1, w1 in A:
                            for c2, w2 in B:
                                terms.append((tuple(sorted(al + c1 + c2)), w1 + w2))
                    if be is not None:
                        for c1, w1 in mat(a[0]):
                            terms.append((tuple(sorted(be + c1)), w1))
                    st[a[0]] = terms
            seen[arm] = sorted(st.get('out:arg2') or [])
        X = ('mat(arg3)', False)
        Rm, Rt = ('arg6', False), ('arg6', True)
        want = {'N': sorted([(('arg4',), (Rt, X, Rm)), (('arg5',), (('mat(arg2)', False),))]),
                'T': sorted([(('arg4',), (Rm, X, Rt)), (('arg5',), (('mat(arg2)', False),))])}
        for arm in ('N', 'T'):
            R.check(seen.get(arm) == want[arm], 'word|%s%s' % (arm, tag),
                    'mul_Wx_inner(%s) computes y = %s; documented: alpha %s + beta y' % (arm, seen.get(arm), "R'XR" if arm == 'N' else "RXR'"), f.loc())
        for nm, fld in (('mul_W', 'R'), ('mul_Winv', 'Rinv')):
            g = F.one(name=nm, adt=PSD, trait='SymmetricCone')
            cs = calls_named(g, 'mul_Wx_inner')
            got = [canon(g.sym_operand(z)) for z in cs[0].args] if len(cs) == 1 else None
            ok = got is not None and got[:5] == ['arg2', 'arg3', 'arg4', 'arg5', 'arg6'] and got[5].startswith('self.data.') and got[5].split('.')[-1] == fld and len(set(got[6:])) == 3 and all(x.startswith('self.data.') and x.split('.')[-1].startswith('workmat') for x in got[6:])
            R.check(ok, 'wrapper|%s%s' % (nm, tag), '%s::%s forwards %s, expected (flag, y, x, alpha, beta, %s, three distinct work matrices)' % (PSD, nm, got, fld), g.loc())

    R.guard(body)


# ---------------------------------------------------------------------------
# reset completeness of the scaling state
# ---------------------------------------------------------------------------
OPERATORS = ('get_Hs', 'mul_Hs', 'mul_W', 'mul_Winv', 'csc_update_sparsecone')
RESET_SCRATCH = {
    'PSDTriangleCone': {'data.workmat1': 'svec_to_mat overwrites it before any read in mul_Wx_inner',
                        'data.workmat2': 'svec_to_mat overwrites it before any read in mul_Wx_inner',
                        'data.workmat3': 'written by the first product before it is read'},
}


def reset_completeness(rep, ctx, cfg, tag):
    R = rep.rule('C13.R7', 'set_identity_scaling resets every part of the scaling state that the KKT block / slack-recovery operators read')

    def body():
        F, E = ctx.facts(cfg), ctx.eff(cfg)

        def fields(f, table, depth=2):
            out = set()
            for r, ch in table[f.key]:
                if r != ('param', 1):
                    continue
                nc = norm_chain(ch)
                if nc:
                    out.add('.'.join(e[1] for e in nc[:depth]))
            return out
        n = 0
        for K in ('NonnegativeCone', 'SecondOrderCone', 'PSDTriangleCone'):
            us = F.find(name='update_scaling', adt=K, trait='Cone')
            if not us:
                continue
            n += 1
            us = us[0]
            ident = F.one(name='set_identity_scaling', adt=K, trait='Cone')
            depth = 2
            wr = fields(us, E.W)
            ops_read = set()
            nops = 0
            for nm in OPERATORS:
                for g in F.find(name=nm):
                    if K in (g.impl_self or '') or (g.impl_adt and last_seg(strip_generics(g.impl_adt)) == K):
                        nops += 1
                        ops_read |= fields(g, E.R)
            # a read of a sub-path counts for its 2-component prefix; a 1-component field (w, eta) for itself
            state = set()
            for w in wr:
                if w in ops_read or any(r.startswith(w + '.') for r in ops_read):
                    state.add(w)
            state -= set(RESET_SCRATCH.get(K, {}))
            # a wrapper field alone (sparse_data, data) is navigation, not state
            state = {x for x in state if not any(y != x and y.startswith(x + '.') for y in wr)}
            R.check(nops >= 4 and len(state) >= 1, 'state|%s%s' % (K, tag), '%s: %d operator functions, scaling state %s (anchor drift)' % (K, nops, sorted(state)), us.loc())
            from .c05 import whole_writes
            whole, part = whole_writes(E, ident)
            iw = set()
            for ch in whole:
                iw.add('.'.join(e[1] for e in ch))
            ip = {'.'.join(e[1] for e in ch[:depth]) for ch in part}
            for x in sorted(state):
                # reset means rewritten as a whole (fill / copy / assignment), not element by element
                ok = x in iw or any(x.startswith(y + '.') for y in iw)
                R.check(ok, 'reset|%s|%s%s' % (K, x, tag),
                        '%s::set_identity_scaling does not reset `%s` as a whole (%s), which update_scaling computes and the KKT block / W operators '
                        'read: after a previous solve the identity scaling keeps a stale part' % (K, x, 'only element-wise' if x in ip else 'not at all'), ident.loc())
        R.check(n >= 2, 'cones' + tag, 'only %d symmetric cones analysed' % n)

    R.guard(body)


# ---------------------------------------------------------------------------
# sparse expansion of the second-order cone: eta^2 (D + u u' - v v') must be eta^2 (2 w w' - J)
# ---------------------------------------------------------------------------
from engine.linform import RatF, to_ratf
import re as _re


def _nu():
    return {((_dot_atom('W1', 'W1'), Fraction(1)),): Fraction(1)}


def soc_sparse_expansion(rep, ctx, cfg, tag):
    R = rep.rule('C13.R8', 'second-order cone, sparse expansion: the KKT block (diagonal D, columns u and v, extension diagonal) has Schur '
                           'complement eta^2 (2 w w\' - J), the operator of mul_Hs (rational-function identities modulo w0^2 - <w1,w1> = 1)')

    def body():
        F, E = ctx.facts(cfg), ctx.eff(cfg)
        reg = {}
        f = F.one(name='update_scaling', adt=SOC, trait='Cone')

        def atoms(k, s_):
            if k.startswith('_sqrt_soc_residual(') or k.startswith('_soc_residual('):
                return ('S', P_atom(k))
            if 'sparse_data' in k and k.endswith('.u'):
                return _Pv('uold0', 'UOLD1')
            if 'sparse_data' in k and k.endswith('.v'):
                return _Pv('vold0', 'VOLD1')
            return None
        I = LFSplit(F, E, f, atoms, reg)
        found = None
        for val, ret, ev, tr in Walker(f, cut_loops=True).leaves():
            if not (ret[0] == 'c' and ret[1] == 1):
                continue
            if not any('sparse_data' in k and v == 1 for k, v in val.items()):
                continue
            st = {'arg2': _Pv('s0', 'S1'), 'arg3': _Pv('z0', 'Z1'), 'self.w': _Pv('wold0', 'WOLD1'), 'self.λ': _Pv('lold0', 'LOLD1')}
            rebound = False
            for e in ev:
                if e[0] == 'call':
                    I.apply_call(st, e[4])
                elif e[0] == 'store':
                    rv = f.sym_rvalue(e[4]['rv'])
                    tgt = canon(f.sym_place(e[4]['p']))
                    I.set_place(st, f.sym_place(e[4]['p']), I.ev(st, rv))
                    if tgt == 'index_mut(self.w, 0_usize)' and canon(rv).startswith('sqrt(add('):
                        # C13.R5 proves this is the last write to w and that w0 = sqrt(1 + <w1,w1>): from here on w is a
                        # fresh point (w0, W1) on the hyperboloid and the <w1,w1> already taken is <W1,W1>
                        old = None
                        for k2, v2 in st.items():
                            if k2.startswith('sumsq(index(self.w, RangeFrom'):
                                old = v2
                        st['self.w'] = _Pv('w0', 'W1')
                        if old is not None:
                            for k2 in list(st):
                                if st[k2] is not None and st[k2] == old:
                                    st[k2] = ('S', _nu())
                        rebound = True
                elif e[0] == 'assign' and isinstance(e[4], dict):
                    st['var:' + e[1]] = I.ev(st, f.sym_rvalue(e[4]['rv']))
            found = (st, rebound)
        if found is None:
            R.bad('sparse-path' + tag, 'no successful path of update_scaling with sparse data (anchor drift)', f.loc())
            return
        st, rebound = found
        R.check(rebound, 'normalisation-point' + tag, 'the normalisation store w[0] = sqrt(1 + <w1,w1>) was not found on the sparse path', f.loc())

        def field(nm):
            ks = [k for k in st if _re.fullmatch(r'self\.sparse_data.*\.%s' % nm, k)]
            return st[ks[0]] if len(ks) == 1 else None
        d, u, v = field('d'), field('u'), field('v')
        shape_ok = (d is not None and d[0] == 'S' and u is not None and u[0] == 'P' and v is not None and v[0] == 'P'
                    and set(u[2]) <= {((), 'W1')} and set(v[2]) <= {((), 'W1')})
        R.check(shape_ok, 'uvd-shape' + tag, 'sparse data is not (d scalar, u = [u0; u1 w1], v = [v0; v1 w1]): d=%s u=%s v=%s' % (
            d and d[0], u and (u[0], sorted(map(str, u[2])) if u[0] == 'P' else ''), v and (v[0], sorted(map(str, v[2])) if v[0] == 'P' else '')), f.loc())
        if not shape_ok:
            return
        u0, v0 = u[1], v[1]
        u1, v1 = u[2].get(((), 'W1'), {}), v[2].get(((), 'W1'), {})
        # diagonal block
        gh = F.one(name='get_Hs', adt=SOC, trait='Cone')
        I2 = LFSplit(F, E, gh, lambda k, s_: ('S', P_atom('dd')) if ('sparse_data' in k and k.endswith('.d')) else None, {})
        hd = None
        for val, ret, st2 in I2.run({'self.η': _Sv('eta'), 'arg2': _Pv('h0', 'H1')}):
            if any('sparse_data' in k and v_ == 1 for k, v_ in val.items()):
                hd = st2.get('arg2')
        eta2 = P_mul(P_atom('eta'), P_atom('eta'))
        ok = hd is not None and hd[0] == 'P' and hd[1] == P_mul(eta2, P_atom('dd')) and L_key(hd[2]) == L_key(L_scale(L_atom('ONES'), eta2))
        R.check(ok, 'diag-block' + tag, 'get_Hs (sparse form) returns %s, expected eta^2 [d, 1, .., 1]' % ('[%s ; %s]' % (P_fmt(hd[1]), L_fmt(hd[2])) if hd and hd[0] == 'P' else hd), gh.loc())
        # KKT side: which extension column carries u / v, their scale factors and the extension diagonal
        upd = [g for g in F.find(name='csc_update_sparsecone') if SOC in (g.impl_self or '')]
        fil = [g for g in F.find(name='csc_fill_sparsecone') if SOC in (g.impl_self or '')]
        if len(upd) != 1 or len(fil) != 1:
            R.bad('kkt-anchors' + tag, 'csc_update_sparsecone / csc_fill_sparsecone for the second-order cone: %d / %d' % (len(upd), len(fil)))
            return
        upd, fil = upd[0], fil[0]
        pos = {}
        for val, ret, ev, tr in Walker(fil, cut_loops=True).leaves():
            if ret[0] == 'diverge':
                continue
            here = {}
            for e in ev:
                if e[0] == 'call' and e[1] in ('fill_colvec', 'fill_rowvec', 'fill_diag'):
                    a = split_args(e[2])
                    which = a[1].rsplit('.', 1)[-1]
                    offs = [x for x in a[2:] if 'arg5' in x]
                    off = None
                    if len(offs) == 1:
                        off = 0 if offs[0] == 'arg5' else (1 if offs[0].replace('withoverflow', '').startswith('add(arg5, 1_usize)') else None)
                    here[which] = off
            for k, o in here.items():
                if k in pos and pos[k] != o:
                    R.bad('fill-arms-agree' + tag, 'the triu and tril arms place %s at different offsets' % k, fil.loc())
                pos[k] = o
        R.check(set(pos) == {'u', 'v', 'D'} and pos.get('D') == 0 and sorted([pos.get('u'), pos.get('v')]) == [0, 1], 'fill-positions' + tag,
                'extension columns: %s (expected u and v at the two columns starting at col, D at col)' % pos, fil.loc())
        Iu = LFSplit(F, E, upd, lambda k, s_: None, {})
        st3 = {'self.η': _Sv('eta')}
        coef, src, order, dvals = {}, {}, [], None
        for c in upd.calls:
            if not c.callee.indirect:
                continue
            role = canon(upd.sym_operand(c.callee.indirect))
            a = [upd.sym_operand(x) for x in c.args]
            which = canon(a[2]).rsplit('.', 1)[-1]
            order.append((role, which))
            if role == 'arg5' and which in ('u', 'v'):
                src[which] = canon(a[3]).rsplit('.', 1)[-1]
                coef[which] = P_const(1)
            elif role == 'arg6' and which in ('u', 'v'):
                val = Iu.ev(st3, a[3])
                coef[which] = P_mul(coef.get(which, {}), val[1]) if val is not None and val[0] == 'S' and which in coef else None
            elif role == 'arg5' and which == 'D':
                arr = a[3]
                while arr[0] in ('cast', 'ref', 'deref'):
                    arr = arr[1]
                if arr[0] == 'agg' and len(arr[2]) == 2:
                    dv = [Iu.ev(st3, x) for x in arr[2]]
                    dvals = [x[1] if x is not None and x[0] == 'S' else None for x in dv]
        R.check(src == {'u': 'u', 'v': 'v'} and all(coef.get(k) for k in ('u', 'v')) and dvals is not None and None not in dvals, 'kkt-update-shape' + tag,
                'csc_update_sparsecone: sources %s, scale factors %s, extension diagonal %s; order %s' % (src, {k: (P_fmt(x) if x else x) for k, x in coef.items()}, dvals and [P_fmt(x) if x else x for x in dvals], order), upd.loc())
        if not (src == {'u': 'u', 'v': 'v'} and all(coef.get(k) for k in ('u', 'v')) and dvals and None not in dvals and pos.get('u') in (0, 1) and pos.get('v') in (0, 1)):
            return
        for k in ('u', 'v'):
            R.check(order.index(('arg5', k)) < order.index(('arg6', k)), 'scale-after-update|%s%s' % (k, tag), 'column %s is scaled before its values are written' % k, upd.loc())
        hyper = ({_dot_atom('W1', 'W1'): 1}, P_add(P_mul(P_atom('w0'), P_atom('w0')), P_const(-1)))
        Q = lambda p_: to_ratf(p_, reg)
        CU = Q(P_mul(coef['u'], coef['u'])) / Q(dvals[pos['u']])
        CV = Q(P_mul(coef['v'], coef['v'])) / Q(dvals[pos['v']])
        E2 = Q(eta2)
        two, one = RatF(P_const(2)), RatF(P_const(1))
        W0 = Q(P_atom('w0'))
        checks = [
            ('head-head', E2 * Q(d[1]) + CU * Q(P_mul(u0, u0)) + CV * Q(P_mul(v0, v0)), E2 * (two * W0 * W0 - one), 'eta^2 d + cu u0^2 + cv v0^2 = eta^2 (2 w0^2 - 1)'),
            ('head-tail', CU * Q(P_mul(u0, u1)) + CV * Q(P_mul(v0, v1)), E2 * two * W0, 'cu u0 u1 + cv v0 v1 = 2 eta^2 w0'),
            ('tail-tail', CU * Q(P_mul(u1, u1)) + CV * Q(P_mul(v1, v1)), E2 * two, 'cu u1^2 + cv v1^2 = 2 eta^2'),
        ]
        for nm, lhs, rhs, what in checks:
            try:
                z = (lhs - rhs).is_zero([hyper])
            except Exception as ex:
                z = False
                what += ' (%r)' % ex
            R.check(z, 'identity|%s%s' % (nm, tag),
                    'sparse expansion of W\'W: %s does not hold as an identity in (w0, w1, eta) on the hyperboloid; the KKT block is not the operator mul_Hs applies' % what, f.loc())
        # signs the LDL factorisation is told to expect for the two extension pivots
        ds = [g for g in F.find(name='Dsigns') if 'SOCExpansionMap' in (g.impl_self or '') + (g.impl_adt or '')]
        if len(ds) == 1:
            txt = canon(ds[0].sym_local(0))
            m = _re.findall(r'(-?\d+)_i8', txt)
            sg = []
            for x in dvals:
                cs_ = set((c_ > 0) for c_ in x.values())
                sq = all(all(int(e_) % 2 == 0 for a_, e_ in mono) for mono in x)
                sg.append((1 if cs_ == {True} else -1) if (len(cs_) == 1 and sq) else None)
            R.check(len(m) == 2 and [int(t) for t in m] == sg, 'Dsigns' + tag, 'declared pivot signs %s, extension diagonal %s has signs %s' % (m, [P_fmt(x) for x in dvals], sg), ds[0].loc())
        else:
            R.bad('Dsigns-anchor' + tag, 'SOCExpansionMap::Dsigns matched %d functions' % len(ds))

    R.guard(body)


# ---------------------------------------------------------------------------
# composite dispatch: each cone sees exactly its own slice of every vector
# ---------------------------------------------------------------------------


def composite_slices(rep, F, tag, rid='C13.R9'):
    """CompositeCone forwards every operation to its cones, cone by cone.  Whatever vector arguments the operation has, cone i
    must receive the sub-slice v[rng_i] of each - the range element of zip(cones, rng_cones) (rng_blocks for the Hs blocks),
    cloned or not.  An open-ended slice v[rng.start..] is accepted by the type checker and by cones that only look at their
    first numel entries, but a second-order cone computes its residual over the whole slice it is given."""
    R = rep.rule(rid, 'composite cone: every per-cone call receives exactly the cone\'s own range of every vector argument')

    def body():
        n = 0
        for f in F.fns:
            if not ((f.impl_adt or '').endswith('CompositeCone') or 'CompositeCone' in (f.impl_self or '')):
                continue
            for g in [f] + list(F.closures_of.get(f.key, [])):
                for c in g.calls:
                    if c.callee.name != f.name or c.callee.local is False:
                        continue
                    args = [canon(g.sym_operand(a)) for a in c.args]
                    if not args or '@Some.0.0' not in args[0]:
                        continue
                    n += 1
                    rng = args[0].replace('@Some.0.0', '@Some.0.1')
                    for a in args[1:]:
                        m = re.match(r'index(_mut)?\(((arg\d+)(\._ref__\w+)?), (.*)\)$', a)
                        if not m:
                            continue
                        R.check(m.group(5) == rng, 'own-range|%s|%s%s' % (f.name, m.group(2), tag),
                                'CompositeCone::%s passes %s[%s] to a cone: every vector must be cut to the cone\'s own range (%s)' % (f.name, m.group(2), m.group(5)[-60:], rng[-40:]), g.loc(c.sp))
        R.check(n >= 10, 'dispatch-sites' + tag, 'only %d per-cone dispatch sites of the composite cone analysed' % n)

    R.guard(body)


def soc_dense_block(rep, ctx, cfg, tag):
    """Dense second-order cones (no sparse expansion) put the packed upper triangle of Hs = eta^2 (2 w w' - J), J = diag(1, -I), into
    the KKT matrix: entry (0,0) is 2 w0^2 - 1, entry (r,c) of a later column is 2 w_r w_c, its diagonal entry gets + 1, and the whole
    block is scaled by eta^2.  This is the matrix of mul_Hs (C13.R4); a wrong sign of the J term leaves the KKT block different from the
    operator that recovers ds."""
    R = rep.rule('C13.R10', 'second-order cone, dense KKT block: packed triu of eta^2 (2 w w\' - J) - entry (0,0) = 2 w0^2 - 1, later columns 2 w_r w_c with + 1 on the diagonal')

    def body():
        from engine.linform import LF, P_atom, P_const, P_add, P_mul, P_neg, P_fmt, P_reduce
        F, E = ctx.facts(cfg), ctx.eff(cfg)
        f = F.one(name='get_Hs', adt='SecondOrderCone', trait='Cone')

        def atoms(k, s_):
            m = re.fullmatch(r'index\(self\.w, (.*)\)', k)
            if m:
                i = m.group(1)
                if i == '0_usize':
                    return ('S', P_atom('w0'))
                if re.match(r'next\(into_iter\((new|RangeInclusive::new)\(0_usize', i):
                    return ('S', P_atom('wr'))
                if i.startswith('next(into_iter(Range::Range('):
                    return ('S', P_atom('wc'))
                if i in ('var:col',):
                    return ('S', P_atom('wc'))
                if i in ('var:row',):
                    return ('S', P_atom('wr'))
            if k == 'SQRT_2()':
                return ('S', P_atom('s'))
            if k == 'self.η':
                return ('S', P_atom('eta'))
            return None
        I = LF(F, E, f, atoms)
        two_w0sq_m1 = P_add(P_mul(P_const(2), P_mul(P_atom('w0'), P_atom('w0'))), P_neg(P_const(1)))
        rules = [({'s': 2}, P_const(2))]
        dense = [(val, ret, st) for val, ret, st in I.run({}, local_stores=True) if any(k == 'discr(self.sparse_data)' and v != 1 for k, v in val.items())]
        R.check(len(dense) >= 3, 'dense-paths' + tag, 'only %d paths of the dense branch analysed' % len(dense), f.loc())
        seen_inner = seen_exit = False
        for val, ret, st in dense:
            colk = [k for k in val if k.startswith('discr(next(into_iter(Range::Range(')]
            R.check(bool(colk) and all(k.startswith('discr(next(into_iter(Range::Range(1_usize, self.dim)') for k in colk), 'columns-from-1' + tag,
                    'the generic column loop runs over %s: column 0 holds the single entry 2 w0^2 - 1 (J contributes -1 there, +1 on every later '
                    'diagonal), so the loop must start at column 1' % [k[5:60] for k in colk], f.loc())
            h0 = st.get('arg2[0_usize]')
            ok0 = h0 is not None and h0[0] == 'S' and P_reduce(h0[1], rules) == two_w0sq_m1
            R.check(ok0, 'entry-00' + tag, 'entry (0,0) of the dense block is %s, expected 2 w0^2 - 1' % (P_fmt(P_reduce(h0[1], rules)) if h0 is not None and h0[0] == 'S' else h0), f.loc())
            v = st.get('arg2[var:hidx]')
            if v is not None:
                seen_inner = True
                R.check(v[0] == 'S' and v[1] == P_mul(P_const(2), P_mul(P_atom('wr'), P_atom('wc'))), 'entry-rc' + tag,
                        'entry (r,c) is %s, expected 2 w_r w_c' % (P_fmt(v[1]) if v[0] == 'S' else v), f.loc())
        wk = Walker(f, cut_loops=True).leaves()
        n_diag = 0
        for val, ret, ev, tr in wk:
            if not any(k == 'discr(self.sparse_data)' and v != 1 for k, v in val.items()):
                continue
            inner = [k for k in val if re.match(r'discr\(next\(into_iter\((new|RangeInclusive::new)\(0_usize, ', k)]
            adds = [str(e[2]) for e in ev if e[0] == 'call' and e[1] in ('add_assign', 'sub_assign')]
            if inner and val[inner[0]] == 0:
                n_diag += 1
                R.check(adds == ['add_assign(arg2[subwithoverflow(var:hidx, 1_usize).0], one())'], 'diagonal-plus-one' + tag,
                        'after a column the block receives %s, expected += 1 on the diagonal entry just written (the -J term is +1 for every index >= 1)' % adds, f.loc())
            else:
                R.check(not adds, 'diagonal-plus-one|elsewhere' + tag, 'an offset %s is applied outside the end of a column' % adds, f.loc())
            if inner:
                R.check(all(k.startswith('discr(next(into_iter(new(0_usize, next(into_iter(Range::Range(') or 'var:col' in k for k in inner), 'rows-0-to-col' + tag,
                        'rows of a column run over %s, expected 0..=col' % [k[:80] for k in inner], f.loc())
            if ret[0] == 's':
                sc = [str(e[2]) for e in ev if e[0] == 'call' and e[1] == 'scale']
                seen_exit = True
                R.check(sc == ['scale(arg2, mul(self.η, self.η))'], 'eta-squared' + tag, 'the dense block is finished with %s, expected scale by eta^2' % sc, f.loc())
        R.check(seen_inner and seen_exit and n_diag >= 1, 'coverage' + tag, 'inner store %s, exit %s, diagonal paths %d' % (seen_inner, seen_exit, n_diag), f.loc())
        hs = [canon(f.sym_rvalue(st['rv'])).replace('withoverflow', '').replace(').0', ')') for bi, si, st in f.assignments() if not st['p']['p'] and f.local_name(st['p']['l']) == 'hidx']
        R.check(sorted(hs) == ['1_usize', 'add(var:hidx, 1_usize)'], 'packing-cursor' + tag, 'hidx is updated by %s, expected start 1 and +1 per stored entry' % hs, f.loc())

    R.guard(body)


def soc_identity_expansion(rep, ctx, cfg, tag):
    """At identity scaling (the factorisation that produces the starting point of a symmetric problem) the sparse-expanded block must
    represent W'W = I: with D = diag(d, 1, .., 1), D + u u' - v v' = I, i.e. d + u0^2 - v0^2 = 1 and zero tails; w = (1, 0), eta = 1.
    Two valid encodings exist (d = 1, u = 0 and d = 1/2, u0 = 1/sqrt 2); mixing them writes diag(1.5, 1, ..) into the KKT matrix."""
    R = rep.rule('C13.R11', 'second-order cone, identity scaling: w = (1, 0), eta = 1 and the sparse expansion satisfies d + u0^2 - v0^2 = 1 with zero tails')

    def body():
        from engine.linform import P_reduce
        F = ctx.facts(cfg)
        f = F.one(name='set_identity_scaling', adt=SOC, trait='Cone')

        def val_of(t):
            t = str(t)
            if t == 'one()':
                return P_const(1)
            if t == 'zero()':
                return {}
            if t == 'FRAC_1_SQRT_2()':
                return P_atom('h')
            if t == 'SQRT_2()':
                return P_atom('r2')
            m = _re.fullmatch(r'(-?\d+(?:\.\d+)?)(f64|f32)?', t)
            if m:
                return P_const(Fraction(m.group(1)))
            return None
        rules = [({'h': 2}, P_const(Fraction(1, 2))), ({'r2': 2}, P_const(2))]
        seen = set()
        for val, ret, ev, tr in Walker(f, cut_loops=True).leaves():
            if ret[0] == 'diverge':
                continue
            sparse = any('sparse_data' in k and v == 1 for k, v in val.items())
            stv = {}
            order_ok = True
            for e in ev:
                if e[0] == 'call' and e[1] in ('fill', 'set'):
                    a = split_args(str(e[2]))
                    stv[a[0] + '[..]'] = val_of(a[1])
                    stv.pop(a[0] + '[0]', None)      # a later fill overwrites the head
                elif e[0] == 'store':
                    t = str(e[1])
                    m = _re.fullmatch(r'index_mut\((.*), 0_usize\)', t)
                    if m:
                        stv[m.group(1) + '[0]'] = val_of(e[2])
                    else:
                        stv[t] = val_of(e[2])

            def head(v):
                return stv.get(v + '[0]', stv.get(v + '[..]'))
            seen.add(sparse)
            kind = 'sparse' if sparse else 'dense'
            R.check(head('self.w') == P_const(1) and stv.get('self.w[..]') == {} and stv.get('self.η') == P_const(1), 'w-eta|%s%s' % (kind, tag),
                    'identity scaling leaves w = (%s, %s), eta = %s; expected (1, 0), 1' % (head('self.w'), stv.get('self.w[..]'), stv.get('self.η')), f.loc())
            if sparse:
                pre = [k[:-len('.d')] for k in stv if k.endswith('.d')]
                if not R.check(len(pre) == 1, 'd-written' + tag, 'the sparse branch writes d %d times' % len(pre), f.loc()):
                    continue
                b = pre[0]
                d, u0, v0 = stv.get(b + '.d'), head(b + '.u'), head(b + '.v')
                ut, vt = stv.get(b + '.u[..]'), stv.get(b + '.v[..]')
                ok = None not in (d, u0, v0) and ut == {} and vt == {}
                if ok:
                    lhs = P_reduce(P_add(P_add(d, P_mul(u0, u0)), P_mul(v0, v0), -1), rules)
                    ok = lhs == P_const(1)
                R.check(ok, 'expansion-is-identity' + tag,
                        'identity scaling sets d = %s, u = (%s, %s), v = (%s, %s): the expanded block D + u u\' - v v\' is the identity only if d + u0^2 - v0^2 = 1 and the tails '
                        'are zero (d = 1/2 with u0 = 1/sqrt 2, or d = 1 with u0 = 0)' % tuple(P_fmt(x) if isinstance(x, dict) else x for x in (d, u0, ut, v0, vt)), f.loc())
        R.check(seen == {True, False}, 'branches' + tag, 'set_identity_scaling branches seen: %s' % sorted(seen), f.loc())

    R.guard(body)


def soc_interior_test(rep, ctx, cfg, tag):
    """The scaling exists for every interior pair: _sqrt_soc_residual decides interiority by residual > 0 exactly.  The residual scales
    with the square of the point, so any absolute tolerance rejects small interior points (z of the order of mu near convergence)."""
    R = rep.rule('C13.R12', 'second-order cone: the interior test of the scaling update is residual > 0 exactly (no absolute tolerance)')

    def body():
        F = ctx.facts(cfg)
        f = F.one(name='_sqrt_soc_residual')
        rows = set()
        for val, ret, ev, tr in Walker(f).leaves():
            if ret[0] not in ('s', 'c'):
                continue
            ks = [k for k in val if k[:3] in ('lt(', 'le(')]
            R.check(ks == ['lt(zero(), _soc_residual(arg1))'], 'threshold' + tag,
                    '_sqrt_soc_residual tests %s, expected residual > 0: the residual is homogeneous of degree 2, an absolute threshold rejects strictly interior points of small norm '
                    'and update_scaling then fails (NumericalError) near convergence' % ks, f.loc())
            if ks:
                rows.add((val[ks[0]], str(ret[1])))
        R.check(rows == {(1, 'sqrt(_soc_residual(arg1))'), (0, 'zero()')}, 'table' + tag, '_sqrt_soc_residual returns %s' % sorted(rows), f.loc())

    R.guard(body)


def corrector_assembly(rep, F, tag):
    """"the affine and corrector terms obey their algebraic definitions": d.s = lambda o lambda + M (W^-1 ds o W dz) - sigma mu e.  The shift returned by
    combined_ds_shift already contains the centring term - sigma mu e, so the Mehrotra factor M may enter only through one of the two affine directions
    *before* the shift is formed (the shift is bilinear in them); the shift is then added to the affine right-hand side with both coefficients one."""
    R = rep.rule('C13.R13', 'combined_step_rhs: M scales exactly one affine direction before combined_ds_shift (iff M != 1); the shift (with its - sigma mu e) is added to d.s with coefficient one')

    def body():
        fs = [x for x in F.find(name='combined_step_rhs') if 'DefaultVariables' in (x.impl_self or '')]
        if len(fs) != 1:
            raise AnchorError('DefaultVariables::combined_step_rhs matched %d functions' % len(fs))
        f = fs[0]
        n = 0
        for val, ret, ev, tr in Walker(f, cut_loops=True, local_stores=True).leaves():
            if ret[0] == 'diverge':
                continue
            n += 1
            calls = [(e[1], str(e[2])) for e in ev if e[0] == 'call']
            sh = [i for i, c in enumerate(calls) if c[0] == 'combined_ds_shift']
            if not R.check(len(sh) == 1, 'one-shift' + tag, '%d calls of combined_ds_shift on a path' % len(sh), f.loc()):
                continue
            i0 = sh[0]
            a = split_args(calls[i0][1])
            R.check(a[1:] == ['self.z', 'arg5.z', 'arg5.s', 'mul(arg6, arg7)'] or a[1:] == ['self.z', 'arg5.z', 'arg5.s', 'mul(arg7, arg6)'], 'shift-args' + tag,
                    'combined_ds_shift(%s), expected (shift = d.z as work, step.z, step.s, sigma*mu)' % ', '.join(x[:20] for x in a[1:]), f.loc())
            scaled = [c[1] for c in calls[:i0] if c[0] == 'scale' and split_args(c[1])[0] in ('arg5.z', 'arg5.s')]
            late = [c[1] for c in calls[i0 + 1:] if c[0] in ('scale', 'axpby', 'hadamard') and 'arg8' in c[1]]
            R.check(not late, 'm-after-shift' + tag, 'the Mehrotra factor M is applied after the shift has been formed (%s): the shift contains the centring term - sigma mu e, which must '
                    'not be scaled by M' % [x[:60] for x in late], f.loc())
            m_is_one = [v for k, v in val.items() if k in ('ne(arg8, one())', 'ne(one(), arg8)')] + [1 - v for k, v in val.items() if k in ('eq(arg8, one())', 'eq(one(), arg8)')]
            if m_is_one and m_is_one[0] == 0:
                R.check(not scaled, 'm-one-no-scale' + tag, 'with M == 1 a direction is scaled: %s' % scaled, f.loc())
            else:
                R.check(len(scaled) == 1 and split_args(scaled[0])[1] == 'arg8', 'm-scales-one-direction' + tag,
                        'with M != 1 the directions scaled before the shift are %s: exactly one of step.z / step.s must be scaled by M (the correction is bilinear in them)' % [x[:40] for x in scaled], f.loc())
            acc = [c[1] for c in calls[i0 + 1:] if c[0] in ('axpby', 'axpy', 'add_assign') and split_args(c[1])[0] == 'self.s']
            R.check(acc in (['axpby(self.s, one(), self.z, one())'],), 'shift-added-once' + tag,
                    'the shift is accumulated into d.s by %s, expected d.s = 1 * shift + 1 * d.s' % [x[:60] for x in acc], f.loc())
        R.check(n >= 1, 'paths' + tag, 'no path of combined_step_rhs analysed')

    R.guard(body)


def run(ctx, rep, tier):
    for cfg in (CONFIGS_THOROUGH if tier == 'thorough' else CONFIGS):
        tag = '' if cfg == 'default' else '[%s]' % cfg
        nn_identities(rep, ctx, cfg, tag)
        shared_utilities(rep, ctx, cfg, tag)
        soc_algebra(rep, ctx, cfg, tag)
        soc_normalisation(rep, ctx, cfg, tag)
        psd_words(rep, ctx, cfg, tag)
        reset_completeness(rep, ctx, cfg, tag)
        soc_sparse_expansion(rep, ctx, cfg, tag)
        composite_slices(rep, ctx.facts(cfg), tag)
        soc_dense_block(rep, ctx, cfg, tag)
        soc_identity_expansion(rep, ctx, cfg, tag)
        soc_interior_test(rep, ctx, cfg, tag)
        corrector_assembly(rep, ctx.facts(cfg), tag)
    from . import c11
    F, E = ctx.facts('default'), ctx.eff('default')
    c11.one_scaling_state(_Ren(rep, 'C11.R5', 'C13.R3'), F, E, '')


class _Ren:
    def __init__(self, rep, old, new):
        self.rep, self.old, self.new = rep, old, new
        self.assumptions = rep.assumptions

    def rule(self, rid, desc):
        return self.rep.rule(self.new if rid == self.old else rid, desc)
