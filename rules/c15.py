"""C15 -- cone step lengths are safe and tight (structural clauses)"""
from . import steplen
from . import c14

CONFIGS = ['default', 'full']
TECHNIQUE = 'min-lattice dataflow over MIR (result <= requested maximum), path/decision-table rules, sibling agreement of the three backtracking cones'
EXPLANATION = (
    "Exactness / tightness of the step lengths and strict interiority after margins/shifts are numerical and NOT "
    "decided. Decided on the MIR of the current tree, for all inputs: (R1) 'never exceeds the requested maximum': "
    "every Cone::step_length implementation (7 cone types + composite + enum dispatch) returns values derived from "
    "its alpha_max argument only through min(alpha_max-derived, .), selection, literal zero, or multiplication by "
    "the backtracking factor; (R2) the composite runs two complementary passes so every cone limits the step exactly once, and caps by max_step_fraction iff some cone is nonsymmetric (no pass order is demanded: either satisfies the property, and the pinned code runs the nonsymmetric cones first, contrary to its comment); (R3) the SOC routine's "
    "explicit panic is dead by c = max(0,.); (R4) the nonsymmetric cones search (dz,z) with the dual and (ds,s) "
    "with the primal membership test and agree with their siblings on (alpha_init, alpha_min, step); (R5) the "
    "initial shift into the interior is sign-exact: with a component outside its cone the margin is cancelled "
    "first and target = max(1, .) added afterwards, as two separate shifts (a merged or reversed shift rounds the "
    "worst component onto the boundary); composite margin = min over cones, shift forwarded unchanged; (R6) the "
    "second-order cone routine applies the scalar-part cap min(alpha_max, -x0/y0) before every return, including the "
    "three early exits of the root computation; (R7) in the degenerate case a == 0 the single root -c/b limits the step when "
    "b < 0 (finding F6, fixed); (R8) the power cone's membership tests used by the backtracking search are even in the "
    "third coordinate (the cone is symmetric under s3 -> -s3), as are its barrier, gradient and Hessian parities; (R9) membership "
    "tests hold the sign conditions of the cone; (R10) the margins that drive the initial shift are the documented functions "
    "(SOC: z0 - |z[1..]| over the whole tail)."
    " (R11) backtrack_search returns zero (only below the floor) or the alpha whose trial point has just passed the membership test - no untested exit."
    " (R12) nonnegative-cone ratio test: component i limits the step iff its direction is < 0 exactly (no tolerance, no <=), by -z_i/dz_i; same for s."
    " (R13) the quadratic root of the second-order cone step length is formed without cancellation (t = -b - sqrt(d) iff b >= 0)."
    ' R11 also: zero is returned only after at least one trial point failed the membership test (the requested step itself is always tried).'
    ' R10 also: the tail of the second-order cone is measured with the Euclidean norm.')
ASSUMPTIONS = [
    'rustc MIR construction and trait resolution are correct',
    'alpha_max >= 0; 0 <= linesearch_backtrack_step <= 1 (settings are not validated by the crate)',
    'T::min has its documented meaning',
]


def run(ctx, rep, tier):
    for cfg in CONFIGS:
        F = ctx.facts(cfg)
        E = ctx.eff(cfg)
        tag = '' if cfg == 'default' else '[%s]' % cfg
        steplen.cone_step_lengths(rep, F, E, tag, 'C15.R1')
        steplen.composite_order(rep, F, tag, 'C15.R2')
        steplen.soc_dead_panic(rep, F, tag, 'C15.R3')
        steplen.backtrack_pairing(rep, F, tag, 'C15.R4')
        steplen.interior_shift(rep, F, tag, 'C15.R5')
        steplen.soc_scalar_cap(rep, F, tag, 'C15.R6')
        steplen.soc_linear_case(rep, F, tag, 'C15.R7')
        c14.reflection_symmetry(rep, F, E, tag, 'C15.R8')
        c14.membership_guards(rep, F, tag, 'C15.R9')
        steplen.margins_definitions(rep, F, E, tag, 'C15.R10')
        steplen.backtrack_validated(rep, F, tag, 'C15.R11')
        steplen.nn_ratio_test(rep, F, tag, 'C15.R12')
        steplen.soc_stable_root(rep, F, tag, 'C15.R13')
        from . import c14 as _c14b, c04 as _c04b
        _c14b.membership_definitions(_c04b._Ren(rep, 'C14.R14', 'C15.R14'), F, E, tag)
