"""helpers shared by the per-property rule modules"""
from engine.mir import last_seg, show, AnchorError
from engine.effects import IDX, fmt_path
from engine.preds import canon


def calls_named(f, name):
    return [c for c in f.calls if c.callee.name == name]


def one_call(f, name):
    cs = calls_named(f, name)
    if len(cs) != 1:
        raise AnchorError('%d calls to %s in %s (expected 1)' % (len(cs), name, f.key))
    return cs[0]


def region_between(f, a, b, avoid=()):
    """blocks lying on some path a ->* b that does not pass through `avoid` blocks
    (a and b included)"""
    av = set(avoid) - {a, b}
    fw = set()
    st = [a]
    while st:
        x = st.pop()
        if x in fw:
            continue
        fw.add(x)
        if x == b:
            continue
        for s in f.succ[x]:
            if s not in av:
                st.append(s)
    bw = set()
    st = [b]
    while st:
        x = st.pop()
        if x in bw:
            continue
        bw.add(x)
        if x == a:
            continue
        for p in f.pred[x]:
            if p not in av:
                st.append(p)
    return fw & bw


def chain_has(ch, owner=None, field=None):
    for e in ch:
        if e == IDX:
            continue
        if (owner is None or e[0] == owner) and (field is None or e[1] == field):
            return True
    return False


def block_write_sites(E, f, blocks, pred, skip_calls=()):
    """(bb, loc, what, path) for every statement / call in `blocks` whose write effects
    contain a path satisfying pred(root, chain)"""
    out = []
    for bi in sorted(blocks):
        b = f.blocks[bi]
        for st in b['s']:
            if 'p' in st and 'rv' in st and st['p']['p']:
                for r, ch in E.aps(f, f.sym_place(st['p'])):
                    if pred(r, ch):
                        out.append((bi, f.loc(st['sp']), 'assign', (r, ch)))
        c = f.call_at.get(bi)
        if c is not None and c.callee.name not in skip_calls:
            w, _ = E.call_effects(f, c)
            d = c.dest
            if d['p']:
                for p in E.aps(f, f.sym_place(d)):
                    w.add(p)
            for r, ch in w:
                if pred(r, ch):
                    out.append((bi, f.loc(c.sp), 'call ' + c.callee.name, (r, ch)))
    return out


def const_variant(sym):
    """'Variant' if sym is a fieldless enum aggregate constant"""
    s = sym
    while s[0] in ('ref', 'deref'):
        s = s[1]
    if s[0] == 'agg' and s[1][0] == 'adt':
        return s[1][2]
    return None


def adt_constructions(F, adt_short, variant=None, skip_expansion=True):
    """(fn, bb, span) of every aggregate construction of adt[::variant] in the crate, promoted
    constants included"""
    out = []
    for f in F.fns:
        if skip_expansion and (f.impl_exp or f.from_expansion):
            continue
        bodies = [f] + list(f.promoted)
        for body in bodies:
            for bi, si, st in body.assignments():
                rv = st['rv']
                if rv['k'] == 'agg' and rv['ak']['a'] == 'adt':
                    if last_seg(rv['ak']['adt'].split('<')[0]) == adt_short or last_seg(
                            __import__('engine.mir', fromlist=['strip_generics']).strip_generics(rv['ak']['adt'])) == adt_short:
                        if variant is None or rv['ak']['variant'] == variant:
                            out.append((f, bi, st['sp'], rv['ak']['variant']))
    return out


def short(key):
    """human-short function name for messages"""
    k = key.split('#')[0]
    if k.startswith('<') and ' as ' in k:
        ty = k[1:k.index(' as ')]
        rest = k[k.index('>::') + 3:] if '>::' in k else ''
        return '%s::%s' % (last_seg(ty), rest)
    parts = k.split('::')
    return '::'.join(parts[-2:])


WRAPPERS = {'Option', 'Box', 'Unique', 'NonNull', 'Result', 'ManuallyDrop', 'MaybeUninit'}


def norm_chain(ch):
    """drop index steps and std wrapper projections (Option payload, Box pointer ...)"""
    return tuple(e for e in ch if e != IDX and e[0] not in WRAPPERS)


def split_args(k):
    """top-level arguments of a canonical call string  f(a, g(b, c), d)"""
    inner = k[k.index('(') + 1:-1]
    out = []
    d = 0
    cur = ''
    for ch in inner:
        if ch in '([':
            d += 1
        elif ch in ')]':
            d -= 1
        if ch == ',' and d == 0:
            out.append(cur.strip())
            cur = ''
        else:
            cur += ch
    if cur.strip():
        out.append(cur.strip())
    return out


def resolve_path_locals(f, text, tr, depth=0):
    """replace `var:name` (a local assigned on several branches) in a canonical text by the value it is given on the path `tr` (list of
    block ids): the one assignment among the visited blocks.  Left untouched when the path assigns it more than once or not at all."""
    import re as _re
    from engine.preds import canon as _canon
    if depth > 3:
        return text
    out = text
    for mm in set(_re.findall(r'var:(\w+)', text)):
        ls = [i for i, l in enumerate(f.locals) if l['n'] == mm or '_%d' % i == mm]
        got = []
        for bi, si, st in f.assignments():
            if bi in tr and not st['p']['p'] and st['p']['l'] in ls:
                got.append(_canon(f.sym_rvalue(st['rv'])))
        c = f.call_at
        for b in tr:
            cc = c.get(b)
            if cc is not None and not cc.dest['p'] and cc.dest['l'] in ls:
                got.append(_canon(('call', cc.callee.name, tuple(f.sym_operand(a) for a in cc.args), cc.bb)))
        if len(got) == 1 and ('var:' + mm) not in got[0]:
            out = _re.sub(r'var:%s\b' % _re.escape(mm), got[0].replace('\\', '\\\\'), out)
    if out != text and 'var:' in out:
        return resolve_path_locals(f, out, tr, depth + 1)
    return out
