"""Signed linear-form rules: residual definitions (C01.R7 / C02.R5) and reported-figure formulas (C03.R2)."""
from fractions import Fraction
from engine.linform import *
from engine.preds import canon
from .common import *

HALF = Fraction(1, 2)


def V_(a):
    return ('V', L_atom(a))


def S_(a):
    return ('S', P_atom(a))


def residual_forms(R, ctx, cfg, tag):
    F, E = ctx.facts(cfg), ctx.eff(cfg)
    f = F.one(name='update', adt='DefaultResiduals')
    table = {'arg2.x': V_('x'), 'arg2.s': V_('s'), 'arg2.z': V_('z'), 'arg2.τ': S_('τ'), 'arg2.κ': S_('κ'),
             'arg3.q': V_('q'), 'arg3.b': V_('b'), 'arg3.P': ('M', 'P'), 'arg3.A': ('M', 'A')}
    I = LF(F, E, f, lambda k, s: table.get(k))
    rows = I.run()
    R.check(len(rows) == 1, 'paths' + tag, '%d paths through Residuals::update' % len(rows))
    x, s, z, q, b = (L_atom(v) for v in 'xszqb')
    tau, kap = P_atom('τ'), P_atom('κ')
    Px = L_apply('P', x)
    Atz = L_apply('At', z)
    Ax = L_apply('A', x)
    want = {
        'Px': ('V', Px),
        'rx_inf': ('V', L_scale(Atz, P_const(-1))),
        'rz_inf': ('V', L_add(Ax, s)),
        'rx': ('V', L_add(L_add(L_scale(Px, P_const(-1)), L_scale(Atz, P_const(-1))), L_scale(q, P_neg(tau)))),
        'rz': ('V', L_add(L_add(Ax, s), L_scale(b, P_neg(tau)))),
        'dot_qx': ('S', L_dot(q, x)), 'dot_bz': ('S', L_dot(b, z)), 'dot_sz': ('S', L_dot(s, z)), 'dot_xPx': ('S', L_dot(x, Px)),
        'rτ': ('S', P_add(P_add(P_add(L_dot(q, x), L_dot(b, z)), kap), P_mul(L_dot(x, Px), P_inv(tau)))),
    }
    names = {'Px': 'P x', 'rx_inf': '-A\'z', 'rz_inf': 'A x + s', 'rx': '-P x - A\'z - tau q', 'rz': 'A x + s - tau b', 'dot_qx': 'q\'x', 'dot_bz': 'b\'z',
             'dot_sz': 's\'z', 'dot_xPx': 'x\'P x', 'rτ': 'q\'x + b\'z + kappa + x\'Px/tau'}
    for val, ret, st in rows:
        for fld, w in want.items():
            got = st.get('self.%s' % fld)
            ok = got is not None and got[0] == w[0] and got[1] == w[1]
            R.check(ok, 'definition|%s%s' % (fld, tag),
                    'Residuals::update computes %s = %s, the definition is %s' % (
                        fld, (L_fmt(got[1]) if got and got[0] == 'V' else (P_fmt(got[1]) if got else '?')), names[fld]), f.loc())


def report_forms(R, ctx, cfg, tag, which=('cost', 'res', 'inf')):
    F, E = ctx.facts(cfg), ctx.eff(cfg)
    f = F.one(name='update', adt='DefaultInfo')
    table = {'arg3.x': V_('x'), 'arg3.s': V_('s'), 'arg3.z': V_('z'), 'arg3.τ': S_('τ'), 'arg3.κ': S_('κ'),
             'arg2.equilibration.d': V_('d'), 'arg2.equilibration.e': V_('e'), 'arg2.equilibration.dinv': V_('dinv'),
             'arg2.equilibration.einv': V_('einv'), 'arg2.equilibration.c': S_('c'),
             'get_normb(arg2)': S_('normb'), 'get_normq(arg2)': S_('normq')}
    for fld in ('rx', 'rz', 'rx_inf', 'rz_inf', 'Px'):
        table['arg4.%s' % fld] = V_(fld)
    for fld in ('dot_qx', 'dot_bz', 'dot_sz', 'dot_xPx'):
        table['arg4.%s' % fld] = S_(fld)
    I = LF(F, E, f, lambda k, s: table.get(k))
    rows = I.run()
    # the linear-form domain writes every vector norm as one atom; the documented figures are Euclidean norms of the scaled vectors, so the kind of
    # norm is checked on the call list (an infinity norm understates the residual by up to sqrt(m))
    kinds = sorted(set(c.callee.name for c in f.calls if c.callee.name.startswith(('norm', 'sumsq', 'maximum', 'minimum'))))
    R.check(kinds == ['norm_scaled'], 'euclidean-norms' + tag, 'Info::update measures vectors with %s: the reported residuals and their normalisers are 2-norms of the un-equilibrated '
            'vectors (norm_scaled)' % kinds, f.loc())
    tinv = P_inv(P_atom('τ'))
    cinv = P_inv(P_atom('c'))
    one = P_const(1)

    def nrm(v, w):
        return P_atom(('norm', L_key(L_atom(v)), L_key(L_atom(w))))

    def mx(a, b):
        ks = sorted([P_key(a), P_key(b)], key=str)
        return P_atom(('max', ks[0], ks[1]))

    def mn(a, b):
        ks = sorted([P_key(a), P_key(b)], key=str)
        return P_atom(('min', ks[0], ks[1]))

    def ab(a):
        from engine.linform import P_abs_atom
        return P_abs_atom(a)
    xPx2 = P_mul(P_mul(P_atom('dot_xPx'), P_mul(tinv, tinv)), P_const(HALF))
    cp = P_mul(P_add(P_mul(P_atom('dot_qx'), tinv), xPx2), cinv)
    cd = P_mul(P_add(P_neg(P_mul(P_atom('dot_bz'), tinv)), xPx2, -1), cinv)
    gap = ab(P_add(cp, cd, -1))
    normx, norms = nrm('x', 'd'), nrm('s', 'einv')
    normz = P_mul(nrm('z', 'e'), cinv)
    want = {}
    if 'cost' in which:
        want.update({
            'cost_primal': (cp, '(q\'x/tau + x\'Px/(2 tau^2))/c'),
            'cost_dual': (cd, '(-b\'z/tau - x\'Px/(2 tau^2))/c'),
            'gap_abs': (gap, '|cost_primal - cost_dual|'),
            'gap_rel': (P_mul(gap, P_inv(mx(one, mn(ab(cp), ab(cd))))), 'gap_abs / max(1, min(|cost_primal|, |cost_dual|))'),
        })
    if 'res' in which:
        want.update({
            'res_primal': (P_mul(P_mul(nrm('rz', 'einv'), tinv), P_inv(mx(one, P_add(P_add(P_atom('normb'), P_mul(normx, tinv)), P_mul(norms, tinv))))),
                           '|E^-1 rz|/tau / max(1, |b| + |x| + |s|)'),
            'res_dual': (P_mul(P_mul(P_mul(nrm('rx', 'dinv'), tinv), cinv), P_inv(mx(one, P_add(P_add(P_atom('normq'), P_mul(normx, tinv)), P_mul(normz, tinv))))),
                         '|D^-1 rx|/(tau c) / max(1, |q| + |x| + |z|)'),
            'ktratio': (P_mul(P_atom('κ'), tinv), 'kappa/tau'),
        })
    if 'inf' in which:
        want.update({
            'res_primal_inf': (P_mul(P_mul(nrm('rx_inf', 'dinv'), cinv), P_inv(mx(one, normz))), '|D^-1 A\'z|/c / max(1, |z|)'),
            'res_dual_inf': (mx(P_mul(nrm('Px', 'dinv'), P_inv(mx(one, normx))), P_mul(nrm('rz_inf', 'einv'), P_inv(mx(one, P_add(normx, norms))))),
                             'max(|D^-1 Px|/max(1,|x|), |E^-1(Ax+s)|/max(1,|x|+|s|))'),
        })
    R.check(len(rows) == 1, 'report-paths' + tag, '%d paths through Info::update' % len(rows))
    for val, ret, st in rows:
        for fld, (w, txt) in want.items():
            got = st.get('self.%s' % fld)
            ok = got is not None and got[0] == 'S' and got[1] == w
            R.check(ok, 'formula|%s%s' % (fld, tag),
                    'Info::update computes %s = %s; the documented figure is %s' % (fld, P_fmt(got[1])[:300] if got else '?', txt), f.loc())
