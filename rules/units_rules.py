"""units abstract interpretation rules (filled in later)"""


def c01(ctx, rep):
    pass
