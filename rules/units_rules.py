"""Units (change-of-variables) rules: C01.R5-R7, C02.R4, C03.R2, C08.R3, C10.R1, C19.R1u.

Oracle (from the crate documentation  min 1/2 x'Px + q'x  s.t. Ax + s = b, and the
equilibration comments, NOT from the code under test):
    internal P = c D P D, q = c D q, A = E A D, b = E b
    internal x = D^-1 x, s = E s, z = c E^-1 z; (x,s,z,tau,kappa) homogeneous of degree 1 (h)
"""
from fractions import Fraction
from engine.mir import last_seg, strip_generics, AnchorError
from engine.preds import canon, Walker
from engine.units import Interp, U, S, V, M, ONE, TOP, umul, upow, ufmt, vfmt, elem_unit
from .common import *

D, E_, C, H = 'd', 'e', 'c', 'h'

DECL = {
    ('DefaultProblemData', 'P'): M(U(d=1), U(d=1), U(c=1)),
    ('DefaultProblemData', 'q'): V(U(d=1, c=1)),
    ('DefaultProblemData', 'A'): M(U(e=1), U(d=1), ONE),
    ('DefaultProblemData', 'b'): V(U(e=1)),
    ('DefaultProblemData', 'normq'): S(ONE),
    ('DefaultProblemData', 'normb'): S(ONE),
    ('DefaultEquilibrationData', 'd'): V(U(d=1)),
    ('DefaultEquilibrationData', 'dinv'): V(U(d=-1)),
    ('DefaultEquilibrationData', 'e'): V(U(e=1)),
    ('DefaultEquilibrationData', 'einv'): V(U(e=-1)),
    ('DefaultEquilibrationData', 'c'): S(U(c=1)),
    ('DefaultVariables', 'x'): V(U(d=-1, h=1)),
    ('DefaultVariables', 's'): V(U(e=1, h=1)),
    ('DefaultVariables', 'z'): V(U(e=-1, c=1, h=1)),
    ('DefaultVariables', 'τ'): S(U(h=1)),
    ('DefaultVariables', 'κ'): S(U(c=1, h=1)),
    ('DefaultResiduals', 'rx'): V(U(d=1, c=1, h=1)),
    ('DefaultResiduals', 'rz'): V(U(e=1, h=1)),
    ('DefaultResiduals', 'rτ'): S(U(c=1, h=1)),
    ('DefaultResiduals', 'rx_inf'): V(U(d=1, c=1, h=1)),
    ('DefaultResiduals', 'rz_inf'): V(U(e=1, h=1)),
    ('DefaultResiduals', 'Px'): V(U(d=1, c=1, h=1)),
    ('DefaultResiduals', 'dot_qx'): S(U(c=1, h=1)),
    ('DefaultResiduals', 'dot_bz'): S(U(c=1, h=1)),
    ('DefaultResiduals', 'dot_sz'): S(U(c=1, h=2)),
    ('DefaultResiduals', 'dot_xPx'): S(U(c=1, h=2)),
}
UNITFREE_OWNERS = {'DefaultSettings', 'CoreSettings', 'DefaultInfo', 'DefaultSolution'}


def decl(owner, field, key):
    v = DECL.get((owner, field))
    if v is not None:
        return v
    if owner in UNITFREE_OWNERS:
        return S(ONE)
    return None


def ret_value(I, st, tr):
    f = I.f
    out = None
    for b in tr:
        for s_ in f.blocks[b]['s']:
            if 'p' in s_ and 'rv' in s_ and s_['p']['l'] == 0 and not s_['p']['p']:
                out = I.ev(st, f.sym_rvalue(s_['rv']))
        c = f.call_at.get(b)
        if c is not None and not c.dest['p'] and c.dest['l'] == 0:
            out = I.call_value(st, ('call', c.callee.target_key or '?', tuple(f.sym_operand(a) for a in c.args), b), 0)
    return out


def report_findings(R, I, f, tag, allow_classes=('U-DE', 'U-C'), prefix=''):
    seen = set()
    for fd in I.findings:
        if fd.kind not in allow_classes:
            continue
        k = '%s%s|%s%s' % (prefix, short(f.key), fd.key, tag)
        if k in seen:
            continue
        seen.add(k)
        R.bad(k, fd.msg, f.loc())
    I.findings = []


# ---------------------------------------------------------------------------
# generic multiplicative summaries of crate-local helpers
# ---------------------------------------------------------------------------

class Summaries:
    def __init__(self, F, E):
        self.F, self.E = F, E
        self.cache = {}

    def placeholders(self, f):
        init = {}
        for i in range(1, f.argc + 1):
            ty = f.local_ty(i)
            key = 'self' if f.local_name(i) == 'self' else 'arg%d' % i
            if 'CscMatrix' in ty:
                init[key] = M({('$r', i): 1}, {('$c', i): 1}, {('$s', i): 1})
            elif 'Option<' in ty:
                init[key] = S({('$', i): 1}) if '[' not in ty and 'Vec' not in ty else V({('$', i): 1})
            elif '[' in ty or 'Vec<' in ty:
                init[key] = V({('$', i): 1})
            elif ty in ('T', 'f64', 'f32', '&T'):
                init[key] = S({('$', i): 1})
        return init

    def get(self, key):
        if key in self.cache:
            return self.cache[key]
        self.cache[key] = None
        f = self.F.by_key[key][0]
        I = Interp(self.F, self.E, f, decl)
        self.install(I)
        init = self.placeholders(f)
        rows = []
        for val, ret, st in I.run(init):
            rows.append((val, {k: st.get(k) for k in init}, None))
        self.cache[key] = (f, init, rows, list(I.findings))
        return self.cache[key]

    def install(self, I):
        I.inline_effects = _InlineEffects(self, I)
        I.inline = _InlineValues(self, I)


def subst(val, env):
    """replace placeholder symbols by caller units"""
    if val is None:
        return None

    def su(u):
        out = {}
        for k, x in u.items():
            if isinstance(k, tuple) and k[0] in ('$', '$r', '$c', '$s'):
                r = env.get(k)
                if r is None:
                    return None
                out = umul(out, r, 1, x)
            else:
                out = umul(out, {k: x})
        return out
    if val[0] in ('S', 'V'):
        u = su(val[1])
        return (val[0], u) if u is not None else None
    if val[0] == 'M':
        r, c, s = su(val[1]), su(val[2]), su(val[3])
        if None in (r, c, s):
            return None
        return M(r, c, s)
    return val


class _InlineEffects(dict):
    def __init__(self, summ, I):
        self.summ, self.I = summ, I

    def __contains__(self, key):
        return key in self.summ.F.by_key and self._ok(key)

    def _ok(self, key):
        f = self.summ.F.by_key[key][0]
        return f.dk in ('Fn', 'AssocFn') and not f.from_expansion and len(f.blocks) < 400

    def __getitem__(self, key):
        summ = self.summ

        def eff(I, st, c, args):
            r = summ.get(key)
            if r is None:
                return
            f, init, rows, findings = r
            env = {}
            vals = [I.ev(st, a) for a in args]
            for i, v in enumerate(vals, start=1):
                if v is None:
                    continue
                if v[0] == 'M':
                    env[('$r', i)], env[('$c', i)], env[('$s', i)] = v[1], v[2], v[3]
                elif v[0] in ('S', 'V'):
                    env[('$', i)] = v[1]
            # select rows compatible with known Option discriminants
            sel = []
            for val, final, _ in rows:
                ok = True
                for k, x in val.items():
                    if k.startswith('discr(arg') and k.endswith(')'):
                        try:
                            i = int(k[len('discr(arg'):-1])
                        except ValueError:
                            continue
                        a = canon(args[i - 1])
                        if a.startswith('Option::Some') and x != 1:
                            ok = False
                        if a.startswith('Option::None') and x == 1:
                            ok = False
                if ok:
                    sel.append(final)
            for i, a in enumerate(args, start=1):
                pname = f.local_name(i)
                key_i = 'self' if pname == 'self' else 'arg%d' % i
                if key_i not in init:
                    continue
                ty = f.local_ty(i)
                if not (ty.startswith('&mut') or ty.startswith('*mut')):
                    continue
                outs = [subst(fin.get(key_i), env) for fin in sel]
                if outs and all(o == outs[0] for o in outs):
                    I.set_place(st, a, outs[0])
                else:
                    I.set_place(st, a, TOP)
            I.findings.extend(findings)
        return eff


class _InlineValues(dict):
    def __init__(self, summ, I):
        self.summ, self.I = summ, I

    def __contains__(self, key):
        return key in self.summ.F.by_key and self.summ.F.by_key[key][0].name in ('get_normq', 'get_normb')

    def __getitem__(self, key):
        return lambda I, st, s, depth: S(ONE)


# ---------------------------------------------------------------------------
# rules
# ---------------------------------------------------------------------------

def mk(ctx, cfg, f):
    F, E = ctx.facts(cfg), ctx.eff(cfg)
    I = Interp(F, E, f, decl)
    Summaries(F, E).install(I)
    return I


def residual_definitions(R, ctx, cfg, tag):
    F = ctx.facts(cfg)
    f = F.one(name='update', adt='DefaultResiduals')
    I = mk(ctx, cfg, f)
    rows = I.run({})
    R.check(len(rows) >= 1, 'residuals-paths' + tag, 'no path through Residuals::update')
    for val, ret, st in rows:
        for fld in ('rx', 'rz', 'rτ', 'rx_inf', 'rz_inf', 'Px', 'dot_qx', 'dot_bz', 'dot_sz', 'dot_xPx'):
            got = st.get('self.%s' % fld)
            want = DECL[('DefaultResiduals', fld)]
            R.check(got == want, 'residual|%s%s' % (fld, tag),
                    'Residuals::update leaves %s with unit %s, the definition requires %s (internal coordinates: P~d d c, A~e d, x~1/d, s~e, z~c/e)' % (
                        fld, vfmt(got), vfmt(want)), f.loc())
    report_findings(R, I, f, tag, ('U-DE', 'U-C', 'U-H'), 'combine|')


REPORTED = ('cost_primal', 'cost_dual', 'res_primal', 'res_dual', 'gap_abs', 'gap_rel')


def info_update(R, ctx, cfg, tag, known_prefix='U-C'):
    F = ctx.facts(cfg)
    f = F.one(name='update', adt='DefaultInfo')
    I = mk(ctx, cfg, f)
    finals = []
    for val, ret, st in I.run({}):
        finals.append(st)
        for fld in REPORTED:
            got = st.get('self.%s' % fld)
            R.check(got == S(ONE), 'reported|%s%s' % (fld, tag),
                    'Info::update stores %s with unit %s: the reported figure must be free of the equilibration (d, e, c) and '
                    'of the homogenisation (tau) - it is what the user compares with the tolerances' % (fld, vfmt(got)), f.loc())
        for fld in ('res_primal_inf', 'res_dual_inf'):
            got = st.get('self.%s' % fld)
            u = elem_unit(got)
            de = {k: v for k, v in (u if u is not None else {}).items() if k not in (C, H)}
            R.check(u is not None and not de, 'inf-residual-de|%s%s' % (fld, tag),
                    '%s carries a leftover elementwise scaling: %s' % (fld, vfmt(got)), f.loc())
    # unit mismatches inside the function: elementwise ones are always violations; c-mismatches are reported
    # under their own keys (the infeasibility residual is a recorded known finding); h is checked at the sinks
    for fd in I.findings:
        if fd.kind == 'U-DE':
            R.bad('mix|%s%s' % (fd.key, tag), fd.msg, f.loc())
        elif fd.kind == 'U-C':
            R.bad('U-C|DefaultInfo::update|%s%s' % (fd.key.split('|', 2)[1] + '|' + ('res_dual_inf' if 'Px' in fd.key else fd.key.split('|', 2)[2][:40]), tag), fd.msg, f.loc())
    return finals


def norm_caches(R, ctx, cfg, tag):
    F = ctx.facts(cfg)
    for nm, fld in (('get_normq', 'normq'), ('get_normb', 'normb')):
        f = F.one(name=nm, adt='DefaultProblemData')
        I = mk(ctx, cfg, f)
        I.inline = {}
        n = 0
        for val, ret, ev, tr in Walker(f).leaves():
            pass
        w = Walker(f)
        for val, ret, ev, tr in w.leaves():
            if ret[0] == 'diverge':
                continue
            st = {}
            I2 = mk(ctx, cfg, f)
            I2.inline = {}
            # replay this one leaf
            for e in ev:
                if e[0] == 'call':
                    I2.apply_call(st, e[4])
                elif e[0] == 'store':
                    I2.set_place(st, f.sym_place(e[4]['p']), I2.ev(st, f.sym_rvalue(e[4]['rv'])))
                elif e[0] == 'assign' and isinstance(e[4], dict):
                    st['var:' + e[1]] = I2.ev(st, f.sym_rvalue(e[4]['rv']))
            rv = ret_value(I2, st, tr)
            n += 1
            R.check(rv == S(ONE), 'norm|%s|%s%s' % (nm, 'cached' if any(v == 1 for k, v in val.items() if k.startswith('discr(')) else 'recomputed', tag),
                    '%s returns a value with unit %s on the %s path: the norm of the user\'s linear term must not depend on the '
                    'equilibration' % (nm, vfmt(rv), 'cached' if any(v == 1 for k, v in val.items() if k.startswith('discr(')) else 'recomputed'), f.loc())
            stored = st.get('self.%s' % fld)
            if stored is not None:
                R.check(stored == S(ONE), 'norm-cache|%s%s' % (nm, tag), '%s caches a value with unit %s' % (nm, vfmt(stored)), f.loc())
        R.check(n >= 2, 'norm-paths|%s%s' % (nm, tag), '%s has %d paths' % (nm, n))


def unscale_units(R, ctx, cfg, tag):
    F = ctx.facts(cfg)
    f = F.one(name='unscale', adt='DefaultVariables')
    I = mk(ctx, cfg, f)
    seen = set()
    for val, ret, st in I.run({}):
        inf = val.get('arg3')
        seen.add(inf)
        got = {v: elem_unit(st.get('self.%s' % v)) for v in ('x', 's', 'z')}
        for v, u in got.items():
            de = {k: x for k, x in (u if u is not None else {'?': 1}).items() if k not in (C, H)}
            R.check(u is not None and not de, 'returned-de|%s|%s%s' % (v, inf, tag),
                    'after unscale (is_infeasible=%s) %s has unit %s: the returned vector is still weighted by the equilibration' % (inf, v, vfmt(st.get('self.%s' % v))), f.loc())
        if inf == 0:
            for v, u in got.items():
                R.check(u == ONE, 'returned-user-units|%s%s' % (v, tag),
                        'after unscale %s has unit %s, expected the user\'s coordinates (free of c and tau)' % (v, ufmt(u)), f.loc())
            R.check(elem_unit(st.get('self.τ')) == ONE, 'tau-normalised' + tag, 'tau is not normalised to 1: %s' % vfmt(st.get('self.τ')), f.loc())
        else:
            us = [got['x'], got['s'], got['z']]
            R.check(all(u is not None and u == us[0] for u in us), 'certificate-common-factor' + tag,
                    'infeasibility certificate: x, s, z are scaled by different factors (%s): it is no longer a ray of the '
                    'user\'s problem' % ', '.join('%s:%s' % (v, ufmt(u)) for v, u in got.items()), f.loc())
    R.check(seen == {0, 1}, 'unscale-branches' + tag, 'unscale branches seen: %s' % sorted(seen, key=str))
    report_findings(R, I, f, tag, ('U-DE',), 'combine|')


def infeasibility_tests(R, ctx, cfg, tag, info_state):
    """comparisons in is_primal/dual_infeasible: elementwise consistency always; the c-consistency is the recorded finding F5"""
    F = ctx.facts(cfg)
    for nm, dot in (('is_primal_infeasible', 'dot_bz'), ('is_dual_infeasible', 'dot_qx')):
        f = F.one(name=nm, adt='DefaultInfo')
        I = mk(ctx, cfg, f)
        init = {}
        for k in ('self.res_primal_inf', 'self.res_dual_inf'):
            if info_state and info_state[0].get(k) is not None:
                init[k] = info_state[0][k]
        # tolerances are unit-free scalars
        for i in (3, 4):
            init['arg%d' % i] = S(ONE)
        I.run(init)
        # comparisons are evaluated lazily by the walker as atoms; force them
        for val, ret, ev, tr in Walker(f).leaves():
            for k in list(val.keys()):
                pass
        # evaluate each comparison atom explicitly
        for c in f.calls:
            if c.callee.name in ('lt', 'gt', 'le', 'ge'):
                a = [f.sym_operand(x) for x in c.args]
                I.arith(c.callee.name, [I.ev(init, a[0]), I.ev(init, a[1])], ('call', c.callee.name, tuple(a), c.bb))
        for fd in I.findings:
            if fd.kind == 'U-DE':
                R.bad('mix|%s|%s%s' % (nm, fd.key, tag), fd.msg, f.loc())
            elif fd.kind == 'U-C':
                side = 'res' if 'res_' in fd.key else 'abs'
                R.bad('U-C|DefaultInfo::%s|%s|%s%s' % (nm, dot, side, tag), fd.msg + ' (the test is applied to internally c-scaled inner products)', f.loc())
        R.ok('tests-evaluated|%s%s' % (nm, tag))


def equilibrate_invariant(R, ctx, cfg, tag):
    F = ctx.facts(cfg)
    f = F.one(name='equilibrate', adt='DefaultProblemData')
    I = mk(ctx, cfg, f)
    init = {
        'self.equilibration.dinv': V({'work_d0': Fraction(1)}),
        'self.equilibration.einv': V({'work_e0': Fraction(1)}),
    }
    n = 0

    def check(I, val, ret, st, ev):
        nonlocal n
        if not any(e[0] in ('call', 'store') for e in ev):
            return
        n += 1
        g = lambda k: st.get(k, I.lookup(st, _sym(k)))
        ud = elem_unit(st.get('self.equilibration.d', DECL[('DefaultEquilibrationData', 'd')]))
        ue = elem_unit(st.get('self.equilibration.e', DECL[('DefaultEquilibrationData', 'e')]))
        uc = elem_unit(st.get('self.equilibration.c', DECL[('DefaultEquilibrationData', 'c')]))
        P = st.get('self.P', DECL[('DefaultProblemData', 'P')])
        A = st.get('self.A', DECL[('DefaultProblemData', 'A')])
        q = st.get('self.q', DECL[('DefaultProblemData', 'q')])
        b = st.get('self.b', DECL[('DefaultProblemData', 'b')])
        where = 'at the end of one Ruiz iteration' if ret[0] == 'cut' else 'at the exit of equilibrate'
        if None in (ud, ue, uc):
            R.bad('invariant|scalings-known|%s%s' % (ret[0], tag), 'the recorded scalings are modified in a way the interpreter cannot follow (%s): d=%s e=%s c=%s' % (
                where, ufmt(ud), ufmt(ue), ufmt(uc)), f.loc())
            return
        R.check(P == M(ud, ud, uc), 'invariant|P|%s%s' % (ret[0], tag),
                '%s the internal P has scaling %s but the recorded scalings give row %s | col %s | %s: the factors applied to the data and '
                'the factors recorded in d, c differ' % (where, vfmt(P), ufmt(ud), ufmt(ud), ufmt(uc)), f.loc())
        R.check(A == M(ue, ud, ONE), 'invariant|A|%s%s' % (ret[0], tag),
                '%s the internal A has scaling %s but the recorded scalings give row %s | col %s' % (where, vfmt(A), ufmt(ue), ufmt(ud)), f.loc())
        R.check(q == V(umul(ud, uc)), 'invariant|q|%s%s' % (ret[0], tag),
                '%s the internal q has scaling %s but d*c = %s' % (where, vfmt(q), ufmt(umul(ud, uc))), f.loc())
        R.check(b == V(ue), 'invariant|b|%s%s' % (ret[0], tag), '%s the internal b has scaling %s but e = %s' % (where, vfmt(b), ufmt(ue)), f.loc())
        if ret[0] != 'cut':
            di = elem_unit(st.get('self.equilibration.dinv'))
            ei = elem_unit(st.get('self.equilibration.einv'))
            R.check(di == upow(ud, -1) and ei == upow(ue, -1), 'invariant|inverses' + tag,
                    'at exit dinv/einv are %s / %s, expected the inverses of d / e (%s / %s)' % (ufmt(di), ufmt(ei), ufmt(upow(ud, -1)), ufmt(upow(ue, -1))), f.loc())
    I.run(init, on_leaf=check)
    R.check(n >= 4, 'equilibrate-paths' + tag, 'only %d effective paths through equilibrate were interpreted' % n)


def _sym(k):
    return ('var', 0, k)


def update_forms(R, ctx, cfg, tag):
    F = ctx.facts(cfg)
    n = 0
    for f in F.fns:
        if f.name not in ('update_matrix', 'update_vector') or not f.file.endswith('data_updating.rs') or f.dk != 'AssocFn':
            continue
        st_name = strip_generics(f.impl_self or '')
        if st_name.startswith('[T; 0]'):
            continue
        is_mat = f.name == 'update_matrix'
        I = mk(ctx, cfg, f)
        if is_mat:
            init = {'arg3': V({'@L': Fraction(1)}), 'arg4': V({'@R': Fraction(1)}), 'arg5': S({'C': Fraction(1)}), 'self': V(ONE)}
        else:
            init = {'arg3': V({'@S': Fraction(1)}), 'arg4': S({'C': Fraction(1)}), 'self': V(ONE)}
        I.param_default = {1: S(ONE)}
        # delegating forms (Vec -> [T], tuple -> Zip, CscMatrix -> values): must forward their scalings unchanged
        inner = [c for c in f.calls if c.callee.name == f.name]
        direct = any(c.callee.name in ('copy_from_slice', 'lrscale', 'hadamard', 'index_mut') for c in f.calls)
        if inner and not direct:
            c = inner[0]
            a = [canon(f.sym_operand(x)) for x in c.args]
            want = ['arg2', 'arg3', 'arg4', 'arg5'] if is_mat else ['arg2', 'arg3', 'arg4']
            n += 1
            R.check(len(inner) == 1 and a[1:] == want, 'form-forwards|%s|%s%s' % (f.name, st_name[:40], tag),
                    '%s for %s forwards (%s) to the underlying form, expected (target, %s)' % (f.name, st_name, ', '.join(a[1:]), ', '.join(want[1:])), f.loc(c.sp))
            src = a[0]
            R.check('self' in src, 'form-forwards-data|%s|%s%s' % (f.name, st_name[:40], tag), '%s for %s forwards the data %s' % (f.name, st_name, src), f.loc(c.sp))
            continue
        rows = I.run(init)
        for val, ret, st in rows:
            # only successful paths
            written = st.get('arg2') if 'arg2' in st else None
            nz = st.get('arg2.nzval')
            disc = [v for k, v in val.items() if k.startswith('discr(arg5)') or k.startswith('discr(arg4)')]
            some = disc[0] if disc else None
            if written is None and nz is None:
                continue
            n += 1
            cfac = {'C': Fraction(1)} if some == 1 else ONE
            form = st_name[:40]
            if is_mat:
                if nz is not None:
                    if some is None:
                        # no branch on the optional cost factor: it must then enter as unwrap_or(cscale, 1) (the factor when present, one otherwise)
                        uo = [c_ for c_ in f.calls if c_.callee.name == 'unwrap_or' and len(c_.args) == 2 and canon(f.sym_operand(c_.args[0])) == 'arg5' and canon(f.sym_operand(c_.args[1])) == 'one()']
                        cfac = {'C': Fraction(1)} if uo else ONE
                        R.check(bool(uo), 'form|%s|%s|c-used%s' % (f.name, form, tag), '%s for %s neither branches on the optional cost scaling nor folds it in with unwrap_or(cscale, 1)' % (f.name, st_name), f.loc())
                    want = V(umul(umul({'L[row]': Fraction(1)}, {'R[col]': Fraction(1)}), cfac))
                    R.check(nz == want, 'form|%s|%s|c=%s%s' % (f.name, form, some, tag),
                            '%s for %s (index form): an updated entry gets scaling %s, expected lscale[row]*rscale[col]%s = %s' % (
                                f.name, st_name, vfmt(nz), '*c' if some == 1 else '', vfmt(want)), f.loc())
                else:
                    want = M({'@L': Fraction(1)}, {'@R': Fraction(1)}, cfac)
                    if some is None:
                        # delegating forms: accept either, both must have been produced by the callee summary
                        R.check(written is not None and written[0] == 'M' and written[1] == {'@L': Fraction(1)} and written[2] == {'@R': Fraction(1)},
                                'form|%s|%s%s' % (f.name, form, tag), '%s for %s leaves the matrix with scaling %s' % (f.name, st_name, vfmt(written)), f.loc())
                    else:
                        R.check(written == want, 'form|%s|%s|c=%s%s' % (f.name, form, some, tag),
                                '%s for %s leaves the matrix with scaling %s, expected %s' % (f.name, st_name, vfmt(written), vfmt(want)), f.loc())
            else:
                got = written
                if got is None:
                    continue
                role = any(isinstance(k, str) and '[' in k for k in (elem_unit(got) or {}))
                base = {'S[idx]': Fraction(1)} if role else {'@S': Fraction(1)}
                want = V(umul(base, cfac))
                own_store = any(c_.callee.name in ('index_mut',) for c_ in f.calls) or any(st_['p']['p'] and st_['p']['l'] == 2 for _b, _s, st_ in f.assignments())
                if some is None and role and own_store and not any(c_.callee.name == 'update_vector' for c_ in f.calls):
                    # an index form that writes the entries itself and does not branch on the optional cost factor: it must fold it in with unwrap_or(cscale, 1)
                    uo = [c_ for c_ in f.calls if c_.callee.name == 'unwrap_or' and len(c_.args) == 2 and canon(f.sym_operand(c_.args[0])) == 'arg4' and canon(f.sym_operand(c_.args[1])) == 'one()']
                    R.check(bool(uo) and got == V(umul(base, {'C': Fraction(1)})), 'form|%s|%s|c-used%s' % (f.name, form, tag),
                            '%s for %s neither branches on the optional cost scaling nor folds it in with unwrap_or(cscale, 1) (entries get %s)' % (f.name, st_name, vfmt(got)), f.loc())
                elif some is None:
                    R.check(elem_unit(got) is not None and all(k in ('@S', 'S[idx]', 'C') for k in elem_unit(got)) and ('@S' in elem_unit(got) or 'S[idx]' in elem_unit(got)),
                            'form|%s|%s%s' % (f.name, form, tag), '%s for %s leaves the vector with scaling %s' % (f.name, st_name, vfmt(got)), f.loc())
                else:
                    R.check(got == want, 'form|%s|%s|c=%s%s' % (f.name, form, some, tag),
                            '%s for %s leaves the vector with scaling %s, expected %s: the update is not re-equilibrated like the '
                            'stored data' % (f.name, st_name, vfmt(got), vfmt(want)), f.loc())
    R.check(n >= 12, 'form-paths' + tag, 'only %d update-form paths were interpreted' % n)


SCALAR_SYMS = {'c', 'h'}   # index-independent symbols: a uniform row / column factor of a matrix is a scalar factor


def mnorm(v):
    """normal form of a matrix unit: index-independent symbols of the row / column parts are folded into the scalar part"""
    if v is None or v[0] != 'M':
        return v
    r, c, s_ = dict(v[1]), dict(v[2]), dict(v[3])
    for side in (r, c):
        for k in list(side):
            if k in SCALAR_SYMS:
                s_ = umul(s_, {k: side.pop(k)})
    return M(r, c, s_)


def export_units(R, ctx, cfg, tag):
    F = ctx.facts(cfg)
    f = F.one(name='save_to_file')
    I = mk(ctx, cfg, f)
    done = []

    def on_event(I, st, e):
        # every path that reaches the serialiser must hand it un-equilibrated data
        if e[0] == 'call' and e[1] in ('to_string', 'to_writer', 'to_vec', 'to_string_pretty'):
            done.append(1)
            for fld, want in (('P', M(ONE, ONE, ONE)), ('q', V(ONE)), ('A', M(ONE, ONE, ONE)), ('b', V(ONE))):
                got = mnorm(st.get('self.data.%s' % fld, DECL[('DefaultProblemData', fld)]))
                R.check(got == want, 'exported|%s%s' % (fld, tag),
                        'on some path the serialised %s still carries the scaling %s: the file would not describe the user\'s problem' % (fld, vfmt(got)), f.loc())
    I.run({}, on_event=on_event)
    R.check(bool(done), 'export-serialise-point' + tag, 'no serialisation point reached in save_to_file')


# ---------------------------------------------------------------------------
# per-property entry points
# ---------------------------------------------------------------------------

CFGS = ['default']


def c01(ctx, rep):
    for cfg in CFGS:
        tag = ''
        R = rep.rule('C01.R7', 'residual definitions: units and signed linear forms (rx = -Px - A^T z - tau q, rz = Ax + s - tau b, ...); documented normalised residual figures')
        R.guard(lambda: residual_definitions(R, ctx, cfg, tag))
        from . import forms_rules
        R.guard(lambda: forms_rules.residual_forms(R, ctx, cfg, tag))
        R.guard(lambda: forms_rules.report_forms(R, ctx, cfg, tag, which=('res',)))
        R5 = rep.rule('C01.R5', 'units: reported residuals / costs / gaps are un-equilibrated and de-homogenised; cached norms unit-free')
        R5.guard(lambda: info_update_only(R5, ctx, cfg, tag))
        R5.guard(lambda: norm_caches(R5, ctx, cfg, tag))
        R6 = rep.rule('C01.R6u', 'units: returned vectors are in user coordinates')
        R6.guard(lambda: unscale_units(R6, ctx, cfg, tag))
    premises(ctx, rep, 'C01.R9')


def info_update_only(R, ctx, cfg, tag):
    """Info::update for C01/C03: everything except the c-consistency of the infeasibility residuals (reported under C02)"""
    sub = _Sub(R, drop_prefix='U-C|')
    info_update(sub, ctx, cfg, tag)


class _Sub:
    """forwarding rule handle that drops violations whose key starts with a prefix (owned by another property)"""

    def __init__(self, R, drop_prefix):
        self.R, self.p = R, drop_prefix

    def check(self, cond, key, msg, loc=None, detail=None):
        if not cond and key.startswith(self.p):
            return cond
        return self.R.check(cond, key, msg, loc, detail)

    def bad(self, key, msg, loc=None, detail=None):
        if key.startswith(self.p):
            return
        self.R.bad(key, msg, loc, detail)

    def ok(self, key, detail=None):
        self.R.ok(key, detail)


def c02(ctx, rep):
    for cfg in CFGS:
        tag = ''
        R = rep.rule('C02.R4', 'units: certificates and infeasibility residuals are free of d, e; common ray factor; c-consistency of the tests')

        def body():
            finals = info_update(_Sub(R, 'reported|'), ctx, cfg, tag)
            unscale_units(R, ctx, cfg, tag)
            infeasibility_tests(R, ctx, cfg, tag, finals)
        R.guard(body)
        R5 = rep.rule('C02.R5', 'partial residual definitions (rx_inf = -A^T z, rz_inf = Ax + s, Px) and infeasibility residual figures: units and signed forms')
        R5.guard(lambda: residual_definitions(R5, ctx, cfg, tag))
        from . import forms_rules
        R5.guard(lambda: forms_rules.residual_forms(R5, ctx, cfg, tag))
        R5.guard(lambda: forms_rules.report_forms(R5, ctx, cfg, tag, which=('inf',)))
    premises(ctx, rep, 'C02.R6')


def c03(ctx, rep):
    for cfg in CFGS:
        tag = ''
        R = rep.rule('C03.R2', 'objective values, residual figures and gaps: user units (units engine) and the documented formulas (signed forms); cached norms unit-free')
        R.guard(lambda: info_update_only(R, ctx, cfg, tag))
        R.guard(lambda: norm_caches(R, ctx, cfg, tag))
        from . import forms_rules
        R.guard(lambda: forms_rules.report_forms(R, ctx, cfg, tag, which=('cost', 'res')))
    premises(ctx, rep, 'C03.R7')


def c08(ctx, rep):
    for cfg in CFGS:
        tag = ''
        R = rep.rule('C08.R3', 'units: every update form re-applies the stored equilibration to the new values')
        R.guard(lambda: update_forms(R, ctx, cfg, tag))
        R.guard(lambda: norm_caches(R, ctx, cfg, tag))


def c10(ctx, rep):
    for cfg in CFGS:
        tag = ''
        R = rep.rule('C10.R1', 'units: relational invariant P~d d c, A~e d, q~d c, b~e, dinv=1/d, einv=1/e (inductive over one Ruiz iteration, cost scaling, rectification)')
        R.guard(lambda: equilibrate_invariant(R, ctx, cfg, tag))
        # the change of variables stays exact when the data are updated in place: every update form re-applies D, E, c
        R2 = rep.rule('C10.R8', 'units: every in-place update form keeps the internal data equal to the scaled user data')
        R2.guard(lambda: update_forms(R2, ctx, cfg, tag))


def c19(ctx, rep):
    for cfg in CFGS:
        tag = ''
        R = rep.rule('C19.R1u', 'units: exported P, q, A, b are un-equilibrated')
        R.guard(lambda: export_units(R, ctx, cfg, tag))
    # the export divides by the *recorded* scalings: it reproduces the user's data only if the stored data carry exactly those
    premises(ctx, rep, 'C19.R6')


def premises(ctx, rep, rid):
    """the unit declarations used by the reader-side rules are guarantees of the writers (assume-guarantee):
    equilibrate establishes them, the update forms and the norm caches maintain them"""
    for cfg in CFGS:
        R = rep.rule(rid, 'units premises: equilibrate establishes P~d d c, A~e d, q~d c, b~e; every update form and the cached norms maintain them')
        R.guard(lambda: equilibrate_invariant(R, ctx, cfg, ''))
        R.guard(lambda: update_forms(R, ctx, cfg, ''))


def add_step_units(R, ctx, cfg, tag):
    """x, s, z, tau, kappa all move by alpha * step: give the step the unit (component unit)/A and alpha the unit A;
    a missing or different factor makes the sum dimensionally inconsistent"""
    F = ctx.facts(cfg)
    f = F.one(name='add_step', adt='DefaultVariables')
    I = mk(ctx, cfg, f)
    A = {'ALPHA': Fraction(1)}
    init = {'arg3': S(A)}
    for v in ('x', 's', 'z'):
        init['self.%s' % v] = V({v.upper(): Fraction(1)})
        init['arg2.%s' % v] = V(umul({v.upper(): Fraction(1)}, A, 1, -1))
    for v in ('τ', 'κ'):
        init['self.%s' % v] = S({v: Fraction(1)})
        init['arg2.%s' % v] = S(umul({v: Fraction(1)}, A, 1, -1))
    rows = I.run(init)
    R.check(len(rows) == 1, 'add_step-paths' + tag, '%d paths through add_step' % len(rows))
    for fd in I.findings:
        R.bad('add_step|%s%s' % (fd.key[:80], tag), 'add_step: a component is not advanced by alpha*step (%s)' % fd.msg[:160], f.loc())
    # every component is touched
    E = ctx.eff(cfg)
    W = set()
    for r, ch in E.W[f.key]:
        if r == ('param', 1) and ch:
            W.add(ch[0][1])
    R.check({'x', 's', 'z', 'τ', 'κ'} <= W, 'add_step-all-components' + tag, 'add_step writes only %s' % sorted(W), f.loc())
    if not I.findings:
        R.ok('add_step-consistent' + tag)
