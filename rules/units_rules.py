"""units abstract interpretation rules (filled in later)"""


def c01(ctx, rep):
    pass


def c02(ctx, rep):
    pass


def c03(ctx, rep):
    pass


def c19(ctx, rep):
    pass


def c10(ctx, rep):
    pass


def c08(ctx, rep):
    pass
