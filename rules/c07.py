"""C07 -- iterates stay interior; trajectory independent of the budget (structural clauses)"""
from engine.mir import last_seg, show, AnchorError, strip_generics
from engine.preds import canon, Walker
from engine.effects import IDX, fmt_path
from .common import *
from . import shared
from . import steplen

CONFIGS = ['default', 'full']
TECHNIQUE = 'effect analysis (who-may-read the budget settings), decision tables of the ratio tests, min-lattice dataflow of step lengths'
EXPLANATION = (
    "Strict interiority of the iterates is numerical and NOT decided. Decided on the MIR of the current tree: "
    "(R1) non-interference of the budget: max_iter and time_limit are read only by the termination test, the "
    "settings printer and (de)serialisation glue, so the iterate sequence is a function of data and the other "
    "settings and a run with max_iter=k is a prefix of a longer run (with C01.R4/C03.R6: the point returned under "
    "MaxIterations is the k-th iterate); (R2) step lengths: alpha_max handed to the cones is min(.., .., 1), the "
    "result is min(alpha_z, alpha_s), multiplied by max_step_fraction exactly for the combined direction, and "
    "every cone's step_length is bounded by its alpha_max argument; (R3) the tau/kappa ratio tests have the same "
    "shape; (R4) add_step moves all five components with the same alpha; (R5) iterate 0: the shift into the cone "
    "interior cancels a negative margin first and adds target >= 1 afterwards, as two separate shifts (the only "
    "order that is sign-exact in floating point), s in the primal and z in the dual cone; (R6) the second-order cone "
    "routine applies the scalar-part cap before every return; (R7) every solve starts from scratch (C05.R6 re-run): reset, "
    "default_start, complete identity scaling / unit initialisation - so the k-th iterate does not depend on what the same "
    "solver object did before."
    " (R10) dual membership predicate for (dz,z), primal for (ds,s) in every nonsymmetric cone (C15.R4 re-run); (R11) backtrack_search returns zero or the alpha it has just tested (C15.R11 re-run)."
    " (R12) nonnegative-cone ratio test: component i limits the step iff its direction is < 0 exactly (no tolerance), by -z_i/dz_i (C15.R12 re-run)."
    " (R13) the previous iterate is restored only under status == InsufficientProgress itself, never on a budget termination."
    ' R11 also: backtrack_search gives up only after a tested trial failed.'
    ' (R15) = C04.R18: the centrality line search evaluates the barrier at the trial point.'
    ' (R16) check_termination stores MaxIterations / MaxTime only after the convergence and the slow-progress tests (a budget equal to the iteration at which a longer run stalls must not win over InsufficientProgress); (R17) = C14.R18.')
ASSUMPTIONS = [
    'rustc MIR construction and trait resolution are correct',
    '0 <= linesearch_backtrack_step <= 1 and 0 < max_step_fraction <= 1 (settings are not validated by the crate)',
    'T::min/minimum have their documented meaning',
]

BUDGET = {
    'max_iter': {'check_termination', 'print_settings'},
    'time_limit': {'check_termination', 'print_settings', 'sanitize_settings', 'desanitize_settings'},
}


def budget_noninterference(rep, F, E, tag):
    R = rep.rule('C07.R1', 'the iteration / time budget is read only by the termination test, printing and '
                           '(de)serialisation')

    def body():
        for fld, allowed in BUDGET.items():
            n = 0
            for f in F.fns:
                if f.impl_exp or f.from_expansion:
                    continue
                for owner in ('DefaultSettings', 'CoreSettings'):
                    hits = E.direct_read_sites(f, owner, fld)
                    for bi, sp, what in hits:
                        n += 1
                        R.check(f.name in allowed, 'reader|%s|%s%s' % (fld, short(f.key), tag),
                                '%s reads settings.%s: the iterates would depend on the budget (a run with '
                                'max_iter=k would no longer be a prefix of a longer run)' % (f.key, fld), f.loc(sp))
            R.check(n >= 2, 'reader-sites|%s%s' % (fld, tag), 'only %d read sites of settings.%s found' % (n, fld))
        # info.iterations readers: termination test, printing, report copy
        for f in F.fns:
            if f.impl_exp or f.from_expansion:
                continue
            for bi, sp, what in E.direct_read_sites(f, 'DefaultInfo', 'iterations'):
                R.check(f.name in ('check_termination', 'print_status', 'post_process'), 'iterations-reader|%s%s' % (short(f.key), tag),
                        '%s reads DefaultInfo.iterations' % f.key, f.loc(sp))
        # the counter itself is consumed in solve only by save_scalars, check_termination, and the
        # documented first-iteration Mehrotra correction (iter > 1), which does not depend on max_iter
        s = shared.solve_fn(F)
        ct = one_call(s, 'check_termination')
        itl = s.sym_operand(ct.args[3])[1]
        uses = []
        for bi, b in enumerate(s.blocks):
            for st in b['s']:
                if 'rv' in st:
                    for op in E._rv_operands(st['rv']):
                        pl = op.get('c') or op.get('m')
                        if pl is not None and pl['l'] == itl and not (not st['p']['p'] and s.local_name(st['p']['l']) is None and st['rv']['k'] == 'use'):
                            uses.append((bi, canon(s.sym_rvalue(st['rv'])), st['sp']))
        for bi, c, sp in uses:
            ok = c.startswith('addwithoverflow(var:') or c.startswith('add(var:') or c == 'lt(1_u32, var:%s)' % s.local_name(itl)
            R.check(ok, 'counter-use|%s%s' % (c, tag), 'the iteration counter is used in %s' % c, s.loc(sp))

    R.guard(body)


def calc_step_length(rep, F, tag):
    R = rep.rule('C07.R2', 'calc_step_length: alpha_max = min(a_tau, a_kappa, 1); result = min(alpha_z, alpha_s) '
                           '[* max_step_fraction iff Combined]; ratio tests symmetric')

    def body():
        f = F.one(name='calc_step_length', adt='DefaultVariables')
        leaves = Walker(f).leaves()
        for which in ('τ', 'κ'):
            key = 'lt(arg2.%s, zero())' % which
            seen = set()
            for val, ret, ev, tr in leaves:
                if key not in val:
                    R.bad('ratio-test|%s%s' % (which, tag), 'calc_step_length does not test step.%s < 0' % which, f.loc())
                    break
                calls = [e[2] for e in ev if e[0] == 'call']
                seen.add(val[key])
                if val[key]:
                    R.check('div(neg(self.%s), arg2.%s)' % (which, which) in calls, 'ratio|%s%s' % (which, tag),
                            'for step.%s < 0 the bound is not -%s/step.%s' % (which, which, which), f.loc())
                else:
                    R.check('div(neg(self.%s), arg2.%s)' % (which, which) not in calls, 'ratio-else|%s%s' % (which, tag),
                            'the %s ratio is used although step.%s >= 0' % (which, which), f.loc())
            R.check(seen == {0, 1}, 'ratio-both|%s%s' % (which, tag), 'one branch of the %s ratio test is missing' % which)
        mn = one_call(f, 'minimum')
        arr = canon(f.sym_operand(mn.args[0]))
        R.check('one()' in arr and 'var:ατ' in arr.replace(' ', '') or ('one()' in arr and arr.count('var:') == 2), 'alpha-max-includes-one' + tag,
                'the maximum step handed to the cones is minimum(%s): it must include the constant one' % arr, f.loc(mn.sp))
        sl = one_call(f, 'step_length')
        a = [canon(f.sym_operand(x)) for x in sl.args]
        R.check(a[-1].startswith('minimum('), 'alpha-max-arg' + tag, 'cones.step_length receives %s as alpha_max' % a[-1], f.loc(sl.sp))
        R.check(a[1:5] == ['arg2.z', 'arg2.s', 'self.z', 'self.s'], 'step_length-args' + tag,
                'cones.step_length(dz, ds, z, s) receives %s' % a[1:5], f.loc(sl.sp))
        for val, ret, ev, tr in leaves:
            k = [x for x in val if x.startswith('eq(') and 'StepDirection::Combined' in x]
            if not k:
                R.bad('combined-test' + tag, 'no step_direction == Combined test', f.loc())
                break
            ma = [e[2] for e in ev if e[0] == 'call' and e[1] in ('mul_assign', 'mul')]
            frac = [m for m in ma if 'max_step_fraction' in m]
            R.check(bool(frac) == bool(val[k[0]]), 'fraction-iff-combined|%d%s' % (val[k[0]], tag),
                    'max_step_fraction is %s for step_direction %s Combined' % ('applied' if frac else 'not applied', '==' if val[k[0]] else '!='), f.loc())
            for m in frac:
                R.check(m.startswith('mul_assign(min(step_length(') or m.startswith('mul(min(step_length('), 'fraction-on-min' + tag,
                        'max_step_fraction multiplies %s, expected min(alpha_z, alpha_s)' % m[:60], f.loc())
        r0 = canon(f.sym_local(0))
        R.check(r0.startswith('min(step_length('), 'returns-min' + tag, 'calc_step_length returns %s' % r0[:80], f.loc())

    R.guard(body)


def add_step(rep, F, tag):
    R = rep.rule('C07.R4', 'add_step moves x, s, z, tau, kappa with the same alpha')

    def body():
        s = shared.solve_fn(F)
        c = one_call(s, 'add_step')
        a = [canon(s.sym_operand(x)) for x in c.args]
        R.check(a[0] == 'self.variables' and a[1] == 'self.step_lhs', 'solve-args' + tag, 'add_step(%s)' % a, s.loc(c.sp))

    R.guard(body)


def rollback_only_on_stall(rep, F, tag):
    """A run limited to max_iter = k returns the k-th iterate: the only place that replaces the current iterate by the previous one
    (reset_to_prev_iterate) may run only when the termination test has reported InsufficientProgress - not on MaxIterations / MaxTime,
    which would make the budgeted run return iterate k-1."""
    R = rep.rule('C07.R13', 'the previous iterate is restored only under status == InsufficientProgress (never on a budget termination)')

    def body():
        adt = F.adt('SolverStatus')
        idx = [i for i, v in enumerate(adt['variants']) if v['n'] == 'InsufficientProgress'][0]
        n = 0
        for f in F.fns:
            if f.from_expansion or not calls_named(f, 'reset_to_prev_iterate'):
                continue
            for val, ret, ev, tr in Walker(f).leaves():
                if not any(e[0] == 'call' and e[1] == 'reset_to_prev_iterate' for e in ev):
                    continue
                n += 1
                ok = False
                for k, v in val.items():
                    if 'get_status(' not in k and '.status' not in k:
                        continue
                    if k.startswith('ne(') and 'SolverStatus::InsufficientProgress' in k and v == 0:
                        ok = True
                    if k.startswith('eq(') and 'SolverStatus::InsufficientProgress' in k and v == 1:
                        ok = True
                    if k.startswith('discr(') and v == idx:
                        ok = True
                R.check(ok, 'rollback-guard|%s%s' % (short(f.key), tag),
                        '%s restores the previous iterate under %s: the rollback must be guarded by status == InsufficientProgress itself (a wider test such as is_errored() '
                        'also fires on MaxIterations / MaxTime, so a run with max_iter = k would return iterate k-1)' % (f.key, {k[:70]: v for k, v in val.items()}), f.loc())
        R.check(n >= 1, 'sites' + tag, 'no path calling reset_to_prev_iterate found')

    R.guard(body)


def limits_last(rep, F, tag):
    """"a run limited to k iterations returns the k-th iterate of a longer run": when the longer run stops by itself at iteration k (slow progress: status
    InsufficientProgress, iterate rolled back), the run with max_iter = k must do the same - the budget test is the last resort, evaluated only after the
    convergence and progress tests have left the status Unsolved."""
    from . import shared
    R = rep.rule('C07.R16', 'check_termination stores MaxIterations / MaxTime only on paths that have already evaluated the convergence and the slow-progress tests')

    def body():
        f = shared.info_fn(F, 'check_termination')
        n = 0
        for val, ret, ev, tr in Walker(f).leaves():
            seq = [(e[0], e[1], str(e[2])) for e in ev]
            lim = [i for i, e in enumerate(seq) if e[0] == 'store' and e[1] == 'self.status' and e[2] in ('SolverStatus::MaxIterations', 'SolverStatus::MaxTime')]
            if not lim:
                continue
            n += 1
            conv = [i for i, e in enumerate(seq) if e[0] == 'call' and e[1] == 'check_convergence_full']
            R.check(bool(conv) and conv[0] < lim[0], 'after-convergence' + tag, 'a limit status is stored before the convergence test has run', f.loc())
            # the slow-progress block opens with `iter > 1`; its tests are atoms of the path (evaluated in program order: an atom first needed after
            # the limit store would mean the block comes later)
            prog = [k for k in val if k.startswith(('lt(1_u32, arg4)', 'gt(arg4, 1_u32)', 'le(arg4, 1_u32)', 'ge(1_u32, arg4)'))]
            mi = [k for k in val if 'max_iter' in k and 'self.iterations' in k]
            order = list(val.keys())
            ok = bool(prog) and bool(mi) and order.index(prog[0]) < order.index(mi[0])
            R.check(ok, 'after-progress-test' + tag,
                    'check_termination stores %s on a path that tests the iteration limit before the slow-progress conditions (order of tests: %s): a budget equal to the '
                    'iteration at which a longer run stalls then wins over InsufficientProgress, and the rollback the longer run performs is skipped' % (
                        seq[lim[0]][2], [k[:30] for k in order]), f.loc())
        R.check(n >= 2, 'paths' + tag, 'only %d limit-storing paths analysed' % n)

    R.guard(body)


def run(ctx, rep, tier):
    for cfg in CONFIGS:
        F = ctx.facts(cfg)
        E = ctx.eff(cfg)
        tag = '' if cfg == 'default' else '[%s]' % cfg
        budget_noninterference(rep, F, E, tag)
        calc_step_length(rep, F, tag)
        steplen.cone_step_lengths(rep, F, E, tag, 'C07.R2c')
        add_step(rep, F, tag)
        steplen.interior_shift(rep, F, tag, 'C07.R5')
        steplen.soc_scalar_cap(rep, F, tag, 'C07.R6')
        from . import c14
        c14.membership_guards(rep, F, tag, 'C07.R8')
        steplen.margins_definitions(rep, F, E, tag, 'C07.R9')
        steplen.backtrack_pairing(rep, F, tag, 'C07.R10')
        steplen.backtrack_validated(rep, F, tag, 'C07.R11')
        steplen.nn_ratio_test(rep, F, tag, 'C07.R12')
        rollback_only_on_stall(rep, F, tag)
        limits_last(rep, F, tag)
        c14.genpow_membership(rep, F, tag, 'C07.R17')
        steplen.barrier_trial_points(rep, F, tag, 'C07.R15')
        from . import c04 as _c04b
        c14.membership_definitions(_c04b._Ren(rep, 'C14.R14', 'C07.R14'), F, E, tag)
    # a run limited to max_iter = k is a prefix of a longer run also on a re-used solver object: every solve starts from scratch
    from . import c05, c04
    for cfg in CONFIGS:
        c05.fresh_start(c04._Ren(rep, 'C05.R6', 'C07.R7'), ctx.facts(cfg), ctx.eff(cfg), ctx.cg(cfg), '' if cfg == 'default' else '[%s]' % cfg)
    from . import units_rules
    R = rep.rule('C07.R4', 'add_step moves x, s, z, tau, kappa with the same alpha')
    R.guard(lambda: units_rules.add_step_units(R, ctx, 'default', ''))
