"""C18 -- chordal decomposition and its reversal preserve the problem (structural clauses)"""
from engine.mir import last_seg, show, AnchorError, strip_generics
from engine.preds import canon, Walker
from .common import *
from . import shared

import re
CONFIGS = ['full']
CONFIGS_THOROUGH = ['full', 'sdp']
TECHNIQUE = 'stage dataflow over MIR (inferred stage-output/fallback pairing: no stale input after a reducing stage), dominance/path rules on the mirrored reversal, decision tables of the gates'
EXPLANATION = (
    "Equivalence of the decomposed problem (every entry once, overlaps tied, PSD completion) is index arithmetic + "
    "numerics and is NOT decided. Decided on the MIR of the sdp/full configuration: (R1) in "
    "DefaultProblemData::new, once a stage (triu, presolve, chordal augmentation) may have replaced P/q/A/b/cones, "
    "every later use of the original is the fallback operand of an unwrap_or on that stage's output - no stage "
    "receives stale, un-reduced input (the pairing is inferred from the code, five pairs); (R2) construction is "
    "presolve then decomposition and post_process applies decomp_reverse before reverse_presolve on the unscaled "
    "variables; decomp_reverse allocates with init_dims, copies x[0..n], dispatches on the same setting as "
    "decomp_augment and completes the dual iff requested; (R3) gates: no decomposition when disabled / no large PSD "
    "cone / not decomposable; data updates rejected when decomposed; (R4) index-space discipline of the compact "
    "augmentation: the decomposed-row pointer and the overlap pointer are threaded through every cone (passed in and "
    "assigned back from the matching result component), the clique-to-rows map is based at the decomposed-row pointer "
    "and not at a row of the original problem, an undecomposed cone moves by (decomposed pointer - original range start) "
    "in both A and b, and the (i, j) sort key uses as stride the length of the very ordering vector the vertices are "
    "read from (j*stride + i is injective and column-major only then); (R5) PSD completion assigns W[eta, nu] with eta filtered "
    "against both the separator and the supernode nu it is paired with, so the clique blocks determined by the solve are not "
    "overwritten, and the cliques are visited root-first (descending post-order) there and in the compact row layout; (R6) the "
    "aggregate sparsity mask marks every row with a stored entry of A and every row with b != 0 (either sign); (R7) the overlap "
    "counts used to average the dual in the standard-form reversal are aligned with the list of overlapped rows."
    " (R8) psd_completion completes, for each pattern, the z block of original cone number pattern.orig_index; (R9) data updates are refused for every decomposed problem, compact or standard (C08.R1 re-run)."
    " (R10) C17.R8 re-run (Kruskal on intersection weights); (R11) compact reversal: the s and z statements of each block copy address identical positions."
    " (R12) consecutive vertex numbers follow snode_post; psd_complete gathers with the ordering and scatters with its inverse."
    " (R13) compact augmentation of an undecomposed cone shifts the indices of b and the row indices of A by the same offset."
    " (R14) wherever the original cones and the sparsity patterns are walked side by side (standard and compact augmentation, dimension count) a pattern is consumed only after its orig_index was found equal to the cone's index - an undecomposed PSD cone has no pattern."
    ' (R15) get_block_indices pushes only pairs with row <= col (tested on the path or built as (min, max)); (R16) the compact reversal resizes the clique buffer to the clique before sorting / iterating it as a whole.'
    ' (R17) get_row_index searches rowval[l .. min(column end, l + k_shift + c)] with c >= 1.')
ASSUMPTIONS = ['rustc MIR construction and trait resolution are correct',
               'the sdp code is analysed by type-checking only (cargo check with empty blas-src/lapack-src); it is never linked or run']

FALLBACK_CALLS = {'unwrap_or', 'unwrap_or_else', 'unwrap_and_slice_or_else'}


def _root_local(s):
    while True:
        if s[0] in ('ref', 'deref', 'cast'):
            s = s[1]
        elif s[0] == 'call' and last_seg(s[1]) in ('as_ref', 'as_mut', 'as_deref', 'clone') and s[2]:
            s = s[2][0]
        else:
            break
    return s


def _closure_of(s):
    while s[0] in ('ref', 'deref'):
        s = s[1]
    if s[0] == 'agg' and s[1][0] == 'closure':
        return s
    return None


def _named_local(f, op, depth=0):
    """the user variable an operand ultimately refers to (through temps, refs, as_ref)"""
    pl = op.get('c') or op.get('m')
    if pl is None or depth > 12:
        return None
    l = pl['l']
    if f.local_name(l) is not None:
        return l
    ds = f.defs.get(l, [])
    if len(ds) != 1:
        return None
    d = ds[0]
    if d[0] == 's':
        rv = f.blocks[d[1]]['s'][d[2]]['rv']
        if rv['k'] == 'use':
            return _named_local(f, rv['a'], depth + 1)
        if rv['k'] in ('ref', 'rawptr'):
            return _named_local(f, {'c': rv['p']}, depth + 1)
        return None
    c = f.call_at[d[1]]
    if c.callee.name in ('as_ref', 'as_mut', 'as_deref', 'clone', 'deref') and c.args:
        return _named_local(f, c.args[0], depth + 1)
    return None


def stage_pairs(f):
    """{(L local, X canon)} inferred from fallback idioms; plus helper to test fallback nodes"""
    pairs = set()
    for c in f.calls:
        if c.callee.name not in FALLBACK_CALLS or len(c.args) < 2:
            continue
        L = _named_local(f, c.args[0])
        if L is None or 'Option<' not in f.local_ty(L):
            continue
        a1 = f.sym_operand(c.args[1])
        clo = _closure_of(a1)
        if clo is not None:
            for u in clo[2]:
                pairs.add((L, canon(_root_local(u))))
        else:
            pairs.add((L, canon(_root_local(a1))))
    return pairs


def raw_uses(f, s, X, pairs_for_X, depth=0):
    """does Sym s use X other than as a fallback operand on one of the paired Option locals?"""
    if depth > 30:
        return False
    if canon(_root_local(s)) == X and s[0] != 'call':
        return True
    t = s[0]
    if t == 'call':
        nm = last_seg(s[1].split('#')[0])
        if nm in FALLBACK_CALLS and len(s[2]) >= 2:
            a0 = _root_local(s[2][0])
            if (a0[0] == 'var' and a0[1] in pairs_for_X) or canon(a0).startswith('Option::None'):
                # legit fallback: ignore X inside the fallback operand, still scan the receiver
                return raw_uses(f, s[2][0], X, pairs_for_X, depth + 1)
        if canon(s) == X:
            return True
        return any(raw_uses(f, a, X, pairs_for_X, depth + 1) for a in s[2])
    if t in ('ref', 'deref', 'cast', 'discr'):
        return raw_uses(f, s[1], X, pairs_for_X, depth + 1)
    if t in ('field', 'downcast', 'subslice', 'cindex'):
        return raw_uses(f, s[1], X, pairs_for_X, depth + 1)
    if t == 'index':
        return raw_uses(f, s[1], X, pairs_for_X, depth + 1) or raw_uses(f, s[2], X, pairs_for_X, depth + 1)
    if t == 'agg':
        return any(raw_uses(f, a, X, pairs_for_X, depth + 1) for a in s[2])
    if t in ('bin',):
        return raw_uses(f, s[2], X, pairs_for_X, depth + 1) or raw_uses(f, s[3], X, pairs_for_X, depth + 1)
    if t == 'un':
        return raw_uses(f, s[2], X, pairs_for_X, depth + 1)
    return False


def stage_dataflow(R, F, tag):
    f = F.one(name='new', adt='DefaultProblemData')
    pairs = stage_pairs(f)
    by_x = {}
    for L, X in pairs:
        by_x.setdefault(X, set()).add(L)
    R.check(len(by_x) >= 5, 'pairs' + tag,
            'only %d original/stage-output pairs inferred in DefaultProblemData::new (expected P, q, A, b, cones): %s' % (
                len(by_x), sorted(by_x)), f.loc())
    for X, Ls in sorted(by_x.items()):
        # blocks where one of the stage outputs becomes Some(..)
        some_blocks = set()
        for L in Ls:
            for d in f.defs.get(L, []):
                if d[0] == 's':
                    st = f.blocks[d[1]]['s'][d[2]]
                    c = canon(f.sym_rvalue(st['rv']))
                    if c.startswith('Option::Some'):
                        some_blocks.add(d[1])
                else:
                    some_blocks.add(d[1])
        reach_after = set()
        for b in some_blocks:
            reach_after |= (f.reachable_from(b) - {b})
        n = 0
        for c in f.calls:
            if c.callee.name in FALLBACK_CALLS:
                if _named_local(f, c.args[0]) in Ls:
                    continue
            for a in c.args:
                s = f.sym_operand(a)
                if raw_uses(f, s, X, Ls):
                    n += 1
                    stale = c.bb in reach_after
                    R.check(not stale, 'stale|%s->%s%s' % (X, c.callee.name, tag),
                            '%s receives the original %s although an earlier stage may already have replaced it '
                            '(stage outputs %s): it must be passed as the fallback of unwrap_or on the stage '
                            'output' % (c.callee.name, X, sorted(f.local_name(L) or L for L in Ls)), f.loc(c.sp))
        R.ok('pair|%s%s' % (X, tag), {'stage_outputs': sorted(f.local_name(L) or str(L) for L in Ls), 'raw_uses': n,
                                     'some_sites': len(some_blocks)})
    return f


def stage_rules(ctx, rep, rid):
    R = rep.rule(rid, 'stage dataflow in DefaultProblemData::new: no stale input after a reducing stage; '
                      'construction order presolve -> decomposition; reversal order decomposition -> presolve')

    def body():
        for cfg in ('default', 'full'):
            F = ctx.facts(cfg)
            tag = '' if cfg == 'default' else '[%s]' % cfg
            f = stage_dataflow(R, F, tag)
            pr = calls_named(f, 'presolve')
            R.check(len(pr) == 1, 'presolve-site' + tag, '%d presolve calls' % len(pr))
            if cfg == 'full':
                da = one_call(f, 'decomp_augment')
                tc = one_call(f, 'try_chordal_info')
                R.check(f.dominates(pr[0].bb, da.bb) or not f.paths_exist_avoiding(da.bb, pr[0].bb, []), 'order|presolve<augment' + tag,
                        'decomp_augment can run before presolve', f.loc(da.sp))
                R.check(not f.paths_exist_avoiding(tc.bb, pr[0].bb, []) and tc.bb != pr[0].bb, 'order|presolve<analysis' + tag,
                        'the chordal analysis can run before presolve', f.loc(tc.sp))
                pp = F.one(name='post_process', adt='DefaultSolution')
                rp = one_call(pp, 'reverse_presolve')
                us = one_call(pp, 'unscale')
                a = canon(pp.sym_operand(rp.args[2]))
                R.check(a.startswith('unwrap_or(map(arg2.chordal_info, closure(') and a.endswith(', arg3)'), 'reverse-input' + tag,
                        'reverse_presolve receives %s: expected the decomposition-reversed variables with the internal '
                        'variables as fallback' % a[:100], pp.loc(rp.sp))
                clos = [g for g in F.closures_of.get(pp.key, []) if any(c.callee.name == 'decomp_reverse' for c in g.calls)]
                R.check(len(clos) == 1, 'decomp_reverse-site' + tag, 'decomp_reverse is called from %d closures of post_process' % len(clos), pp.loc())
                mp = [c for c in pp.calls if c.callee.name == 'map']
                R.check(len(mp) == 1 and pp.dominates(us.bb, mp[0].bb) and pp.dominates(mp[0].bb, rp.bb), 'reverse-order' + tag,
                        'post_process does not run unscale -> decomp_reverse -> reverse_presolve', pp.loc())
                # the else branch (no presolver) copies from the same (possibly reversed) variables
                for c in calls_named(pp, 'copy_from'):
                    src = canon(pp.sym_operand(c.args[1]))
                    R.check(src.startswith('unwrap_or(map(arg2.chordal_info, closure('), 'copy-source|%s%s' % (canon(pp.sym_operand(c.args[0])), tag),
                            'solution vector copied from %s' % src[:80], pp.loc(c.sp))

    R.guard(body)


def reversal_shape(rep, F, tag):
    R = rep.rule('C18.R2', 'decomp_reverse mirrors decomp_augment: same dispatch setting, init_dims allocation, x copied, completion iff requested')

    def body():
        da = F.one(name='decomp_augment', adt='ChordalInfo')
        dr = F.one(name='decomp_reverse', adt='ChordalInfo')
        for val, ret, ev, tr in Walker(da).leaves():
            k = [x for x in val if x.endswith('.chordal_decomposition_compact')]
            calls = [e[1] for e in ev if e[0] == 'call']
            R.check(bool(k) and (('decomp_augment_compact' in calls) == bool(val[k[0]])) and (('decomp_augment_standard' in calls) == (not val[k[0]])),
                    'augment-dispatch|%s%s' % (val[k[0]] if k else '?', tag), 'decomp_augment dispatch: %s under %s' % (calls, val), da.loc())
        seen = 0
        for val, ret, ev, tr in Walker(dr).leaves():
            if ret[0] == 'diverge':
                continue
            k = [x for x in val if x.endswith('.chordal_decomposition_compact') or x.startswith('arg4.chordal_decomposition_compact')]
            k = [x for x in val if 'chordal_decomposition_compact' in x and not x.startswith('eq(')]
            cd = [x for x in val if 'chordal_decomposition_complete_dual' in x]
            calls = [e[1] for e in ev if e[0] == 'call']
            if not k or not cd:
                R.bad('reverse-tests' + tag, 'decomp_reverse does not test compact/complete_dual on a returning path: %s' % sorted(val), dr.loc())
                continue
            seen += 1
            R.check((('decomp_reverse_compact' in calls) == bool(val[k[0]])) and (('decomp_reverse_standard' in calls) == (not val[k[0]])),
                    'reverse-dispatch|%s%s' % (val[k[0]], tag), 'decomp_reverse dispatch %s under compact=%s' % (calls, val[k[0]]), dr.loc())
            R.check(('psd_completion' in calls) == bool(val[cd[0]]), 'completion|%s%s' % (val[cd[0]], tag),
                    'psd_completion %s with complete_dual=%s' % ('runs' if 'psd_completion' in calls else 'skipped', val[cd[0]]), dr.loc())
        R.check(seen >= 4, 'reverse-leaves' + tag, 'only %d returning paths analysed' % seen)
        nv = [c for c in dr.calls if c.callee.name == 'new' and 'DefaultVariables' in (c.callee.key or '')]
        R.check(len(nv) == 1 and [canon(dr.sym_operand(a)) for a in nv[0].args] == ['self.init_dims.0', 'self.init_dims.1'], 'alloc-init_dims' + tag,
                'decomp_reverse allocates %s' % ([canon(dr.sym_operand(a)) for a in nv[0].args] if nv else None), dr.loc())
        cf = [canon(('call', 'copy_from', tuple(dr.sym_operand(a) for a in c.args), 0)) for c in calls_named(dr, 'copy_from')]
        R.check(any(x.startswith('copy_from(') and '.x' in x and 'arg2.x' in x for x in cf), 'x-copied' + tag, 'x not copied: %s' % cf, dr.loc())
        # init_dims / init_cones come from the arguments of ChordalInfo::new
        cn = F.one(name='new', adt='ChordalInfo')
        for bi, si, st in cn.assignments():
            rv = st['rv']
            if rv['k'] == 'agg' and rv['ak']['a'] == 'adt' and last_seg(strip_generics(rv['ak']['adt'])) == 'ChordalInfo':
                i = rv['ak']['fields'].index('init_dims')
                src = canon(cn.sym_operand(rv['ops'][i]))
                R.check(src in ('tuple(ncols(arg1), nrows(arg1))', 'tuple(arg1.n, arg1.m)') or ('arg1' in src and 'arg2' not in src), 'init_dims-source' + tag,
                        'init_dims initialised from %s, expected the dimensions of the A handed to the analysis' % src, cn.loc(st['sp']))

    R.guard(body)


def gates(rep, F, tag):
    R = rep.rule('C18.R3', 'gates: decomposition only when enabled, a PSD cone of dimension > 3 exists and it decomposes; updates rejected when decomposed')

    def body():
        f = F.one(name='try_chordal_info')
        for val, ret, ev, tr in Walker(f).leaves():
            en = [k for k in val if k.endswith('.chordal_decomposition_enable')]
            anyk = [k for k in val if k.startswith('any(')]
            dec = [k for k in val if k.startswith('is_decomposed(')]
            built = any(e[0] == 'call' and e[1] == 'new' for e in ev)
            if en and val[en[0]] == 0:
                R.check(not built, 'disabled' + tag, 'chordal analysis runs although disabled', f.loc())
            if anyk and val[anyk[0]] == 0:
                R.check(not built, 'no-psd' + tag, 'chordal analysis runs without a large PSD cone', f.loc())
            r = ret[1] if ret[0] == 's' else ''
            if dec and val[dec[0]] == 0:
                R.check(True, 'not-decomposed' + tag, '')
        R.check(any(k.endswith('.chordal_decomposition_enable') for val, ret, ev, tr in Walker(f).leaves() for k in val), 'enable-tested' + tag,
                'try_chordal_info does not test chordal_decomposition_enable', f.loc())
        R.check(any(k.startswith('is_decomposed(') for val, ret, ev, tr in Walker(f).leaves() for k in val), 'decomposed-tested' + tag,
                'try_chordal_info does not test is_decomposed', f.loc())
        cu = F.one(name='check_data_update_allowed')
        keys = set()
        for val, ret, ev, tr in Walker(cu).leaves():
            keys |= set(val)
        R.check(any('is_chordal_decomposed' in k or 'chordal_info' in k for k in keys), 'update-gate' + tag,
                'data updates are not gated on chordal decomposition: %s' % sorted(keys), cu.loc())

    R.guard(body)


def index_spaces(rep, F, tag):
    """The compact augmentation juggles four index spaces: rows of the original A (O), rows of the decomposed A (D),
    positions in the nonzero arrays, and vertices of a PSD block (V).  The entry positions themselves are index
    arithmetic and not decided; what is decided is that values cross between spaces only the documented way.
    Parameters are identified by their role in the caller (the loop-carried pointer that is passed in and assigned
    back from component .0 / .1 of the result), not by name or position."""
    R = rep.rule('C18.R4', 'compact augmentation: index-space discipline (decomposed-row pointer vs original row range, vertex-space stride, pointer threading)')

    def body():
        h = F.one(name='find_compact_A_b_and_cones')
        # which caller variables are assigned back from the results
        back = {}
        for bi, si, st in h.assignments():
            if st['p']['p']:
                continue
            v_ = canon(h.sym_rvalue(st['rv']))
            if v_.startswith('add_entries_') and v_.rsplit('.', 1)[-1] in ('0', '1'):
                back.setdefault(v_.split('(')[0], {})[v_.rsplit('.', 1)[-1]] = ('var', st['p']['l'])
        roles = {}
        for nm in ('add_entries_with_sparsity_pattern', 'add_entries_with_cone'):
            cs = calls_named(h, nm)
            R.check(len(cs) == 1 and nm in back and set(back[nm]) == {'0', '1'}, 'threaded-out|%s%s' % (nm, tag),
                    'the (row pointer, overlap pointer) pair returned by %s is not assigned back to two loop variables' % nm, h.loc())
            if len(cs) != 1 or nm not in back or set(back[nm]) != {'0', '1'}:
                continue
            pos = {}
            for comp in ('0', '1'):
                loc = back[nm][comp][1]
                hits = [i_ for i_, a in enumerate(cs[0].args) if h.sym_operand(a)[0] == 'var' and h.sym_operand(a)[1] == loc]
                R.check(len(hits) == 1, 'threaded-in|%s|%s%s' % (nm, comp, tag),
                        'the variable assigned from component .%s of %s is passed back in at %d positions (expected exactly one): the pointer is not threaded' % (comp, nm, len(hits)), h.loc(cs[0].sp))
                if len(hits) == 1:
                    pos[comp] = hits[0] + 1
            roles[nm] = pos
        R.check(back.get('add_entries_with_sparsity_pattern') == back.get('add_entries_with_cone') and len(back) == 2, 'threaded-same-vars' + tag,
                'the two add_entries_* calls thread different variables: %s' % back, h.loc())
        f = F.one(name='add_entries_with_sparsity_pattern')
        pr = roles.get('add_entries_with_sparsity_pattern', {}).get('0')
        if pr:
            # (a) the clique -> rows map of the *decomposed* problem starts at the running decomposed-row pointer
            c = one_call(f, 'clique_rows_map')
            src = f.sym_operand(c.args[0])
            a0 = canon(src)
            ok = False
            if src[0] == 'var':
                defs = [d for d in f.defs.get(src[1], []) if d[0] == 's' and f.dominates(d[1], c.bb)]
                first = [canon(f.sym_rvalue(f.blocks[d[1]]['s'][d[2]]['rv'])) for d in defs]
                ok = first == ['arg%d' % pr]
            else:
                ok = a0 == 'arg%d' % pr
            R.check(ok, 'clique-rows-base' + tag,
                    'clique_rows_map is based at %s: the row blocks of the decomposed cones start at the running decomposed-row pointer '
                    '(parameter %d, threaded by the caller), not at a row of the original problem' % (a0, pr), f.loc(c.sp))
        # (b) the stride of the (i, j) linearisation is the size of the space the vertices live in
        gb = one_call(f, 'get_block_indices')
        stride = canon(f.sym_operand(gb.args[2]))
        maps = [canon(g_.sym_local(0)) for g_ in F.closures_of.get(f.key, [])]
        vecs = set()
        for m_ in maps:
            if m_.startswith('index(') and m_.endswith(', arg2)'):
                vecs.add(m_[len('index('):-len(', arg2)')].split('.')[-1])
        R.check(len(vecs) == 1, 'vertex-map' + tag, 'vertices are renumbered through %s (expected one ordering vector)' % sorted(vecs), f.loc())
        if len(vecs) == 1:
            v = vecs.pop()
            R.check(stride.startswith('len(') and stride.endswith('.%s)' % v), 'vertex-stride' + tag,
                    'get_block_indices is given the stride %s, but the vertices it sorts are entries of `%s` (values below len(%s)): the key '
                    'j*stride + i orders the entries of a clique correctly only for stride = len(%s)' % (stride, v, v, v), f.loc(gb.sp))
        g = F.one(name='get_block_indices')
        keys = [canon(h_.sym_local(0)) for h_ in F.closures_of.get(g.key, [])]
        norm = [re.sub(r'arg1\._ref__\w+', 'UPVAR', k_.replace('withoverflow', '').replace(').0', ')')) for k_ in keys]
        R.check(len(keys) == 1 and norm[0] in ('add(mul(arg2.1, UPVAR), arg2.0)', 'add(mul(UPVAR, arg2.1), arg2.0)', 'add(arg2.0, mul(arg2.1, UPVAR))', 'add(arg2.0, mul(UPVAR, arg2.1))'),
                'sort-key' + tag, 'get_block_indices sorts by %s, expected column-major j*stride + i' % keys, g.loc())
        sk = calls_named(g, 'sort_by_cached_key') + calls_named(g, 'sort_by_key')
        R.check(len(sk) == 1 and canon(g.sym_operand(sk[0].args[1])) == 'closure(arg3)', 'sort-key-stride' + tag,
                'the stride captured by the sort key is not the vertex-count argument (closure captures %s)' % [canon(g.sym_operand(x.args[1])) for x in sk], g.loc())
        # (d) a cone that is not decomposed moves by the difference of the two spaces
        k = F.one(name='add_entries_with_cone')
        kr = roles.get('add_entries_with_cone', {})
        if kr.get('0') and kr.get('1'):
            offs = set()
            for bi, si, st in k.assignments():
                if st['p']['p']:
                    v_ = canon(k.sym_rvalue(st['rv'])).replace('withoverflow', '').replace(').0', ')')
                    m_ = re.search(r'checked_add_signed\(index\((arg\d+)\.(rowval|nzind), .*\), (sub\(.*\))\)\)$', v_)
                    if m_:
                        offs.add(m_.group(3))
            want = re.compile(r'sub\(arg%d, arg\d+\.start\)' % kr['0'])
            R.check(len(offs) == 1 and all(want.fullmatch(o) for o in offs), 'cone-offset' + tag,
                    'add_entries_with_cone shifts the rows of A and b by %s, expected (decomposed-row pointer) - (original row range).start for both' % sorted(offs), k.loc())
            ret = canon(k.sym_local(0)).replace('withoverflow', '').replace(').0', ')')
            R.check(re.fullmatch(r'tuple\((add\(arg%d, nvars\(arg\d+\)\)|add\(nvars\(arg\d+\), arg%d\)), arg%d\)' % (kr['0'], kr['0'], kr['1']), ret) is not None,
                    'cone-advance' + tag, 'add_entries_with_cone returns %s, expected (row pointer + cone.nvars(), overlap pointer)' % ret, k.loc())

    R.guard(body)


def completion_disjoint(rep, F, tag):
    """PSD completion fills the entries of z that the problem leaves free.  The block it writes, W[eta, nu] (and its
    transpose), must not touch the clique itself: eta has to exclude the separator alpha *and* the supernode nu, otherwise
    entries of the clique block - which are determined by the solve - are overwritten."""
    R = rep.rule('C18.R5', 'PSD completion writes only outside the clique: the row set it assigns excludes the separator and the supernode it is paired with')

    def body():
        f = F.one(name='psd_complete')
        sa = calls_named(f, 'subsasgn')
        R.check(len(sa) == 2, 'assign-sites' + tag, '%d subsasgn calls in psd_complete, expected the block and its transpose' % len(sa), f.loc())
        flt = calls_named(f, 'filter')
        cl = F.closures_of.get(f.key, [])
        if len(flt) != 1 or len(cl) != 1:
            R.bad('eta-filter' + tag, 'expected one filter closure defining the free rows (found %d filters, %d closures)' % (len(flt), len(cl)), f.loc())
            return
        cap = canon(f.sym_operand(flt[0].args[1]))
        captured = split_args(cap) if cap.startswith('closure(') else []
        g = cl[0]
        # decision table of the closure: true only if x is in none of the captured sets
        tested = set()
        ok_tab = True
        for val, ret, ev, tr in Walker(g).leaves():
            cs = {k: v for k, v in val.items() if k.startswith('contains(')}
            tested |= set(cs)
            res = None
            if ret[0] == 'c':
                res = bool(ret[1])
            elif ret[0] == 's' and str(ret[1]).startswith('not contains('):
                # the last test is returned negated: both outcomes
                k = str(ret[1])[4:]
                tested.add(k)
                continue
            if res is True and any(v == 1 for v in cs.values()):
                ok_tab = False
        R.check(ok_tab and len(tested) == len(captured) and len(captured) >= 2, 'eta-excludes-all' + tag,
                'the free row set is filtered by %s over the captured sets %s: it must exclude every captured clique set' % (sorted(tested), [c[:40] for c in captured]), g.loc())
        # parents before children: the supernodes are post-ordered, so the completion (and the row layout of the compact
        # augmentation) must walk the cliques in descending order
        for fn_, upper in (('psd_complete', r'sub\(arg2\.sntree\.n_cliques, 1_usize\)'), ('add_entries_with_sparsity_pattern', r'arg8\.sntree\.n_cliques'), ('clique_rows_map', r'arg2\.n_cliques')):
            g_ = F.one(name=fn_)
            its = [canon(g_.sym_operand(c_.args[0])).replace('withoverflow', '').replace(').0', ')') for c_ in g_.calls if c_.callee.name == 'into_iter']
            R.check(any(re.fullmatch(r'rev\(Range::Range\(0_usize, %s\)\)' % upper, x) for x in its), 'descending-order|%s%s' % (fn_, tag),
                    '%s iterates over %s: the cliques must be visited in descending (root-first) order' % (fn_, [x[:70] for x in its]), g_.loc())
        for c in sa:
            a = [canon(f.sym_operand(x)) for x in c.args]
            sets = [x for x in a[1:3] if not x.startswith('collect(filter(')]
            eta = [x for x in a[1:3] if x.startswith('collect(filter(')]
            R.check(len(sets) == 1 and len(eta) == 1 and sets[0] in captured, 'paired-set-excluded|%d%s' % (sa.index(c), tag),
                    'subsasgn writes W[%s, %s]: the free rows are not filtered against the set they are paired with (%s not among the sets the filter '
                    'excludes), so entries of the clique block itself are overwritten' % (a[1][:50], a[2][:50], sets[:1] and sets[0][:60]), f.loc(c.sp))

    R.guard(body)


def sparsity_mask(rep, F, tag):
    """The clique structure is built from the aggregate sparsity of [A b] on the rows of a PSD cone: a row that has an entry
    in A *or a nonzero constant in b* must be part of the pattern, otherwise it belongs to no clique ("every entry of the
    original constraint rows appears exactly once" fails: the row loses its slack, or its index stays unset)."""
    R = rep.rule('C18.R6', 'aggregate sparsity mask: every row of A with a stored entry and every row with b != 0 is marked')

    def body():
        f = F.one(name='find_aggregate_sparsity_mask')
        a_marked = b_marked = False
        b_test = []
        for val, ret, ev, tr in Walker(f, cut_loops=True).leaves():
            if ret[0] != 'cut':
                continue
            stores = [e for e in ev if e[0] == 'store' and str(e[2]) in ('1', 'true')]
            own = {k: v for k, v in val.items() if not k.startswith('discr(')}
            in_a = any('iter(arg1.rowval)' in k and v == 1 for k, v in val.items() if k.startswith('discr('))
            in_b = any('iter(arg2)' in k and v == 1 for k, v in val.items() if k.startswith('discr('))
            if in_a and not in_b and stores and not own:
                a_marked = True
            if in_b:
                for k, v in own.items():
                    b_test.append((k, v, bool(stores)))
        R.check(a_marked, 'A-rows' + tag, 'the rows of the stored entries of A are not all marked unconditionally', f.loc())
        ok = bool(b_test)
        for k, v, marked in b_test:
            is_ne = re.fullmatch(r'ne\(.*, zero\(\)\)', k) is not None or re.fullmatch(r'ne\(zero\(\), .*\)', k) is not None
            is_eq = re.fullmatch(r'eq\(.*zero\(\).*\)', k) is not None
            if is_ne:
                ok = ok and (marked == bool(v))
            elif is_eq:
                ok = ok and (marked == (not bool(v)))
            else:
                ok = False
        R.check(ok, 'b-rows' + tag, 'rows are marked from b under %s: a row must be marked exactly when its b entry is nonzero (either sign)' % [(k[:60], v, m) for k, v, m in b_test], f.loc())

    R.guard(body)


def overlap_average(rep, F, tag):
    """Standard-form reversal averages the dual over the cliques that share an entry: z[ri] /= (number of blocks containing row
    ri).  The list of overlapped rows and the list of divisors are zipped, so the divisors must be the row sums *selected at
    those rows* (same index list), not the full row-sum vector."""
    R = rep.rule('C18.R7', 'standard-form reversal: the overlap counts are the row sums of H selected at the overlapped rows (aligned with the row list)')

    def body():
        f = F.one(name='number_of_overlaps_in_rows')
        r = canon(f.sym_local(0))
        parts = split_args(r) if r.startswith('tuple(') else []
        cl = [canon(g.sym_local(0)) for g in F.closures_of.get(f.key, [])]
        ok = len(parts) == 2 and parts[1] == 'collect(map(iter(%s), closure(%s)))' % (parts[0], parts[0].split('iter(', 1)[1].split(')), closure', 1)[0] + ')' if 'iter(' in parts[0] else '?')
        # robust form: second component maps the *first* component through an indexing closure over the row-sum vector
        ok = len(parts) == 2 and parts[1].startswith('collect(map(iter(%s), closure(' % parts[0]) and any(re.fullmatch(r'index\(arg1\._ref__\w+, arg2\)', c) for c in cl)
        R.check(ok, 'aligned-counts' + tag,
                'number_of_overlaps_in_rows returns %s: the divisors must be the row sums taken at the returned row indices; zipping the row list with '
                'the full row-sum vector divides each shared dual entry by the count of an unrelated row' % r[:200], f.loc())
        R.check(any(c == 'lt(one(), arg2)' for c in cl), 'overlap-test' + tag, 'overlapped rows are selected by %s, expected row sum > 1' % cl, f.loc())
        g = F.one(name='decomp_reverse_standard')
        zs = [c for c in g.calls if c.callee.name == 'zip']
        a = [canon(g.sym_operand(x)) for x in zs[0].args] if len(zs) == 1 else []
        R.check(len(a) == 2 and a[0].endswith('.0') and a[1].endswith('.1') and a[0][:-2] == a[1][:-2], 'zip-components' + tag, 'decomp_reverse_standard zips %s' % a, g.loc())
        # z[ri] /= nnz, or z[ri] = z[ri] / nnz: the overlapped dual entry is divided by its own count
        ok = False
        seen_ = []
        dv = [c for c in g.calls if c.callee.name == 'div_assign']
        for c in dv:
            t0, t1 = canon(g.sym_operand(c.args[0])), canon(g.sym_operand(c.args[1]))
            seen_.append((t0[-40:], t1[-40:]))
            if len(dv) == 1 and t0.startswith('index_mut(arg2.z, ') and t0.endswith('@Some.0.0)') and t1.endswith('@Some.0.1'):
                ok = True
        if not dv:
            sts = []
            for val, ret, ev, tr in Walker(g, cut_loops=True).leaves():
                for e in ev:
                    if e[0] == 'store' and ('arg2.z' in str(e[1])):
                        sts.append((str(e[1]), str(e[2])))
            sts = sorted(set(sts))
            seen_ = [(a_[-40:], b_[-60:]) for a_, b_ in sts]
            if len(sts) == 1:
                t, v = sts[0]
                m_ = re.fullmatch(r'(?:index_mut\(arg2\.z, (.*)\)|arg2\.z\[(.*)\])', t)
                I = (m_.group(1) or m_.group(2)) if m_ else None
                if I is not None and I.endswith('@Some.0.0'):
                    base = I[:-len('.0')]
                    ok = v in ('div(index(arg2.z, %s), %s.1)' % (I, base), 'div(arg2.z[%s], %s.1)' % (I, base))
        R.check(ok, 'average' + tag, 'the average is %s' % seen_, g.loc())

    R.guard(body)


def completion_target(rep, F, tag):
    """Only decomposed PSD cones carry a sparsity pattern; a pattern knows its cone through orig_index (an index into the *original*
    cone list).  The dual completion must therefore address z by the row range of cone number pattern.orig_index of init_cones -
    pairing patterns positionally with "the PSD cones" hits the wrong block as soon as a dense PSD cone precedes a decomposed one."""
    R = rep.rule('C18.R8', 'psd_completion completes, for each pattern, the z block of the original cone pattern.orig_index')

    def body():
        f = F.one(name='psd_completion')
        n = 0
        for val, ret, ev, tr in Walker(f, cut_loops=True).leaves():
            for e in ev:
                if e[0] == 'call' and e[1] == 'complete':
                    n += 1
                    a = split_args(str(e[2]))
                    pat = a[1]
                    m = re.fullmatch(r'index_mut\(arg2\.z, (.*)\)', a[0])
                    rng = m.group(1) if m else ''
                    # the range expression: selected out of rng_cones_iter(init_cones) by this pattern's orig_index, with no positional pairing
                    ok = ('rng_cones_iter(self.init_cones)' in rng and ('%s.orig_index' % pat) in rng and 'zip(' not in rng and 'filter(' not in rng and 'enumerate(' not in rng)
                    R.check(ok and 'self.spatterns' in pat, 'block-by-orig-index' + tag,
                            'psd_completion completes %s for the pattern %s: the block must be the row range of the original cone number '
                            'pattern.orig_index (init_cones), not a positional pairing' % (a[0][:160], pat[:60]), f.loc())
        R.check(n >= 1, 'complete-call' + tag, 'no complete() call found in psd_completion', f.loc())

    R.guard(body)


def reversal_index_agreement(rep, F, tag):
    """Compact-form reversal copies each clique block of the decomposed (s, z) back into the original cone's rows.  Slack and dual travel
    together: the write into new_s and the write into new_z must address the same position (the cone's row offset + the packed
    triangle offset) and read the same position of the decomposed vector (block pointer + running counter).  Sibling-agreement rule
    on the two statements, modulo the vector names."""
    R = rep.rule('C18.R11', 'compact reversal: the s and z statements of each block copy address identical positions (row offset + triangle offset <- block pointer + counter)')

    def body():
        n = 0
        for nm, tgt_s, src_s, tgt_z, src_z in (('add_blocks_with_sparsity_pattern', 'arg1', 'arg2', 'arg3', 'arg4'), ('add_blocks_with_cone', 'arg1', 'arg2', 'arg3', 'arg4')):
            fs = [f for f in F.find(name=nm) if 'reverse_compact' in f.file]
            if len(fs) != 1:
                raise AnchorError('%s matched %d functions' % (nm, len(fs)))
            f = fs[0]
            S, Z = set(), set()
            for val, ret, ev, tr in Walker(f, cut_loops=True).leaves():
                for e in ev:
                    if e[0] == 'store':
                        t, v = str(e[1]), str(e[2])
                    elif e[0] == 'call' and e[1] in ('add_assign', 'copy_from', 'copy_from_slice'):
                        a = split_args(str(e[2]))
                        t, v = a[0], a[1]
                    else:
                        continue
                    t = t.replace('withoverflow', '').replace(').0', ')')
                    v = v.replace('withoverflow', '').replace(').0', ')')
                    if re.search(r'\b%s\b' % tgt_s, t) and re.search(r'\b%s\b' % src_s, v):
                        S.add((re.sub(r'\b%s\b' % tgt_s, 'NEW', t), re.sub(r'\b%s\b' % src_s, 'OLD', v)))
                    elif re.search(r'\b%s\b' % tgt_z, t) and re.search(r'\b%s\b' % src_z, v):
                        Z.add((re.sub(r'\b%s\b' % tgt_z, 'NEW', t), re.sub(r'\b%s\b' % src_z, 'OLD', v)))
            n += 1
            R.check(len(S) == 1 and S == Z, 'same-positions|%s%s' % (nm, tag),
                    '%s copies the slack with %s but the dual with %s: both must go to the same position of the original cone (row offset of the cone + offset in the '
                    'packed triangle) from the same position of the decomposed vector' % (nm, sorted(S)[:1], sorted(Z)[:1]), f.loc())
            if nm == 'add_blocks_with_sparsity_pattern' and len(S) == 1:
                t, v = list(S)[0]
                R.check(('arg5' in t) and ('arg9' in v and 'counter' in v), 'offsets-present|%s%s' % (nm, tag),
                        '%s writes %s from %s: the target must be offset by the cone\'s row range and the source by the block pointer and the running counter' % (nm, t[:100], v[:80]), f.loc())
        R.check(n == 2, 'count' + tag, '%d block-copy routines analysed' % n)

    R.guard(body)


def completion_numbering(rep, F, tag):
    """psd_complete works in the vertex numbering of the clique tree and assumes that the numbers increase along the post-order of
    the supernodes.  That numbering is produced by reorder_snode_consecutively, which must hand out consecutive numbers walking
    snode_post (not the storage order of the supernodes); psd_complete must gather the dual with the pattern's ordering p and
    scatter it back with the inverse permutation, not the other way round (both compose to the identity on an untouched matrix)."""
    R = rep.rule('C18.R12', 'completion works in the clique-tree numbering: consecutive vertex numbers follow snode_post; gather with the ordering, scatter with its inverse')

    def body():
        g = F.one(name='reorder_snode_consecutively')
        EL = 'index_mut(self.snode, next(into_iter(iter(self.snode_post)))@Some.0)'
        seq = [(c.callee.name, [canon(g.sym_operand(a)) for a in c.args]) for c in g.calls if c.callee.name in ('clear', 'extend')]
        snode_ops = [(n_, a) for n_, a in seq if 'separators' not in a[0]]
        ok = (len(snode_ops) == 2 and all(a[0] == EL for n_, a in snode_ops)
              and re.fullmatch(r'Range::Range\(var:k, addwithoverflow\(var:k, len\(%s\)\)\.0\)' % re.escape(EL), snode_ops[1][1][1]) is not None)
        R.check(ok, 'post-order-numbering' + tag,
                'reorder_snode_consecutively renumbers %s: the supernodes must receive the ranges k..k+n in the order of snode_post (the completion and the separators assume numbers '
                'that increase along the post-order)' % [(n_, a[0][:70]) for n_, a in snode_ops], g.loc())
        f = F.one(name='psd_complete')
        subs = [[canon(f.sym_operand(a)) for a in c.args] for c in f.calls if c.callee.name == 'subsref']
        W = 'zeros(tuple(ncols(arg1), ncols(arg1)))'
        gather = [a for a in subs if a[0] == W and a[1] == 'arg1']
        scatter = [a for a in subs if a[0] == 'arg1' and a[1] == W]
        R.check(len(gather) == 1 and gather[0][2:] == ['arg2.ordering', 'arg2.ordering'], 'gather-with-ordering' + tag,
                'psd_complete gathers the dual with %s, expected W = A[p, p] with p = pattern.ordering' % [a[2:] for a in gather], f.loc())
        R.check(len(scatter) == 1 and scatter[0][2:] == ['invperm(arg2.ordering)', 'invperm(arg2.ordering)'], 'scatter-with-inverse' + tag,
                'psd_complete writes the completion back with %s, expected A = W[ip, ip] with ip = invperm(pattern.ordering)' % [a[2:] for a in scatter], f.loc())

    R.guard(body)


def cone_rows_shift(rep, F, tag):
    """Compact augmentation, cones that are not decomposed: the cone's rows move from the original range to the running row pointer.  The row
    indices of A *and* the indices of the sparse right-hand side b must be shifted by the same offset row_ptr - row_range.start - if b is
    copied unshifted, every cone after a decomposed PSD cone gets its right-hand side on the wrong rows."""
    R = rep.rule('C18.R13', 'compact augmentation of an undecomposed cone: the indices of b and the row indices of A are shifted by the same offset row_ptr - row_range.start')

    def body():
        fs = [x for x in F.find(name='add_entries_with_cone') if 'augment_compact' in x.file]
        if len(fs) != 1:
            raise AnchorError('add_entries_with_cone matched %d functions' % len(fs))
        f = fs[0]
        nz = lambda t: t.replace('withoverflow', '').replace(').0', ')')
        OFF = 'sub(arg9, arg7.start)'
        got = {}
        for val, ret, ev, tr in Walker(f, cut_loops=True, local_stores=True).leaves():
            for e in ev:
                t, v = None, None
                if e[0] == 'store':
                    t, v = nz(str(e[1])), nz(str(e[2]))
                elif e[0] == 'call' and e[1] in ('copy_from_slice', 'clone_from_slice', 'copy_from'):
                    a = split_args(nz(str(e[2])))
                    t, v = a[0], 'COPY(%s)' % a[1]
                if t is None:
                    continue
                if t.startswith(('arg1[', 'index_mut(arg1')):
                    got.setdefault('A', set()).add(v)
                elif t.startswith(('arg2[', 'index_mut(arg2')):
                    got.setdefault('b', set()).add(v)
        for which, src in (('A', 'arg5.rowval'), ('b', 'arg6.nzind')):
            vs = got.get(which, set())
            ok = len(vs) == 1 and re.fullmatch(r'unwrap\(checked_add_signed\(index\(%s, .*\), %s\)\)|add\(index\(%s, .*\), .*\)' % (re.escape(src), re.escape(OFF), re.escape(src)), list(vs)[0]) is not None
            R.check(ok, 'shifted|%s%s' % (which, tag),
                    'the new %s indices are %s: each must be the original index shifted by row_ptr - row_range.start' % ('row' if which == 'A' else 'right-hand-side', sorted(x[:110] for x in vs)), f.loc())

    R.guard(body)


def pattern_owner(rep, F, tag):
    """The sparsity patterns are stored in cone order, each with the index of the cone it decomposes (orig_index).  Whoever walks the
    original cones and the patterns side by side may take the next pattern only for the cone whose index *is* its orig_index - a PSD cone
    that was not decomposed (dense, or all cliques merged back) has no pattern, so `the next PSD cone' is not `the next pattern's cone'."""
    R = rep.rule('C18.R14', 'walking cones and sparsity patterns side by side: a pattern is consumed only for the cone whose index equals its orig_index')

    def body():
        n = 0
        for f in F.fns:
            if 'src/solver/chordal/' not in f.file:
                continue
            if not any((c.callee.path or '').endswith('::peekable') or (c.callee.method == 'peekable') for c in f.calls):
                continue
            try:
                leaves = Walker(f, cut_loops=True).leaves()
            except Exception:
                continue
            for val, ret, ev, tr in leaves:
                took = [str(e[2]) for e in ev if e[0] == 'call' and e[1] == 'next' and 'self.spatterns' in str(e[2]) and 'peekable' in str(e[2])]
                if not took:
                    continue
                cone_it = [k for k, v in val.items() if k.startswith('discr(next(') and '@Some' not in k and 'init_cones' in k and v == 1]
                if not cone_it:
                    continue
                n += 1
                own = [k for k, v in val.items() if k.startswith('eq(') and '.orig_index' in k and '@Some.0.0' in k and v == 1]
                R.check(bool(own), 'owner|%s%s' % (f.name, tag),
                        '%s takes the next sparsity pattern in a pass over the original cones without having tested that its orig_index is this cone\'s '
                        'index (path: %s): an undecomposed PSD cone ahead of a decomposed one then gets the wrong pattern' % (f.name, {k[:70]: v for k, v in val.items()}), f.loc())
        R.check(n >= 3, 'instances' + tag, 'only %d cone/pattern walks found (standard and compact augmentation, dimension count expected)' % n)

    R.guard(body)


def block_indices_upper(rep, F, tag):
    """The compact augmentation lists the entries of a clique block as (row, col) pairs of the *upper* triangle and sorts them by col * nv + row.  The vertices
    have already been mapped back to the original numbering, where a supernode vertex can be smaller or larger than a separator vertex: a pair is in the upper
    triangle only if it was tested (i <= j) or built as (min, max).  An unordered pair addresses the transposed position: the block's rows are laid out
    in the wrong order and the decomposed problem is a different problem."""
    R = rep.rule('C18.R15', 'get_block_indices pushes only pairs with row <= col: tested on the path, or built as (min, max)')

    def body():
        fs = F.find(name='get_block_indices')
        if len(fs) != 1:
            raise AnchorError('get_block_indices matched %d functions' % len(fs))
        f = fs[0]
        n = 0
        for val, ret, ev, tr in Walker(f, cut_loops=True).leaves():
            for e in ev:
                if e[0] != 'call' or e[1] != 'push':
                    continue
                a = split_args(str(e[2]))
                if len(a) != 2 or not a[1].startswith('tuple('):
                    continue
                t = split_args(a[1])
                if len(t) != 3:
                    continue
                n += 1
                mm = re.fullmatch(r'min\((.*)\)', t[0]) and re.fullmatch(r'max\((.*)\)', t[1]) and sorted(split_args(t[0])) == sorted(split_args(t[1]))
                strip = lambda k: re.sub(r'#\d+$', '', k)
                tested = any(strip(k) in ('le(%s, %s)' % (t[0], t[1]), 'lt(%s, %s)' % (t[0], t[1])) and v == 1 for k, v in val.items()) or \
                    any(strip(k) in ('gt(%s, %s)' % (t[0], t[1]), 'lt(%s, %s)' % (t[1], t[0])) and v == 0 for k, v in val.items())
                R.check(bool(mm) or tested, 'upper|%s%s' % (t[2], tag),
                        'get_block_indices pushes the pair (%s, %s) on a path that has not established row <= col (tests: %s): for a supernode vertex larger than a '
                        'separator vertex this is a position of the lower triangle' % (t[0][:50], t[1][:50], [k[:60] for k in val if k.startswith(('le(', 'lt(', 'gt('))]), f.loc())
        R.check(n >= 3, 'pushes' + tag, 'only %d pushes analysed in get_block_indices' % n)

    R.guard(body)


def clique_buffer_sized(rep, F, tag):
    """The reversal of the compact form loads each clique into a caller-provided buffer (allocated once for the largest clique) and then sorts and iterates
    the *whole* buffer: it must be cut to the clique's length first, otherwise leftover vertices of a previous, larger clique are treated as members."""
    R = rep.rule('C18.R16', 'compact reversal: the clique buffer is resized to the clique before it is filled, sorted and iterated as a whole')

    def body():
        fs = [x for x in F.find(name='add_blocks_with_sparsity_pattern') if 'reverse_compact' in x.file]
        if len(fs) != 1:
            raise AnchorError('reverse_compact::add_blocks_with_sparsity_pattern matched %d functions' % len(fs))
        f = fs[0]
        whole = [c for c in f.calls if c.callee.name in ('iter', 'sort', 'sort_unstable', 'iter_mut') and c.args and canon(f.sym_operand(c.args[0])) == 'arg8']
        rs = [c for c in f.calls if c.callee.name == 'resize' and c.args and canon(f.sym_operand(c.args[0])) == 'arg8']
        R.check(len(whole) >= 2, 'whole-uses' + tag, 'only %d whole-buffer uses found' % len(whole), f.loc())
        ok = len(rs) == 1 and re.fullmatch(r'len\(get_clique\(arg6\.sntree, arg7\)\)', canon(f.sym_operand(rs[0].args[1]))) is not None
        ok = ok and all(f.dominates(rs[0].bb, c.bb) for c in whole)
        R.check(ok, 'resized-first' + tag,
                'the clique buffer is sorted / iterated as a whole without having been resized to len(clique) first (resize calls: %s): after a larger clique the tail '
                'of the buffer still holds its vertices' % [canon(f.sym_operand(c.args[1]))[:60] for c in rs], f.loc())

    R.guard(body)


def row_search_window(rep, F, tag):
    """get_row_index looks for the stored entry with row value k_shift = row_range.start + k inside a column whose rows are sorted and distinct, searching only
    rowval[l..u].  The entry, if present, sits at a position <= l + k_shift, so the window must reach l + k_shift + 1 (or the column end): one short, and the
    (0,0) entry of a PSD cone that is the first cone keeps its placeholder row (the transformed A is malformed; the constructor panics)."""
    R = rep.rule('C18.R17', 'get_row_index: the search window reaches min(column end, column start + k_shift + 1)')

    def body():
        from .c14 import _txt_eval, _NoDerivative
        from engine.linform import RatF, P_atom, P_const
        fs = F.find(name='get_row_index')
        if len(fs) != 1:
            raise AnchorError('get_row_index matched %d functions' % len(fs))
        f = fs[0]
        nz = lambda t: t.replace('withoverflow', '').replace(').0', ')')
        pp = [c for c in f.calls if c.callee.name == 'partition_point']
        if not R.check(len(pp) == 1, 'one-search' + tag, '%d partition_point calls' % len(pp), f.loc()):
            return
        src = nz(canon(f.sym_operand(pp[0].args[0])))
        m = re.fullmatch(r'index\(arg2, Range::Range\(arg4\.start, (.*)\)\)', src)
        if not R.check(m is not None, 'window-shape' + tag, 'the search runs over %s, expected rowval[row_range_col.start .. u]' % src[:120], f.loc()):
            return
        u = m.group(1)
        mm = re.fullmatch(r'min\((.*)\)', u)
        ops = split_args(u) if mm else [u]
        A = lambda n_: RatF(P_atom(n_))
        scal = {'arg4.start': A('cs'), 'arg4.end': A('ce'), 'arg3.start': A('rs'), 'arg1': A('k')}
        ok = False
        try:
            others = [o for o in ops if o != 'arg4.end']
            if len(others) == 1 and (len(ops) == 1 or 'arg4.end' in ops):
                got = _txt_eval(re.sub(r'\b(\d+)_usize\b', r'\1', others[0]), scal, {})
                diff = got + (A('cs') + A('rs') + A('k')) * RatF(P_const(-1))
                # diff must be a constant >= 1
                if not diff.n:
                    c = 0
                elif len(diff.n) == 1 and list(diff.n.keys())[0] == () and diff.d == P_const(1):
                    c = list(diff.n.values())[0]
                else:
                    c = None
                ok = c is not None and c >= 1
        except (_NoDerivative, AttributeError):
            ok = False
        R.check(ok, 'window-reaches-entry' + tag, 'the search window ends at %s: it must reach column start + (row_range.start + k) + 1 (the entry with row value k_shift can sit '
                'that far into a sorted column)' % u[:120], f.loc())

    R.guard(body)


def run(ctx, rep, tier):
    stage_rules(ctx, rep, 'C18.R1')
    for cfg in (CONFIGS_THOROUGH if tier == 'thorough' else CONFIGS):
        F = ctx.facts(cfg)
        tag = '[%s]' % cfg
        reversal_shape(rep, F, tag)
        gates(rep, F, tag)
        index_spaces(rep, F, tag)
        completion_disjoint(rep, F, tag)
        sparsity_mask(rep, F, tag)
        overlap_average(rep, F, tag)
        completion_target(rep, F, tag)
        reversal_index_agreement(rep, F, tag)
        completion_numbering(rep, F, tag)
        cone_rows_shift(rep, F, tag)
        pattern_owner(rep, F, tag)
        block_indices_upper(rep, F, tag)
        clique_buffer_sized(rep, F, tag)
        row_search_window(rep, F, tag)
        # the decomposed problem is equivalent only if the merged cliques still form a clique tree (C17.R8 re-run)
        from . import c17, c04
        c17.tree_from_graph(c04._Ren(rep, 'C17.R8', 'C18.R10'), F, tag)
        # updates must be refused for every decomposed problem, compact or standard (C08.R1 re-run)
        from . import c08, c04
        c08.gate(c04._Ren(rep, 'C08.R1', 'C18.R9'), F, tag)
    from . import c05
    for cfg in CONFIGS:
        c05.hash_order(rep, ctx.facts(cfg), ctx.cg(cfg), '[%s]' % cfg)
