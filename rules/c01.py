"""C01 -- a 'Solved' verdict is a certified approximate optimum (structural clauses)"""
from engine.mir import last_seg, show, AnchorError
from engine.preds import canon, Walker, decision_table
from .common import *
from . import shared

CONFIGS = ['default', 'full']
TECHNIQUE = 'MIR effect analysis (who-may-write), decision-table extraction, dominance/path rules, units abstract interpretation'
EXPLANATION = (
    "Decides, for all inputs, the structural necessary conditions of C01 on the MIR of the current tree: "
    "(R1) the Solved constant is constructed once and reaches DefaultInfo.status only through check_convergence; "
    "who-may-write(status); (R2) the decision tables of is_solved / check_convergence equal the documented test; "
    "(R3) the full (un-reduced) tolerances are plumbed position by position; (R4) no write to the iterate or to the "
    "reported scalars between the deciding check_termination and post_process, unscale before copy-out; "
    "(R5/R6/R7) units abstract interpretation: reported residuals/costs and returned x,s,z are exactly "
    "un-equilibrated and tau-normalised, residual definitions (signed linear forms: rx = -Px - A'z - tau q, rz = Ax + s - tau b, ...); (R8) caches and mirrors follow the data; (R9) the units premises hold: equilibrate establishes P~d d c, A~e d, q~d c, b~e and every update form / cached norm keeps them; (R10) stage dataflow of DefaultProblemData::new: no stale input after a reducing stage, construction order presolve -> decomposition, mirrored reversal. NOT decided: that iterates are in K x K*, numerical "
    "accuracy of the KKT solves, rounding."
    " (R14) presolve drops a row only if the entry b[idx] itself is at/above the contracted bound (C09.R2 re-run)."
    ' R7 also: every vector norm in Info::update is the Euclidean norm_scaled (an infinity norm understates the residual by up to sqrt(m)).')
ASSUMPTIONS = [
    'rustc MIR construction and trait resolution are correct',
    'crate-local traits are implemented only inside the crate (class-hierarchy resolution is complete)',
    'algebra primitives (norm_scaled, hadamard, dot, gemv, ...) have their documented meaning (C16 territory)',
]


def run(ctx, rep, tier):
    for cfg in CONFIGS:
        F = ctx.facts(cfg)
        E = ctx.eff(cfg)
        tag = '' if cfg == 'default' else '[%s]' % cfg
        shared.status_provenance(rep, F, E, tag, 'C01.R1', statuses=('Solved',), full_fn='check_convergence_full',
                                 slot=9)
        shared.pred_is_solved(rep, F, tag, 'C01.R2')
        shared.pred_check_convergence(rep, F, tag, 'C01.R2')
        shared.tolerance_plumbing(rep, F, tag, 'C01.R3', which='full')
        shared.freshness(rep, F, E, ctx.cg(cfg), tag, 'C01.R4')
        shared.unscale_before_copy(rep, F, E, tag, 'C01.R6')
    from . import units_rules, c08
    units_rules.c01(ctx, rep)
    # the cached norms that normalise the residual figures must follow in-place data updates
    sub = _Renamed(rep, 'C08.R4', 'C01.R8')
    c08.caches_and_mirrors(sub, ctx.facts('default'), ctx.eff('default'), ctx.cg('default'), '')
    # the internal problem the verdict is about is built from the presolved-or-original data consistently
    from . import c18
    c18.stage_rules(ctx, rep, 'C01.R10')
    # the verdict is about the user's cone only if equilibration scales non-separable cones uniformly (C10.R4 re-run)
    from . import c10, c04
    for cfg in CONFIGS:
        c10.rectification(c04._Ren(rep, 'C10.R4', 'C01.R12'), ctx.facts(cfg), '' if cfg == 'default' else '[%s]' % cfg)
        c10.identity_init(c04._Ren(rep, 'C10.R5', 'C01.R13'), ctx.facts(cfg), '' if cfg == 'default' else '[%s]' % cfg)
    from . import primitives
    primitives.vector_primitives(rep, ctx.facts('default'), ctx.eff('default'), '', 'C01.R11')
    # the reduced problem the verdict is computed on is the user's problem only if presolve removes nothing but +infinity rows (C09.R2 re-run)
    from . import c09
    c09.drop_condition(c04._Ren(rep, 'C09.R2', 'C01.R14'), ctx.facts('default'), '')
    # the certified point lies in K x K* only if the line searches test membership of the right sets (C14.R14 re-run)
    from . import c14
    c14.membership_definitions(c04._Ren(rep, 'C14.R14', 'C01.R15'), ctx.facts('default'), ctx.eff('default'), '')


class _Renamed:
    """report facade that files a shared rule under this property's own rule id"""

    def __init__(self, rep, old, new):
        self.rep, self.old, self.new = rep, old, new
        self.assumptions = rep.assumptions

    def rule(self, rid, desc):
        return self.rep.rule(self.new if rid == self.old else rid, desc)
