"""type-level witnesses: rustdoc compile_fail / compiling twins (nightly honours the error codes)"""
import os
import re
import shutil
import subprocess
from engine.framework import VERIF, REPO, CACHE, TAG

GROUPS = {
    'send': ['Send_'],
    'stream_sync': ['StreamSync'],
    'update_needs_mut': ['UpdateNeedsMut'],
    'private_stream': ['PrivateStream'],
}
EXPECT = {'Send_': 1, 'StreamSync': 2, 'UpdateNeedsMut': 2, 'PrivateStream': 2}


def run(rep, rid, groups):
    R = rep.rule(rid, 'type-level witnesses (compiling twin + compile_fail twin with error code)')
    wdir = os.path.join(CACHE, 'witness%s' % TAG)
    os.makedirs(os.path.join(wdir, 'src'), exist_ok=True)
    shutil.copy(os.path.join(VERIF, 'witness', 'src', 'lib.rs'), os.path.join(wdir, 'src', 'lib.rs'))
    with open(os.path.join(VERIF, 'witness', 'Cargo.toml.tmpl')) as fh:
        t = fh.read().replace('@REPO@', REPO)
    with open(os.path.join(wdir, 'Cargo.toml'), 'w') as fh:
        fh.write(t)
    lock = os.path.join(REPO, 'Cargo.lock')
    if os.path.exists(lock):
        shutil.copy(lock, os.path.join(wdir, 'Cargo.lock'))
    env = dict(os.environ)
    env['CARGO_TARGET_DIR'] = os.path.join(CACHE, 'target-witness')
    env['CARGO_NET_OFFLINE'] = 'true'
    p = subprocess.run(['cargo', '+nightly', 'test', '--doc', '--offline'], cwd=wdir, env=env, stdout=subprocess.PIPE,
                       stderr=subprocess.STDOUT, text=True)
    out = p.stdout
    res = {}
    for m in re.finditer(r'test src/lib\.rs - (\w+) \(line (\d+)\)( - compile fail)?( - compile)? \.\.\. (\w+)', out):
        res.setdefault(m.group(1), []).append((int(m.group(2)), bool(m.group(3)), m.group(5)))
    for g in groups:
        for item in GROUPS[g]:
            rs = res.get(item, [])
            R.check(len(rs) == EXPECT[item] and all(r[2] == 'ok' for r in rs), 'witness|%s' % item,
                    'type-level witness %s: %s (cargo rc=%d)%s' % (item, rs, p.returncode, '' if rs else ' -- ' + out[-400:].replace('\n', ' | ')),
                    'witness/src/lib.rs')
