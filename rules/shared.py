"""rule bodies shared by C01 / C02 / C03 / C04 / C07 / C20 (termination, status, report)"""
from engine.mir import last_seg, show, AnchorError, strip_generics
from engine.preds import canon, Walker, decision_table, ShapeError
from engine.effects import IDX, fmt_path
from .common import *

INFO = 'DefaultInfo'
REPORTED = ('cost_primal', 'cost_dual', 'res_primal', 'res_dual', 'gap_abs', 'gap_rel')


def info_fn(F, name):
    return F.one(name=name, adt=INFO)


def solve_fn(F):
    return F.one(name='solve', trait='IPSolver')


# ---------------------------------------------------------------------------
# status provenance
# ---------------------------------------------------------------------------

STATUS_WRITERS = {'reset', 'check_termination', 'check_convergence', 'set_status'}
SET_STATUS_ALLOWED = {'Unsolved', 'NumericalError', 'InsufficientProgress'}


def status_provenance(rep, F, E, tag, rid, statuses, full_fn, slot):
    R = rep.rule(rid, 'status provenance: who constructs the verdict constants, who may write '
                      'DefaultInfo.status / DefaultSolution.status, set_status arguments')

    def body():
        # (a) constructor sites of the verdict constants
        for st in statuses:
            sites = adt_constructions(F, 'SolverStatus', st)
            fnames = sorted(set(s[0].name for s in sites))
            for s in sites:
                R.check(s[0].name == full_fn and s[0].impl_adt and last_seg(strip_generics(s[0].impl_adt)) == INFO,
                        'ctor|%s|%s%s' % (st, short(s[0].key), tag),
                        'SolverStatus::%s is constructed in %s; only DefaultInfo::%s may produce it' % (
                            st, s[0].key, full_fn), s[0].loc(s[2]))
            R.check(len(sites) >= 1, 'ctor-exists|%s%s' % (st, tag),
                    'no construction site of SolverStatus::%s found (anchor drift)' % st)
        # (b) direct writers of DefaultInfo.status
        dw = E.direct_writers_of(INFO, 'status')
        for k, hits in dw.items():
            f = F.by_key[k][0]
            if f.impl_exp or f.from_expansion:
                continue
            R.check(f.name in STATUS_WRITERS and f.impl_adt and last_seg(strip_generics(f.impl_adt)) == INFO,
                    'writer|%s%s' % (short(k), tag),
                    '%s writes DefaultInfo.status directly; allowed writers are %s' % (k, sorted(STATUS_WRITERS)),
                    f.loc(hits[0][1]))
        found = set(F.by_key[k][0].name for k in dw)
        for w in sorted(STATUS_WRITERS):
            R.check(w in found, 'writer-present|%s%s' % (w, tag), 'expected status writer %s not found' % w)
        # in check_convergence every stored value is one of the three status parameters
        cc = info_fn(F, 'check_convergence')
        for val, ret, ev, tr in Walker(cc).leaves():
            for e in ev:
                if e[0] == 'store' and e[1] == 'self.status':
                    R.check(e[2] in ('arg9', 'arg10', 'arg11'), 'cc-store|%s%s' % (e[2], tag),
                            'check_convergence stores %s into status (must be one of its three status parameters)' % e[2],
                            cc.loc())
        # (c) set_status call sites
        n = 0
        for f in F.fns:
            for c in f.calls:
                if c.callee.name == 'set_status' and (c.callee.trait or '').endswith('Info'):
                    n += 1
                    a = f.sym_operand(c.args[1])
                    v = const_variant(a)
                    R.check(v in SET_STATUS_ALLOWED, 'set_status|%s|%s%s' % (short(f.key), v, tag),
                            'set_status(%s) in %s: only %s may be set from outside the convergence test' % (
                                show(a), f.key, sorted(SET_STATUS_ALLOWED)), f.loc(c.sp))
        R.check(n >= 4, 'set_status-sites%s' % tag, 'only %d set_status call sites found, expected >= 4' % n)
        # (d) DefaultSolution.status
        dw = E.direct_writers_of('DefaultSolution', 'status')
        for k, hits in dw.items():
            f = F.by_key[k][0]
            R.check(f.name == 'post_process', 'solstatus-writer|%s%s' % (short(k), tag),
                    '%s writes DefaultSolution.status; only post_process may' % k, f.loc(hits[0][1]))
        pp = F.one(name='post_process', adt='DefaultSolution')
        ok = False
        for bi, si, st in pp.assignments():
            if st['p']['p'] and canon(pp.sym_place(st['p'])) == 'self.status':
                src = canon(pp.sym_rvalue(st['rv']))
                ok = True
                R.check(src == 'arg4.status', 'solstatus-src%s' % tag,
                        'solution.status is assigned from %s, expected info.status' % src, pp.loc(st['sp']))
        R.check(ok, 'solstatus-assign%s' % tag, 'no assignment to solution.status in post_process')

    R.guard(body)


# ---------------------------------------------------------------------------
# predicates
# ---------------------------------------------------------------------------

def _table(R, f, expected, key, what, required_atoms):
    try:
        n, mism, atoms = decision_table(f, expected)
    except ShapeError as e:
        R.bad(key + ':shape', 'cannot extract decision table of %s: %s' % (f.key, e), f.loc())
        return
    missing = [a for a in required_atoms if a not in atoms]
    R.check(not missing, key + ':atoms', '%s: expected comparison atoms %s not found in %s (found %s)' % (
        what, missing, f.key, sorted(atoms)), f.loc())
    if mism:
        v, got, exp = mism[0]
        R.bad(key, '%s: body returns %s where the documented formula gives %s under %s (%d mismatching rows)' % (
            what, got, exp, {k: x for k, x in v.items()}, len(mism)), f.loc(), detail={'rows': len(mism)})
    else:
        R.ok(key, {'leaves': n, 'atoms': sorted(atoms)})


def pred_is_solved(rep, F, tag, rid):
    R = rep.rule(rid, 'decision tables of the termination predicates equal the documented formulas')

    def body():
        f = info_fn(F, 'is_solved')
        A = ['lt(self.gap_abs, arg2)', 'lt(self.gap_rel, arg3)', 'lt(self.res_primal, arg4)',
             'lt(self.res_dual, arg4)']
        _table(R, f, lambda v: (v[A[0]] or v[A[1]]) and v[A[2]] and v[A[3]], 'is_solved' + tag,
               'is_solved = (gap_abs<tol_gap_abs or gap_rel<tol_gap_rel) and res_primal<tol_feas and res_dual<tol_feas',
               A)

    R.guard(body)


def pred_infeasible(rep, F, tag, rid):
    R = rep.rule(rid, 'decision tables of the termination predicates equal the documented formulas')

    def body():
        f = info_fn(F, 'is_primal_infeasible')
        A = ['lt(arg2.dot_bz, neg(arg3))', 'lt(self.res_primal_inf, mul(neg(arg4), arg2.dot_bz))']
        _table(R, f, lambda v: v[A[0]] and v[A[1]], 'is_primal_infeasible' + tag,
               'is_primal_infeasible = dot_bz < -tol_abs and res_primal_inf < -tol_rel*dot_bz', A)
        f = info_fn(F, 'is_dual_infeasible')
        A2 = ['lt(arg2.dot_qx, neg(arg3))', 'lt(self.res_dual_inf, mul(neg(arg4), arg2.dot_qx))']
        _table(R, f, lambda v: v[A2[0]] and v[A2[1]], 'is_dual_infeasible' + tag,
               'is_dual_infeasible = dot_qx < -tol_abs and res_dual_inf < -tol_rel*dot_qx', A2)

    R.guard(body)


def pred_check_convergence(rep, F, tag, rid):
    """which status parameter is stored under which condition"""
    R = rep.rule(rid, 'decision tables of the termination predicates equal the documented formulas')

    def body():
        f = info_fn(F, 'check_convergence')
        KT1 = 'le(self.ktratio, one())'
        SOL = 'is_solved(self, arg3, arg4, arg5)'
        KT2 = 'lt(mul(recip(arg8), 1000f64), self.ktratio)'
        PI = 'is_primal_infeasible(self, arg2, arg6, arg7)'
        DI = 'is_dual_infeasible(self, arg2, arg6, arg7)'
        leaves = Walker(f).leaves()
        atoms = set()
        for val, ret, ev, tr in leaves:
            atoms |= set(val)
        for a in (KT1, SOL, KT2, PI, DI):
            R.check(a in atoms, 'check_convergence:atom|%s%s' % (a, tag),
                    'check_convergence no longer tests %s (atoms found: %s)' % (a, sorted(atoms)), f.loc())
        extra = atoms - {KT1, SOL, KT2, PI, DI}
        R.check(not extra, 'check_convergence:extra-atoms' + tag,
                'check_convergence depends on additional conditions %s' % sorted(extra), f.loc())
        bad = 0
        for val, ret, ev, tr in leaves:
            stores = [e[2] for e in ev if e[0] == 'store' and e[1] == 'self.status']

            def g(k):
                return val.get(k)
            # expected outcome (None = atom not on this path, i.e. not evaluated)
            if g(KT1) and g(SOL):
                exp = ['arg9']
            elif g(KT2):
                if g(PI):
                    exp = ['arg10']
                elif g(DI):
                    exp = ['arg11']
                else:
                    exp = []
            else:
                exp = []
            if stores != exp:
                bad += 1
                R.bad('check_convergence:row|%s%s' % (sorted(val.items()), tag),
                      'under %s the body stores %s into status, documented: %s' % (val, stores, exp), f.loc())
        if not bad:
            R.ok('check_convergence:table' + tag, {'leaves': len(leaves)})

    R.guard(body)


# ---------------------------------------------------------------------------
# tolerance plumbing
# ---------------------------------------------------------------------------

FULL_TOLS = ['tol_gap_abs', 'tol_gap_rel', 'tol_feas', 'tol_infeas_abs', 'tol_infeas_rel', 'tol_ktratio']


def tolerance_plumbing(rep, F, tag, rid, which):
    R = rep.rule(rid, 'tolerances and status constants are passed position by position')

    def body():
        if which == 'full':
            f = info_fn(F, 'check_convergence_full')
            names = FULL_TOLS
            sts = ['Solved', 'PrimalInfeasible', 'DualInfeasible']
        else:
            f = info_fn(F, 'check_convergence_almost')
            names = ['reduced_' + n for n in FULL_TOLS]
            sts = ['AlmostSolved', 'AlmostPrimalInfeasible', 'AlmostDualInfeasible']
        c = one_call(f, 'check_convergence')
        args = [f.sym_operand(a) for a in c.args]
        R.check(canon(args[0]) == 'self' and canon(args[1]) == 'arg2', '%s:recv%s' % (f.name, tag),
                'check_convergence is not called on (self, residuals)', f.loc(c.sp))
        for i, n in enumerate(names):
            got = canon(args[2 + i])
            R.check(got == 'arg3.%s' % n, '%s:tol|%d|%s%s' % (f.name, i, n, tag),
                    '%s passes %s as tolerance #%d of check_convergence, expected settings.%s' % (f.name, got, i, n),
                    f.loc(c.sp))
        for i, s in enumerate(sts):
            v = const_variant(args[8 + i])
            R.check(v == s, '%s:status|%d|%s%s' % (f.name, i, s, tag),
                    '%s passes %s as status #%d, expected SolverStatus::%s' % (f.name, show(args[8 + i]), i, s),
                    f.loc(c.sp))

    R.guard(body)


# ---------------------------------------------------------------------------
# freshness of the certified point
# ---------------------------------------------------------------------------

def _writes_vars_or_reported(r, ch):
    names = [e for e in ch if e != IDX]
    for i, e in enumerate(names):
        if e == ('Solver', 'variables') or e[0] == 'DefaultVariables':
            # prev_vars / step_lhs / step_rhs are distinct Solver fields
            if names[0][0] == 'Solver' and names[0][1] != 'variables':
                return False
            return True
    if names and names[-1][0] == INFO and names[-1][1] in REPORTED:
        return True
    return False


def main_loop(f):
    loops = f.loops()
    # the main loop is the one containing the check_termination call
    ct = one_call(f, 'check_termination')
    cands = [(h, body) for h, body in loops.items() if ct.bb in body]
    if not cands:
        raise AnchorError('no loop around check_termination in solve')
    # outermost
    h, body = max(cands, key=lambda x: len(x[1]))
    return h, body


def freshness(rep, F, E, G, tag, rid):
    R = rep.rule(rid, 'no mutation of the iterate / reported scalars between the deciding test and the '
                      'returned point; per-iteration event order')

    def body():
        f = solve_fn(F)
        h, lbody = main_loop(f)
        order = ['update', 'calc_mu', 'save_scalars', 'update', 'check_termination']
        traits = ['Residuals', 'Variables', 'Info', 'Info', 'Info']
        evs = []
        for nm, tr in zip(order, traits):
            cs = [c for c in f.calls if c.callee.name == nm and (c.callee.trait or '').endswith(tr) and c.bb in lbody]
            if len(cs) != 1:
                raise AnchorError('%d calls to %s::%s inside the main loop' % (len(cs), tr, nm))
            evs.append(cs[0])
        for a, b in zip(evs, evs[1:]):
            R.check(f.dominates(a.bb, b.bb), 'order|%s<%s%s' % (a.callee.name, b.callee.name, tag),
                    '%s::%s does not precede %s::%s on every path of the main loop' % (
                        last_seg(a.callee.trait), a.callee.name, last_seg(b.callee.trait), b.callee.name), f.loc(b.sp))
            reg = region_between(f, a.bb, b.bb, avoid=[h]) - {a.bb, b.bb}
            ws = block_write_sites(E, f, reg, lambda r, ch: _writes_vars_or_reported(r, ch) and not (
                ch and ch[-1][0] == INFO))
            for bi, loc, what, p in ws:
                R.bad('between|%s..%s|%s%s' % (a.callee.name, b.callee.name, what, tag),
                      '%s writes %s between %s and %s' % (what, fmt_path(p), a.callee.name, b.callee.name), loc)
        # header -> first event: first event dominated by header, nothing writes variables before it in the cycle
        R.check(f.dominates(h, evs[0].bb), 'order|loop-head<residuals.update' + tag,
                'residuals.update is not at the top of every cycle', f.loc(evs[0].sp))
        # final segment: check_termination .. solution.post_process avoiding the loop header
        ct = evs[-1]
        pp = [c for c in f.calls if c.callee.name == 'post_process' and (c.callee.trait or '').endswith('Solution')]
        if len(pp) != 1:
            raise AnchorError('solution.post_process call not unique')
        pp = pp[0]
        reg = region_between(f, ct.bb, pp.bb, avoid=[h]) - {ct.bb, pp.bb}
        ws = block_write_sites(E, f, reg, _writes_vars_or_reported)
        allowed = {'strategy_checkpoint_insufficient_progress'}
        n = 0
        for bi, loc, what, p in ws:
            nm = what.split(' ', 1)[1] if what.startswith('call ') else what
            if nm in allowed:
                n += 1
                continue
            R.bad('final-segment|%s|%s%s' % (what, fmt_path(p), tag),
                  '%s writes %s after the deciding check_termination and before solution.post_process' % (
                      what, fmt_path(p)), loc)
        R.ok('final-segment' + tag, {'blocks': len(reg), 'allowed_writes': n})
        # the one allowed writer only rolls back under InsufficientProgress
        sc = F.one(name='strategy_checkpoint_insufficient_progress', trait='IPSolverInternals')
        rs = one_call(sc, 'reset_to_prev_iterate')
        leaves = Walker(sc).leaves()
        atom = None
        for val, ret, ev, tr in leaves:
            called = any(e[0] == 'call' and e[1] == 'reset_to_prev_iterate' for e in ev)
            ks = [k for k in val if 'InsufficientProgress' in k and 'get_status' in k]
            if not ks:
                R.bad('rollback-guard|noatom' + tag, 'rollback is not guarded by a status == InsufficientProgress test',
                      sc.loc(rs.sp))
                continue
            k = ks[0]
            isne = k.startswith('ne(')
            is_ip = (val[k] == 0) if isne else (val[k] == 1)
            R.check(called == is_ip or (called and is_ip), 'rollback-guard|%s|%s%s' % (k, val[k], tag),
                    'reset_to_prev_iterate is called when status is not InsufficientProgress (valuation %s)' % val,
                    sc.loc(rs.sp))
        ws2 = block_write_sites(E, sc, set(range(len(sc.blocks))), _writes_vars_or_reported)
        for bi, loc, what, p in ws2:
            if what == 'call reset_to_prev_iterate':
                continue
            R.bad('rollback-only|%s%s' % (what, tag), '%s in the insufficient-progress checkpoint writes %s' % (
                what, fmt_path(p)), loc)
        # info.post_process precedes solution.post_process
        ip = [c for c in f.calls if c.callee.name == 'post_process' and (c.callee.trait or '').endswith('Info')]
        R.check(len(ip) == 1 and f.dominates(ip[0].bb, pp.bb), 'info.post_process<solution.post_process' + tag,
                'info.post_process must precede solution.post_process', f.loc(pp.sp))

    R.guard(body)


def unscale_before_copy(rep, F, E, tag, rid):
    R = rep.rule(rid, 'returned vectors: unscale precedes every copy into the solution; constructor '
                      'sized with the user dimensions')

    def body():
        pp = F.one(name='post_process', adt='DefaultSolution')
        us = one_call(pp, 'unscale')
        a = [pp.sym_operand(x) for x in us.args]
        R.check(canon(a[0]) == 'arg3' and canon(a[1]) == 'arg2', 'unscale-args' + tag,
                'unscale is not applied to (variables, data)', pp.loc(us.sp))
        # is_infeasible argument = info.status.is_infeasible()
        R.check(canon(a[2]) == 'is_infeasible(arg4.status)', 'unscale-flag' + tag,
                'unscale flag is %s, expected info.status.is_infeasible()' % canon(a[2]), pp.loc(us.sp))
        def is_sol_vec(r, ch):
            names = [e for e in ch if e != IDX]
            return r == ('param', 1) and names and names[0] in (('DefaultSolution', 'x'), ('DefaultSolution', 's'),
                                                                ('DefaultSolution', 'z'))
        ws = block_write_sites(E, pp, set(range(len(pp.blocks))), is_sol_vec)
        seen = set()
        for bi, loc, what, p in ws:
            seen.add(p[1][0][1])
            R.check(pp.dominates(us.bb, bi) and bi != us.bb, 'copy-after-unscale|%s|%s%s' % (what, p[1][0][1], tag),
                    '%s writes solution.%s on a path that has not passed variables.unscale' % (what, p[1][0][1]), loc)
        R.check(seen == {'x', 's', 'z'}, 'copy-all' + tag, 'post_process writes only %s of solution.x/s/z' % sorted(seen))
        # every path to return writes x,s,z (through reverse_presolve or the three copies)
        for fld in ('x', 's', 'z'):
            wb = set(bi for bi, loc, what, p in ws if p[1][0][1] == fld)
            for r in pp.returns:
                ok = not pp.paths_exist_avoiding(0, r, wb) if r not in wb else True
                R.check(ok, 'writes-all|%s%s' % (fld, tag),
                        'there is a path through post_process that does not write solution.%s' % fld, pp.loc())
        # constructor called with the user's A.n / A.m
        new = F.one(name='new', self_ty='solver::core::solver::Solver')
        c = [c for c in new.calls if c.callee.name == 'new' and 'DefaultSolution' in (c.callee.key or '')]
        if len(c) != 1:
            raise AnchorError('DefaultSolution::new call in DefaultSolver::new not unique')
        c = c[0]
        got = [canon(new.sym_operand(x)) for x in c.args]
        R.check(got == ['arg3.n', 'arg3.m'], 'solution-dims' + tag,
                'DefaultSolution::new(%s): expected the user matrix dimensions (A.n, A.m)' % ', '.join(got),
                new.loc(c.sp))

    R.guard(body)


# ---------------------------------------------------------------------------
# C02: NaN objectives, is_infeasible set, kappa normalisation
# ---------------------------------------------------------------------------

INFEASIBLE_SET = {'PrimalInfeasible', 'DualInfeasible', 'AlmostPrimalInfeasible', 'AlmostDualInfeasible'}


def nan_objectives(rep, F, tag, rid):
    R = rep.rule(rid, 'infeasible verdicts report NaN objectives; is_infeasible accepts exactly the four '
                      'infeasible statuses')

    def body():
        pp = F.one(name='post_process', adt='DefaultSolution')
        leaves = Walker(pp).leaves()
        key = 'is_infeasible(arg4.status)'
        seen = {0: 0, 1: 0}
        for val, ret, ev, tr in leaves:
            if key not in val:
                R.bad('objective-guard' + tag, 'a path through post_process stores the objectives without testing '
                                               'info.status.is_infeasible()', pp.loc())
                continue
            st = {e[1]: e[2] for e in ev if e[0] == 'store'}
            seen[val[key]] += 1
            if val[key] == 1:
                R.check(st.get('self.obj_val') == 'nan()' and st.get('self.obj_val_dual') == 'nan()',
                        'nan-under-infeasible' + tag,
                        'under an infeasible status obj_val/obj_val_dual are %s/%s, expected NaN' % (
                            st.get('self.obj_val'), st.get('self.obj_val_dual')), pp.loc())
            else:
                R.check(st.get('self.obj_val') == 'arg4.cost_primal' and st.get('self.obj_val_dual') == 'arg4.cost_dual',
                        'objectives-copied' + tag,
                        'obj_val/obj_val_dual are assigned from %s/%s, expected info.cost_primal/info.cost_dual' % (
                            st.get('self.obj_val'), st.get('self.obj_val_dual')), pp.loc())
        R.check(seen[0] > 0 and seen[1] > 0, 'both-branches' + tag, 'post_process lost one of the objective branches')
        # the is_infeasible predicate
        isf = F.one(name='is_infeasible', adt='SolverStatus')
        adt = F.adt('SolverStatus')
        vnames = [v['n'] for v in adt['variants']]
        acc = set()
        for val, ret, ev, tr in Walker(isf).leaves():
            ks = [k for k in val if k.startswith('discr(')]
            if len(ks) != 1 or ret[0] != 'c':
                raise AnchorError('is_infeasible is not a discriminant test')
            d = val[ks[0]]
            if ret[1]:
                if d < len(vnames):
                    acc.add(vnames[d])
                else:
                    acc.add('<otherwise>')
        R.check(acc == INFEASIBLE_SET, 'is_infeasible-set' + tag,
                'SolverStatus::is_infeasible accepts %s, expected %s' % (sorted(acc), sorted(INFEASIBLE_SET)), isf.loc())

    R.guard(body)


def kappa_normalisation(rep, F, tag, rid):
    R = rep.rule(rid, 'unscale normalises by kappa for infeasible verdicts and by tau otherwise, the same factor '
                      'on x, s, z, tau, kappa')

    def body():
        f = F.one(name='unscale', adt='DefaultVariables')
        leaves = Walker(f).leaves()
        seen = set()
        for val, ret, ev, tr in leaves:
            if 'arg3' not in val:
                R.bad('flag-tested' + tag, 'unscale does not branch on its is_infeasible flag', f.loc())
                continue
            recips = [e[2] for e in ev if e[0] == 'call' and e[1] == 'recip']
            want = 'recip(self.κ)' if val['arg3'] else 'recip(self.τ)'
            other = 'recip(self.τ)' if val['arg3'] else 'recip(self.κ)'
            seen.add(val['arg3'])
            R.check(want in recips and other not in recips, 'factor|%d%s' % (val['arg3'], tag),
                    'with is_infeasible=%d the normalisation uses %s, expected %s' % (val['arg3'], recips, want), f.loc())
        R.check(seen == {0, 1}, 'both-branches' + tag, 'unscale lost a branch')
    R.guard(body)


# ---------------------------------------------------------------------------
# C03: report provenance, Almost*, rollback symmetry, iteration count
# ---------------------------------------------------------------------------

COPY_TABLE = {
    'self.iterations': 'arg4.iterations',
    'self.r_prim': 'arg4.res_primal',
    'self.r_dual': 'arg4.res_dual',
    'self.status': 'arg4.status',
}


def report_provenance(rep, F, E, tag, rid):
    R = rep.rule(rid, 'reported figures are copies of the matching DefaultInfo fields')

    def body():
        pp = F.one(name='post_process', adt='DefaultSolution')
        for val, ret, ev, tr in Walker(pp).leaves():
            st = {}
            for e in ev:
                if e[0] == 'store':
                    st[e[1]] = e[2]
            for k, want in COPY_TABLE.items():
                R.check(st.get(k) == want, 'copy|%s%s' % (k, tag), 'solution field %s is assigned from %s, expected %s' % (
                    k[5:], st.get(k), want), pp.loc())
        fin = F.one(name='finalize', adt='DefaultSolution')
        st = {}
        for val, ret, ev, tr in Walker(fin).leaves():
            for e in ev:
                if e[0] == 'store':
                    st[e[1]] = e[2]
        R.check(st.get('self.solve_time') == 'arg2.solve_time', 'copy|solve_time' + tag,
                'solution.solve_time assigned from %s' % st.get('self.solve_time'), fin.loc())
        # no other writer of these solution fields
        for fld in ('obj_val', 'obj_val_dual', 'r_prim', 'r_dual', 'iterations', 'solve_time'):
            for k, hits in E.direct_writers_of('DefaultSolution', fld).items():
                g = F.by_key[k][0]
                R.check(g.name in ('post_process', 'finalize') and g.impl_adt and 'DefaultSolution' in g.impl_adt,
                        'writer|%s|%s%s' % (fld, short(k), tag), '%s writes DefaultSolution.%s' % (k, fld), g.loc(hits[0][1]))
        # solve: info.finalize before solution.finalize
        s = solve_fn(F)
        a = [c for c in s.calls if c.callee.name == 'finalize' and (c.callee.trait or '').endswith('Info')]
        b = [c for c in s.calls if c.callee.name == 'finalize' and (c.callee.trait or '').endswith('Solution')]
        R.check(len(a) == 1 and len(b) == 1 and s.dominates(a[0].bb, b[0].bb), 'finalize-order' + tag,
                'info.finalize must precede solution.finalize', s.loc())

    R.guard(body)


def almost_only_reduced(rep, F, G, tag, rid):
    R = rep.rule(rid, 'Almost* statuses only from the reduced-tolerance check, which runs only after an error / '
                      'limit status')

    def body():
        cca = info_fn(F, 'check_convergence_almost')
        cs = set(G.callers_of(cca.key))
        ipp = F.one(name='post_process', adt=INFO)
        R.check(cs == {ipp.key}, 'callers' + tag, 'check_convergence_almost is called from %s, expected only Info::post_process' % sorted(
            short(c) for c in cs), cca.loc())
        for val, ret, ev, tr in Walker(ipp).leaves():
            called = any(e[0] == 'call' and e[1] == 'check_convergence_almost' for e in ev)
            err = [k for k in val if k.startswith('is_errored(')]
            d = [k for k in val if k.startswith('discr(self.status')]
            adt = F.adt('SolverStatus')
            vn = [v['n'] for v in adt['variants']]
            cond = False
            for k in err:
                if val[k] == 1:
                    cond = True
            for k in d:
                if val[k] < len(vn) and vn[val[k]] in ('MaxIterations', 'MaxTime'):
                    cond = True
            R.check(called == cond, 'guard|%s%s' % (sorted(val.items()), tag),
                    'check_convergence_almost %s under %s' % ('runs' if called else 'does not run', val), ipp.loc())
        ie = F.one(name='is_errored', adt='SolverStatus')
        acc = set()
        adt = F.adt('SolverStatus')
        vn = [v['n'] for v in adt['variants']]
        for val, ret, ev, tr in Walker(ie).leaves():
            ks = [k for k in val if k.startswith('discr(')]
            if ks and ret[0] == 'c' and ret[1]:
                acc.add(vn[val[ks[0]]] if val[ks[0]] < len(vn) else '<otherwise>')
        R.check(acc == {'NumericalError', 'InsufficientProgress'}, 'is_errored-set' + tag,
                'is_errored accepts %s' % sorted(acc), ie.loc())

    R.guard(body)


def rollback_symmetry(rep, F, tag, rid):
    R = rep.rule(rid, 'save_prev_iterate / reset_to_prev_iterate are mirror images over the six reported scalars '
                      'and the iterate; copy_from copies all five components; save precedes add_step')

    def body():
        sv = info_fn(F, 'save_prev_iterate')
        rs = info_fn(F, 'reset_to_prev_iterate')

        def stores(f):
            st = {}
            cl = []
            for val, ret, ev, tr in Walker(f).leaves():
                for e in ev:
                    if e[0] == 'store':
                        st[e[1]] = e[2]
                    if e[0] == 'call':
                        cl.append(e[2])
            return st, cl
        s1, c1 = stores(sv)
        s2, c2 = stores(rs)
        for fld in REPORTED:
            R.check(s1.get('self.prev_' + fld) == 'self.' + fld, 'save|%s%s' % (fld, tag),
                    'save_prev_iterate: prev_%s <- %s' % (fld, s1.get('self.prev_' + fld)), sv.loc())
            R.check(s2.get('self.' + fld) == 'self.prev_' + fld, 'reset|%s%s' % (fld, tag),
                    'reset_to_prev_iterate: %s <- %s' % (fld, s2.get('self.' + fld)), rs.loc())
        R.check('copy_from(arg3, arg2)' in c1, 'save|vars' + tag, 'save_prev_iterate does not copy variables into prev_variables: %s' % c1, sv.loc())
        R.check('copy_from(arg2, arg3)' in c2, 'reset|vars' + tag, 'reset_to_prev_iterate does not copy prev_variables into variables: %s' % c2, rs.loc())
        cf = F.one(name='copy_from', adt='DefaultVariables')
        st, cl = stores(cf)
        for v in ('x', 's', 'z'):
            R.check('copy_from(self.%s, arg2.%s)' % (v, v) in cl, 'copy_from|%s%s' % (v, tag),
                    'DefaultVariables::copy_from does not copy %s' % v, cf.loc())
        for v in ('τ', 'κ'):
            R.check(st.get('self.' + v) == 'arg2.' + v, 'copy_from|%s%s' % (v, tag),
                    'DefaultVariables::copy_from: %s <- %s' % (v, st.get('self.' + v)), cf.loc())
        s = solve_fn(F)
        sp = one_call(s, 'save_prev_iterate')
        ad = one_call(s, 'add_step')
        R.check(s.dominates(sp.bb, ad.bb), 'save-before-step' + tag, 'save_prev_iterate does not precede add_step on every path', s.loc(ad.sp))
        a = [canon(s.sym_operand(x)) for x in sp.args]
        R.check(a == ['self.info', 'self.variables', 'self.prev_vars'], 'save-args' + tag, 'save_prev_iterate(%s)' % a, s.loc(sp.sp))
        sc = F.one(name='strategy_checkpoint_insufficient_progress', trait='IPSolverInternals')
        rc = one_call(sc, 'reset_to_prev_iterate')
        a = [canon(sc.sym_operand(x)) for x in rc.args]
        R.check(a == ['self.info', 'self.variables', 'self.prev_vars'], 'reset-args' + tag, 'reset_to_prev_iterate(%s)' % a, sc.loc(rc.sp))

    R.guard(body)


def iteration_count(rep, F, E, tag, rid):
    R = rep.rule(rid, 'DefaultInfo.iterations is written only by reset/save_scalars, from the loop counter')

    def body():
        dw = E.direct_writers_of(INFO, 'iterations')
        for k, hits in dw.items():
            g = F.by_key[k][0]
            if g.impl_exp or g.from_expansion:
                continue
            R.check(g.name in ('reset', 'save_scalars'), 'writer|%s%s' % (short(k), tag),
                    '%s writes DefaultInfo.iterations' % k, g.loc(hits[0][1]))
        ss = info_fn(F, 'save_scalars')
        st = {}
        for val, ret, ev, tr in Walker(ss).leaves():
            for e in ev:
                if e[0] == 'store':
                    st[e[1]] = e[2]
        R.check(st.get('self.iterations') == 'arg5', 'save_scalars-src' + tag,
                'save_scalars stores %s into iterations, expected its iter parameter' % st.get('self.iterations'), ss.loc())
        s = solve_fn(F)
        cs = calls_named(s, 'save_scalars')
        ct = one_call(s, 'check_termination')
        for c in cs:
            R.check(canon(s.sym_operand(c.args[4])) == canon(s.sym_operand(ct.args[3])), 'counter|%d%s' % (c.line, tag),
                    'save_scalars receives %s as the iteration count' % canon(s.sym_operand(c.args[4])), s.loc(c.sp))
        R.check(len(cs) == 2, 'save_scalars-sites' + tag, '%d save_scalars call sites in solve, expected 2' % len(cs))
        # after the last save_scalars on any path there is no increment before post_process:
        h, lbody = main_loop(s)
        pp = [c for c in s.calls if c.callee.name == 'post_process' and (c.callee.trait or '').endswith('Info')][0]
        itl = s.sym_operand(ct.args[3])[1]
        inc = [d[1] for d in s.defs.get(itl, []) if d[1] in lbody]
        post = [c for c in cs if c.bb not in lbody]
        inl = [c for c in cs if c.bb in lbody]
        # Paths from the increment to post_process must pass a save_scalars.  Inside the loop the next
        # cycle's save_scalars does it; on the break paths taken after the increment the step length
        # is first set to zero and the post-loop `if alpha == 0 { save_scalars }` records the counter.
        if len(post) != 1 or len(inl) != 1:
            raise AnchorError('save_scalars sites: %d in loop, %d after' % (len(inl), len(post)))
        al = s.sym_operand(post[0].args[2])
        if al[0] != 'var':
            raise AnchorError('step length passed to save_scalars is not a mutable local')
        alpha = al[1]
        # post-loop: save_scalars runs exactly when alpha == 0
        guard = None
        for bi, bl in enumerate(s.blocks):
            t = bl['t']
            if t['k'] == 'switch' and bi not in lbody:
                k = canon(s.sym_operand(t['d']))
                if k.startswith(('eq(', 'ne(', 'not(eq(', 'not(ne(')) and 'zero()' in k and 'var:' in k:
                    guard = (bi, t, k)
        if guard is None:
            raise AnchorError('post-loop `alpha == 0` test not found')
        gb, gt, gk = guard
        # the successor taken when alpha == 0, whichever way round the test is written
        zero_t = [tb for v_, tb in gt['ts'] if int(v_) == 0]
        if gk.startswith(('eq(', 'not(ne(')):
            true_succ = gt['o']
        else:
            true_succ = zero_t[0] if zero_t else gt['o']
        for b in inc:
            state = {b: 'OTHER'}
            work = [b]
            at_guard = []
            while work:
                x = work.pop()
                cur = state[x]
                for stt in s.blocks[x]['s']:
                    if 'p' in stt and 'rv' in stt and not stt['p']['p'] and stt['p']['l'] == alpha:
                        cur = 'ZERO' if canon(s.sym_rvalue(stt['rv'])) == 'zero()' else 'OTHER'
                c = s.call_at.get(x)
                if c is not None and not c.dest['p'] and c.dest['l'] == alpha:
                    cur = 'ZERO' if c.callee.name == 'zero' else 'OTHER'
                for nx in s.succ[x]:
                    if nx == h or nx == inl[0].bb:
                        continue
                    if nx == gb:
                        at_guard.append((x, cur))
                        continue
                    new = cur
                    if nx in state and state[nx] != new:
                        new = 'OTHER'
                    if nx in state and state[nx] == new:
                        continue
                    state[nx] = new
                    work.append(nx)
            bad = [x for x, st_ in at_guard if st_ != 'ZERO']
            R.check(bool(at_guard) and not bad, 'inc-then-break-zeroes-alpha' + tag,
                    'the loop can be left after incrementing the counter without zeroing the step length, so the '
                    'post-loop save_scalars is skipped and the reported count lags (blocks %s)' % bad, s.loc())
        R.check(s.dominates(true_succ, post[0].bb) and not s.dominates(post[0].bb, pp.bb), 'post-save-guard' + tag,
                'post-loop save_scalars is not exactly the alpha == 0 branch', s.loc(post[0].sp))
        R.check(s.dominates(gb, pp.bb), 'post-guard-dominates' + tag, 'post_process can be reached without the alpha == 0 test', s.loc())
        # each save_scalars is followed by print_status before the next save_scalars/post_process (C20 R4)

    R.guard(body)
