"""C16 -- sparse-matrix operations agree with their dense meaning (claimed in part: the entry-wise contribution of the
matrix-vector kernels, norms, sums and scalings)"""
import re
from fractions import Fraction
from engine.mir import last_seg, AnchorError, strip_generics
from engine.preds import canon, Walker
from engine.linform import P_atom, P_const, P_add, P_mul, P_neg, P_fmt
from .common import *

CONFIGS = ['default']
TECHNIQUE = ('per-entry contribution rule on MIR paths: loop iterators are resolved to (column j, entry k, row rowval[k]), every accumulation '
             'event of a kernel is evaluated to a polynomial and compared with the dense definition; decision tables for the alpha / beta fast paths')
EXPLANATION = (
    "Partial claim. Equality with the dense result for every matrix is a statement about loops over runtime index arrays and is NOT decided "
    "as such; nor are the sorts (of the triplets, of the rows inside a column), "
    "(its per-column bookkeeping is C09.R7). Decided on the MIR of the current tree, for the "
    "kernels every residual, KKT product, norm and scaling goes through, is the *entry-wise meaning*: with the loop iterators resolved to a column "
    "j, a stored entry k of that column (k in colptr[j]..colptr[j+1]) and its row r = rowval[k], value v = nzval[k], (R1) gemv N adds "
    "a v x[j] to y[r], gemv T adds a v x[r] to y[j], after y := b y, on each of the a = 1 / a = -1 / general and b = 0 / 1 / -1 / general fast "
    "paths, and a = 0 returns after the scaling only; both symv variants add a v x[j] to y[r] and, exactly when r != j, a v x[r] to y[j]; "
    "(R2) quad_form accumulates v x[r] and v y[r] for r < j, v x[j] y[j] for r = j, closes a column with tmp1 y[j] + tmp2 x[j], resets the "
    "column accumulators and rejects r > j; (R3) col_sums / row_sums / the five norm routines accumulate the stored value (its absolute value "
    "under max) at the column, the row, or both (symmetric norm), the resetting variants zero first; (R4) scale / negate act on all of nzval, "
    "lscale multiplies v by l[r], rscale scales the slice of column j by r[j], lrscale multiplies v by l[r] r[j]; (R5) the trait impls route "
    "gemv / symv / quad_form to these kernels with unchanged arguments; (R7) to_triu keeps, per column, the leading entries with row <= col - the count pass and "
    "the copy pass use the same count, rows and values are copied over identical ranges, the new colptr is the cumulative sum - is_triu rejects any row > col and "
    "index_to_coord inverts colptr; (R8) check_format returns Ok exactly when check_dimensions passes, every column has strictly increasing rows and every row is < m; (R9) in blockdiag / hvcat a row cursor is advanced only by nrows(block), a column cursor only by ncols(block), spalloc receives the matching sums, "
    "and count and fill pass agree; (R10) fill_block places entry (r, j, v) of a block at (r + initrow, j + initcol) for shape N and (j + initrow, r + initcol) for shape T, "
    "with its value and map entry at the column's fill pointer, colcount_block counts exactly those destination columns, and the concrete transpose is count T / fill T "
    "into an n x m allocation; (R11) dropzeros keeps an entry iff its value != 0, moves value and row together to the write cursor, reads the old column end before overwriting it and "
    "truncates both arrays to the cursor; (R12) select_rows (C09.R7 re-run); (R13) new_from_triplets accumulates duplicates into the entry at the write cursor, moves new entries row and value together and "
    "permutes rows and values with the same sort permutation; (R14) set_entry inserts row and value at the sorted position, overwrites there if present and "
    "rebuilds the pointers with one more entry in that column, ignores only a new zero, get_entry reads at first + the binary-search index; (R15) deduplicate sums runs inside "
    "one column only (every scan bounded by the column end) and writes row and sum together at the output cursor. Every inner loop must be the entry range of the *same* column the outer "
    "loop is at: an iterator that is not recognised as such leaves a raw term and the comparison fails closed."
    ' R7 also: every pass of is_triu scans the column unless the column was found empty.'
    ' (R16) canonicalize: every successful path runs check_dimensions, sort_indices and deduplicate.')
ASSUMPTIONS = ['rustc MIR construction and trait resolution are correct',
               'the matrix is canonical (colptr monotone, rows in range): what check_format establishes',
               'vector primitives (scale, negate, fill, sum, fold) have their documented meaning (primitives rule family)']


# ---------------------------------------------------------------------------
# iterator naming
# ---------------------------------------------------------------------------

def _find_iters(v):
    out = []
    key = 'next(into_iter('
    i = 0
    while True:
        j = v.find(key, i)
        if j < 0:
            return out
        k = j + len(key)
        d = 2
        while k < len(v) and d:
            d += v[k] == '('
            d -= v[k] == ')'
            k += 1
        out.append((j, k, v[j + len(key):k - 2]))
        i = j + 1


def _simplify(v):
    v = v.replace('withoverflow', '').replace(').0', ')')
    # get_unchecked(V, i) / get_unchecked_mut / index / index_mut -> V[i]
    for _ in range(40):
        m = re.search(r'\b(get_unchecked_mut|get_unchecked|index_mut|index)\(', v)
        if not m:
            break
        a = m.end()
        d = 1
        k = a
        while k < len(v) and d:
            d += v[k] == '('
            d -= v[k] == ')'
            k += 1
        inner = v[a:k - 1]
        parts = split_args('f(' + inner + ')')
        if len(parts) != 2:
            v = v[:m.start()] + 'IDX(' + v[a:]
            continue
        v = v[:m.start()] + '%s[%s]' % (parts[0], parts[1]) + v[k:]
    return v.replace('IDX(', 'index(')


def normalise(v, M):
    """rename loop-iterator elements (innermost first) to j / k / M.rowval[k] / M.nzval[k] / V[j]"""
    v = _simplify(v)
    colrange = r'Range::Range\(%s\.colptr\[j\], %s\.colptr\[add\(j, 1_usize\)\]\)' % (re.escape(M), re.escape(M))
    for _ in range(16):
        its = [t for t in _find_iters(v) if 'next(into_iter(' not in t[2]]
        if not its:
            break
        j, k, X = its[0]
        whole = v[j:k]
        elem = whole + '@Some.0'
        m = re.fullmatch(r'(?:take\()?enumerate\(iter(?:_mut)?\((\w[\w.]*)\)\)(?:, (.*)\))?', X)
        if m:
            V = m.group(1)
            v = v.replace(elem + '.0', 'j').replace(elem + '.1', '%s[j]' % V).replace(whole, 'NEXT')
            continue
        if re.fullmatch(r'Range::Range\(0_usize, .*\)', X):
            v = v.replace(elem, 'j').replace(whole, 'NEXT')
            continue
        if re.fullmatch(colrange, X):
            v = v.replace(elem, 'k').replace(whole, 'NEXT')
            continue
        m = re.fullmatch(r'zip\(%s\.(\w+)\[%s\], %s\.(\w+)\[%s\]\)' % (re.escape(M), colrange, re.escape(M), colrange), X)
        if m:
            v = v.replace(elem + '.0', '%s.%s[k]' % (M, m.group(1))).replace(elem + '.1', '%s.%s[k]' % (M, m.group(2))).replace(whole, 'NEXT')
            continue
        m = re.fullmatch(r'zip\(%s\.(\w+), %s\.(\w+)\)' % (re.escape(M), re.escape(M)), X)
        if m:
            v = v.replace(elem + '.0', '%s.%s[k]' % (M, m.group(1))).replace(elem + '.1', '%s.%s[k]' % (M, m.group(2))).replace(whole, 'NEXT')
            continue
        m = re.fullmatch(r'iter(?:_mut)?\(%s\.(\w+)\)' % re.escape(M), X)
        if m:
            v = v.replace(elem, '%s.%s[k]' % (M, m.group(1))).replace(whole, 'NEXT')
            continue
        v = v.replace(whole, 'RAW{%s}' % X.replace('next(into_iter(', 'nx('))
    return v


# ---------------------------------------------------------------------------
# canonical text -> polynomial
# ---------------------------------------------------------------------------

def _call_parts(t):
    i = t.find('(')
    if i <= 0 or not t.endswith(')') or not re.fullmatch(r'[\w:<> ]+', t[:i]):
        return None
    d = 0
    for n, ch in enumerate(t):
        d += ch == '('
        d -= ch == ')'
        if d == 0 and n < len(t) - 1 and n >= i:
            return None
    return t[:i], split_args(t)


def to_poly(t, M, subst=None):
    """polynomial over atoms v (= M.nzval[k]), VEC_j, VEC_r (VEC[M.rowval[k]]), scalars; None if not understood"""
    t = t.strip()
    subst = subst or {}
    if t in subst:
        return subst[t]
    if t == '%s.nzval[k]' % M:
        return P_atom('v')
    m = re.fullmatch(r'(\w+)\[j\]', t)
    if m:
        return P_atom(m.group(1) + '_j')
    m = re.fullmatch(r'(\w+)\[%s\.rowval\[k\]\]' % re.escape(M), t)
    if m:
        return P_atom(m.group(1) + '_r')
    if t in ('zero()',):
        return {}
    if t in ('one()',):
        return P_const(1)
    m = re.fullmatch(r'(-?\d+(?:\.\d+)?)(f64|f32)?', t)
    if m:
        return P_const(Fraction(m.group(1)))
    if re.fullmatch(r'arg\d+|var:\w+', t):
        return P_atom(t)
    cp = _call_parts(t)
    if cp is None:
        return None
    nm, args = cp
    nm = last_seg(nm)
    ps = [to_poly(a, M, subst) for a in args]
    if any(p is None for p in ps):
        return None
    if nm == 'mul' and len(ps) == 2:
        return P_mul(ps[0], ps[1])
    if nm == 'add' and len(ps) == 2:
        return P_add(ps[0], ps[1])
    if nm == 'sub' and len(ps) == 2:
        return P_add(ps[0], ps[1], -1)
    if nm == 'neg' and len(ps) == 1:
        return P_neg(ps[0])
    if nm == 'abs' and len(ps) == 1:
        return P_atom(('abs', P_fmt(ps[0])))
    if nm == 'max' and len(ps) == 2:
        return P_atom(('max',) + tuple(sorted(P_fmt(p) for p in ps)))
    return None


def _mname(f):
    return 'self' if f.impl_self else 'arg1'


def events(f, names=('add_assign', 'sub_assign', 'mul_assign', 'scale', 'fill', 'negate')):
    """per leaf: (valuation, return kind, [(kind, target text, value text)]) in normalised form"""
    M = _mname(f)
    out = []
    for val, ret, ev, tr in Walker(f, cut_loops=True, local_stores=True).leaves():
        if ret[0] == 'diverge':
            continue
        row = []
        for e in ev:
            if e[0] == 'store':
                row.append(('=', normalise(str(e[1]), M), normalise(str(e[2]), M), e))
            elif e[0] == 'call' and e[1] in names:
                a = split_args(normalise(str(e[2]), M))
                row.append((e[1], a[0], a[1] if len(a) > 1 else None, e))
        out.append(({normalise(k, M): v for k, v in val.items()}, ret, row))
    return out


def _ref_local(f, operand):
    """name of the user local a `&mut local` operand refers to"""
    o = operand.get('m') or operand.get('c') or {}
    if o.get('p') not in ([], None) or 'l' not in o:
        return None
    for d in f.defs.get(o['l'], []):
        if d[0] == 's':
            st = f.blocks[d[1]]['s'][d[2]]
            rv = st.get('rv', {})
            if rv.get('k') == 'ref' and not [x for x in rv['p']['p'] if x != '*']:
                try:
                    return f.local_name(rv['p']['l'])
                except Exception:
                    return None
    return None


def _fx(p):
    return P_fmt(p) if p is not None else '?'


# ---------------------------------------------------------------------------
# R1: gemv / symv
# ---------------------------------------------------------------------------

def _alpha(val, a):
    """effective multiplier on this path: the a = 1 / a = -1 fast paths substitute the constant"""
    if val.get('eq(%s, one())' % a) == 1:
        return P_const(1)
    if val.get('eq(%s, neg(one()))' % a) == 1:
        return P_const(-1)
    return P_atom(a)


def matvec(rep, F, tag):
    R = rep.rule('C16.R1', 'gemv N / T and symv: each stored entry (r, j, v) contributes a v x[j] to y[r] (N), a v x[r] to y[j] (T), both - the second only off the diagonal - for symv; y := b y first')

    def body():
        n = 0
        for nm, yt, xs in (('_csc_axpby_N', 'arg2[arg1.rowval[k]]', 'arg3_j'), ('_csc_axpby_T', 'arg2[j]', 'arg3_r')):
            f = F.one(name=nm)
            contrib = 0
            for val, ret, row in events(f):
                a_eff = _alpha(val, 'arg4')
                acc = [r_ for r_ in row if r_[0] in ('add_assign', 'sub_assign', '=')]
                pre = [r_ for r_ in row if r_[0] in ('fill', 'negate', 'scale')]
                # beta handling
                b0, b1, bm = val.get('eq(arg5, zero())'), val.get('eq(arg5, one())'), val.get('eq(arg5, neg(one()))')
                want_pre = ([('fill', 'arg2', 'zero()')] if b0 == 1 else [] if b1 == 1 else [('negate', 'arg2', None)] if bm == 1 else [('scale', 'arg2', 'arg5')])
                R.check([p[:3] for p in pre] == want_pre, 'beta|%s|%s%s' % (nm, 'zero' if b0 == 1 else 'one' if b1 == 1 else 'minus' if bm == 1 else 'general', tag),
                        '%s prepares y with %s where y := b*y needs %s' % (nm, [p[:3] for p in pre], want_pre), f.loc())
                if val.get('eq(arg4, zero())') == 1:
                    R.check(not acc and ret[0] == 's', 'alpha-zero|%s%s' % (nm, tag), '%s with a = 0 still accumulates %s' % (nm, [a_[:3] for a_ in acc]), f.loc())
                    continue
                for kind, t, v, e in acc:
                    contrib += 1
                    p = to_poly(v, 'arg1')
                    if kind == 'sub_assign' and p is not None:
                        p = P_neg(p)
                    want = P_mul(a_eff, P_mul(P_atom('v'), P_atom(xs)))
                    R.check(kind != '=' and t in (yt, yt.replace('arg2[j]', 'arg2[j]')) and p == want, 'entry|%s|%s%s' % (nm, _fx(a_eff), tag),
                            '%s: a stored entry adds %s to %s; the dense product needs %s added to %s' % (nm, _fx(p) if p is not None else v[:120], t[:80], _fx(want), yt), f.loc())
            R.check(contrib >= 9, 'paths|%s%s' % (nm, tag), '%s: only %d accumulating paths analysed' % (nm, contrib), f.loc())
            n += contrib
        for nm in ('_csc_symv_unsafe', '_csc_symv_safe'):
            fs = F.find(name=nm)
            if not fs:
                if nm == '_csc_symv_unsafe':
                    raise AnchorError(nm)
                continue
            f = fs[0]
            seen = set()
            for val, ret, row in events(f):
                acc = [r_ for r_ in row if r_[0] in ('add_assign', 'sub_assign', '=')]
                pre = [r_[:3] for r_ in row if r_[0] in ('fill', 'negate', 'scale')]
                R.check(pre == [('scale', 'arg2', 'arg5')], 'beta|%s%s' % (nm, tag), '%s prepares y with %s, expected scale(y, b)' % (nm, pre), f.loc())
                offd = ([v for k, v in val.items() if k in ('ne(arg1.rowval[k], j)', 'ne(j, arg1.rowval[k])', 'lt(arg1.rowval[k], j)')]
                        + [1 - v for k, v in val.items() if k in ('eq(arg1.rowval[k], j)', 'eq(j, arg1.rowval[k])', 'le(j, arg1.rowval[k])')])
                got = []
                for kind, t, v, e in acc:
                    p = to_poly(v, 'arg1')
                    if kind == 'sub_assign' and p is not None:
                        p = P_neg(p)
                    got.append((kind != '=', t, _fx(p) if p is not None else v[:80]))
                if not acc:
                    continue
                w1 = (True, 'arg2[arg1.rowval[k]]', _fx(P_mul(P_atom('arg4'), P_mul(P_atom('v'), P_atom('arg3_j')))))
                w2 = (True, 'arg2[j]', _fx(P_mul(P_atom('arg4'), P_mul(P_atom('v'), P_atom('arg3_r')))))
                if not offd:
                    R.bad('diag-test|%s%s' % (nm, tag), '%s accumulates without deciding row != col: %s' % (nm, sorted(val)), f.loc())
                    continue
                want = [w1, w2] if offd[0] == 1 else [w1]
                seen.add(offd[0])
                n += 1
                R.check(sorted(got) == sorted(want), 'entry|%s|%s%s' % (nm, 'offdiag' if offd[0] else 'diag', tag),
                        '%s: a stored %s entry contributes %s, the symmetric product needs %s' % (nm, 'off-diagonal' if offd[0] else 'diagonal', got, want), f.loc())
            R.check(seen == {0, 1}, 'paths|%s%s' % (nm, tag), '%s: diagonal / off-diagonal cases seen: %s' % (nm, sorted(seen)), f.loc())
        R.check(n >= 20, 'count' + tag, 'only %d contribution paths analysed' % n)

    R.guard(body)


# ---------------------------------------------------------------------------
# R2: quad_form
# ---------------------------------------------------------------------------

def quadform(rep, F, tag):
    R = rep.rule('C16.R2', 'quad_form (upper triangle): v x[r] and v y[r] accumulated for r < j, v x[j] y[j] for r = j, column closed with tmp1 y[j] + tmp2 x[j]; r > j rejected')

    def body():
        f = F.one(name='_csc_quad_form')
        M = 'arg1'
        seen = set()
        for val, ret, ev, tr in Walker(f, cut_loops=True, local_stores=True).leaves():
            nval = {normalise(k, M): v for k, v in val.items()}
            below = [v for k, v in nval.items() if k == 'lt(arg1.rowval[k], j)']
            ondiag = [v for k, v in nval.items() if k in ('eq(arg1.rowval[k], j)', 'eq(j, arg1.rowval[k])')]
            acc = []
            for e in ev:
                if e[0] == 'call' and e[1] in ('add_assign', 'sub_assign'):
                    c = e[4]
                    tgt = c.args[0]
                    loc = (tgt.get('m') or tgt.get('c') or {})
                    # the accumulator is a local: resolve the reference to its name
                    name = _ref_local(f, tgt)
                    a = split_args(normalise(str(e[2]), M))
                    # inside the value, the accumulators appear with their current value zero(): substitute by name where the operand is a local
                    p = to_poly(a[1], M)
                    acc.append((e[1], name, a[1], p))
            if ret[0] == 'diverge':
                if ret[1] not in ('index', 'index_mut', 'unreachable', 'assert_failed') and below and below[0] == 0 and ondiag and ondiag[0] == 0:
                    seen.add('reject')
                continue
            if below and below[0] == 1:
                seen.add('below')
                got = sorted((k, nme, _fx(p)) for k, nme, t, p in acc)
                want = sorted([('add_assign', 'tmp1', _fx(P_mul(P_atom('v'), P_atom('arg3_r')))), ('add_assign', 'tmp2', _fx(P_mul(P_atom('v'), P_atom('arg2_r'))))])
                R.check(got == want, 'entry|above-diagonal' + tag, 'quad_form: an entry with r < j accumulates %s, expected %s' % (got, want), f.loc())
            elif below and below[0] == 0 and ondiag and ondiag[0] == 1:
                seen.add('diag')
                got = sorted((k, nme, _fx(p)) for k, nme, t, p in acc)
                want = [('add_assign', 'out', _fx(P_mul(P_atom('v'), P_mul(P_atom('arg3_j'), P_atom('arg2_j')))))]
                R.check(got == want, 'entry|diagonal' + tag, 'quad_form: a diagonal entry accumulates %s, expected %s' % (got, want), f.loc())
            elif acc and not below:
                # column close: out += tmp1*y[j] + tmp2*x[j] - operands are the locals (shown with their first-iteration value zero())
                seen.add('close')
                c = [e for e in ev if e[0] == 'call' and e[1] == 'add_assign'][-1][4]
                v = f.sym_operand(c.args[1])
                txt = canon(v)
                names = set(re.findall(r'var:(\w+)', txt))
                R.check(len(acc) == 1 and acc[0][1] == 'out', 'close-target' + tag, 'the column is closed into %s' % [a_[1] for a_ in acc], f.loc())
        # the closing expression out += tmp1*y[j] + tmp2*x[j], read from the MIR with the accumulators kept by name
        def def_call(l):
            for d in f.defs.get(l, []):
                if d[0] != 's':
                    return f.call_at.get(d[1])
            return None

        def named_copy(o):
            o = o.get('m') or o.get('c') or {}
            for d in f.defs.get(o.get('l'), []):
                if d[0] == 's':
                    rv = f.blocks[d[1]]['s'][d[2]].get('rv', {})
                    src = (rv.get('a') or {}).get('c') or (rv.get('a') or {}).get('m') if rv.get('k') == 'use' else None
                    if src is not None and not src['p']:
                        try:
                            return f.local_name(src['l'])
                        except Exception:
                            return None
            return None
        pairs = None
        for c in f.calls:
            if c.callee.name == 'add_assign' and _ref_local(f, c.args[0]) == 'out':
                o = c.args[1].get('m') or c.args[1].get('c') or {}
                ad = def_call(o.get('l'))
                if ad is not None and ad.callee.name == 'add':
                    pairs = set()
                    for a_ in ad.args:
                        oo = a_.get('m') or a_.get('c') or {}
                        ml = def_call(oo.get('l'))
                        if ml is None or ml.callee.name != 'mul':
                            pairs.add(('?', '?'))
                            continue
                        nm_ = [named_copy(x) for x in ml.args]
                        vec = [normalise(canon(f.sym_operand(x)), M) for x in ml.args]
                        acc_name = [x for x in nm_ if x in ('tmp1', 'tmp2')]
                        other = [vec[i] for i in range(2) if nm_[i] not in ('tmp1', 'tmp2')]
                        pairs.add((acc_name[0] if acc_name else '?', other[0] if other else '?'))
        R.check(pairs == {('tmp1', 'arg2[j]'), ('tmp2', 'arg3[j]')}, 'close-expression' + tag,
                'the column is closed with %s, expected out += tmp1*y[j] + tmp2*x[j] (tmp1 holds the x-side sum, tmp2 the y-side sum)' % (sorted(pairs) if pairs else pairs), f.loc())
        R.check({'below', 'diag'} <= seen, 'cases' + tag, 'quad_form cases analysed: %s' % sorted(seen), f.loc())
        # r > j must not be accepted silently: some path with lt = 0 and eq = 0 diverges with an explicit panic
        rej = False
        for val, ret, ev, tr in Walker(f, cut_loops=True).leaves():
            nval = {normalise(k, M): v for k, v in val.items()}
            if nval.get('lt(arg1.rowval[k], j)') == 0 and (nval.get('eq(arg1.rowval[k], j)') == 0 or nval.get('eq(j, arg1.rowval[k])') == 0):
                rej = rej or ret[0] == 'diverge'
                R.check(ret[0] == 'diverge', 'lower-rejected' + tag, 'quad_form continues on an entry below the diagonal (the input must be upper triangular)', f.loc())
        R.check(rej, 'lower-rejected|path' + tag, 'no rejecting path for r > j found', f.loc())
        # resets: tmp1, tmp2 are zeroed inside the column loop, out before it
        loops = f.loops()
        outer = max(loops.items(), key=lambda x: len(x[1])) if loops else None
        for nm_, inside in (('tmp1', True), ('tmp2', True), ('out', False)):
            z = [bi for bi, si, st in f.assignments() if not st['p']['p'] and f.local_name(st['p']['l']) == nm_]
            zc = [c.bb for c in f.calls if not c.dest['p'] and f.local_name(c.dest['l']) == nm_ and c.callee.name == 'zero']
            bs = z + zc
            ok = bool(bs) and outer is not None and all((b in outer[1]) == inside for b in bs)
            R.check(ok, 'reset|%s%s' % (nm_, tag), '%s is initialised in blocks %s: %s' % (nm_, bs, 'must be reset for every column' if inside else 'must be initialised once, before the column loop'), f.loc())

    R.guard(body)


# ---------------------------------------------------------------------------
# R3: sums and norms
# ---------------------------------------------------------------------------

def sums_norms(rep, F, tag):
    R = rep.rule('C16.R3', 'col_sums / row_sums / column, row and symmetric infinity norms accumulate the stored value (|v| under max) at the column, the row, or both; resetting variants zero first')

    def body():
        def meth(nm):
            fs = [f for f in F.find(name=nm) if (f.impl_trait or '').endswith('MatrixMath') and 'CscMatrix' in (f.impl_self or '')]
            if len(fs) != 1:
                raise AnchorError('MatrixMath::%s for CscMatrix matched %d functions' % (nm, len(fs)))
            return fs[0]
        n = 0
        COL = r'Range::Range\(self\.colptr\[j\], self\.colptr\[add\(j, 1_usize\)\]\)'
        f = meth('col_sums')
        st = [(k, t, v) for val, ret, row in events(f) for k, t, v, e in row if k == '=']
        R.check(bool(st) and all(t == 'arg2[j]' and re.fullmatch(r'sum\(self\.nzval\[%s\]\)' % COL, v) for k, t, v in st), 'col_sums' + tag,
                'col_sums stores %s, expected sums[j] = sum(nzval[colptr[j]..colptr[j+1]])' % [(t, v[:90]) for k, t, v in st][:2], f.loc())
        n += 1
        for nm_ in ('col_sums', 'col_norms_no_reset'):
            g_ = meth(nm_)
            itp = 0
            for val, ret, row in events(g_):
                if ret[0] != 'cut':
                    continue
                itp += 1
                R.check(any(k == '=' and t == 'arg2[j]' for k, t, v, e in row), 'every-column-written|%s%s' % (nm_, tag),
                        '%s has an iteration path (%s) that leaves its output entry unwritten: a structurally empty column must give 0 / keep the running maximum through the '
                        'same assignment, not keep whatever the caller\'s buffer held' % (nm_, {k[:50]: v for k, v in val.items() if 'NEXT' not in k}), g_.loc())
            R.check(itp >= 1, 'iteration-paths|%s%s' % (nm_, tag), 'no iteration path of %s analysed' % nm_, g_.loc())
        f = meth('row_sums')
        ok = False
        for val, ret, row in events(f):
            acc = [(k, t, v) for k, t, v, e in row if k in ('add_assign', 'sub_assign', '=')]
            pre = [(k, t, v) for k, t, v, e in row if k == 'fill']
            if acc:
                ok = acc == [('add_assign', 'arg2[self.rowval[k]]', 'self.nzval[k]')] and pre == [('fill', 'arg2', 'zero()')]
                R.check(ok, 'row_sums' + tag, 'row_sums performs %s after %s, expected sums.fill(0) then sums[r] += v over all entries' % (acc, pre), f.loc())
        R.check(ok, 'row_sums|path' + tag, 'row_sums: no accumulating path', f.loc())
        n += 1
        f = meth('col_norms_no_reset')
        st = [(t, v) for val, ret, row in events(f) for k, t, v, e in row if k == '=']
        want = r'fold\(skip\(take\(iter\(self\.nzval\), self\.colptr\[add\(j, 1_usize\)\]\), self\.colptr\[j\]\), arg2\[j\], closure\(\)\)'
        R.check(bool(st) and all(t == 'arg2[j]' and re.fullmatch(want, v) for t, v in st), 'col_norms' + tag,
                'col_norms_no_reset stores %s, expected norms[j] = fold over nzval[colptr[j]..colptr[j+1]] starting from norms[j]' % [(t, v[:120]) for t, v in st][:1], f.loc())
        cl = F.closures_of.get(f.key, [])
        R.check(len(cl) == 1 and canon(cl[0].sym_local(0)) in ('max(arg2, abs(arg3))', 'max(abs(arg3), arg2)'), 'col_norms|fold' + tag,
                'col_norms_no_reset folds with %s, expected max(m, |v|)' % [canon(c.sym_local(0)) for c in cl], f.loc())
        n += 1
        f = meth('row_norms_no_reset')
        st = [(t, v) for val, ret, row in events(f) for k, t, v, e in row if k == '=']
        R.check(bool(st) and all(t == 'arg2[self.rowval[k]]' and v in ('max(arg2[self.rowval[k]], abs(self.nzval[k]))', 'max(abs(self.nzval[k]), arg2[self.rowval[k]])') for t, v in st),
                'row_norms' + tag, 'row_norms_no_reset stores %s, expected norms[r] = max(norms[r], |v|)' % st[:1], f.loc())
        n += 1
        f = meth('col_norms_sym_no_reset')
        st = set((t, v) for val, ret, row in events(f) for k, t, v, e in row if k == '=')
        wj = {('arg2[j]', 'max(arg2[j], abs(self.nzval[k]))'), ('arg2[j]', 'max(abs(self.nzval[k]), arg2[j])')}
        wr = {('arg2[self.rowval[k]]', 'max(arg2[self.rowval[k]], abs(self.nzval[k]))'), ('arg2[self.rowval[k]]', 'max(abs(self.nzval[k]), arg2[self.rowval[k]])')}
        R.check(len(st) == 2 and st & wj and st & wr, 'col_norms_sym' + tag,
                'col_norms_sym_no_reset stores %s, expected both norms[j] and norms[r] = max(., |v|) for every stored entry of the triangle' % sorted(st), f.loc())
        n += 1
        for nm_ in ('col_norms', 'row_norms', 'col_norms_sym'):
            f = meth(nm_)
            seq = [(c.callee.name, [canon(f.sym_operand(a)) for a in c.args]) for c in f.calls if c.callee.name in ('fill', nm_ + '_no_reset')]
            R.check(seq == [('fill', ['arg2', 'zero()']), (nm_ + '_no_reset', ['self', 'arg2'])], 'reset-then|%s%s' % (nm_, tag), '%s performs %s, expected fill(0) then %s_no_reset(self, norms)' % (nm_, seq, nm_), f.loc())
            n += 1
        R.check(n >= 8, 'count' + tag, 'only %d routines analysed' % n)

    R.guard(body)


# ---------------------------------------------------------------------------
# R4: scalings
# ---------------------------------------------------------------------------

def scalings(rep, F, tag):
    R = rep.rule('C16.R4', 'scale / negate act on all stored values; lscale multiplies v by l[r], rscale scales column j by r[j], lrscale multiplies v by l[r] r[j]')

    def body():
        def meth(nm):
            fs = [f for f in F.find(name=nm) if (f.impl_trait or '').endswith('MatrixMathMut') and 'CscMatrix' in (f.impl_self or '')]
            if len(fs) != 1:
                raise AnchorError('MatrixMathMut::%s for CscMatrix matched %d functions' % (nm, len(fs)))
            return fs[0]
        f = meth('scale')
        cs = [(c.callee.name, [canon(f.sym_operand(a)) for a in c.args]) for c in f.calls if c.callee.name in ('scale', 'negate', 'hadamard')]
        R.check(cs == [('scale', ['self.nzval', 'arg2'])], 'scale' + tag, 'scale performs %s' % cs, f.loc())
        f = meth('negate')
        cs = [(c.callee.name, [canon(f.sym_operand(a)) for a in c.args]) for c in f.calls if c.callee.name in ('scale', 'negate', 'hadamard')]
        R.check(cs == [('negate', ['self.nzval'])], 'negate' + tag, 'negate performs %s' % cs, f.loc())
        f = meth('lscale')
        acc = [(k, t, _fx(to_poly(v, 'self'))) for val, ret, row in events(f) for k, t, v, e in row if k in ('mul_assign', '=', 'add_assign')]
        R.check(bool(acc) and set(acc) == {('mul_assign', 'self.nzval[k]', 'arg2_r')}, 'lscale' + tag, 'lscale performs %s, expected v *= l[r]' % acc[:2], f.loc())
        f = meth('rscale')
        sc = [(k, t, v) for val, ret, row in events(f) for k, t, v, e in row if k in ('scale', 'mul_assign', '=')]
        COL = 'Range::Range(self.colptr[j], self.colptr[add(j, 1_usize)])'
        R.check(bool(sc) and set(sc) == {('scale', 'self.nzval[%s]' % COL, 'arg2[j]')}, 'rscale' + tag, 'rscale performs %s, expected nzval[colptr[j]..colptr[j+1]].scale(r[j])' % sc[:2], f.loc())
        ks = set(k for val, ret, row in events(f) for k in val if k.startswith('discr(NEXT') or 'Range::Range(0_usize' in k)
        f = meth('lrscale')
        acc = [(k, t, _fx(to_poly(v, 'self'))) for val, ret, row in events(f) for k, t, v, e in row if k in ('mul_assign', '=', 'add_assign')]
        want = _fx(P_mul(P_atom('arg2_r'), P_atom('arg3_j')))
        R.check(bool(acc) and set(acc) == {('mul_assign', 'self.nzval[k]', want)}, 'lrscale' + tag, 'lrscale performs %s, expected v *= l[r] * r[j]' % acc[:2], f.loc())

    R.guard(body)


# ---------------------------------------------------------------------------
# R5: routing
# ---------------------------------------------------------------------------

def routing(rep, F, tag):
    R = rep.rule('C16.R5', 'the gemv / symv / quad_form trait impls of the CSC matrix route to the matching kernel with unchanged arguments')

    def body():
        want = {
            ('gemv', 'CscMatrix'): '_csc_axpby_N(self, arg2, arg3, arg4, arg5)',
            ('gemv', 'Adjoint'): '_csc_axpby_T(self.src, arg2, arg3, arg4, arg5)',
            ('symv', 'Symmetric'): '_csc_symv_unsafe(self.src, arg2, arg3, arg4, arg5)',
            ('quad_form', 'CscMatrix'): '_csc_quad_form(self, arg2, arg3)',
        }
        n = 0
        for (nm, owner), w in want.items():
            fs = [f for f in F.find(name=nm) if last_seg(strip_generics(f.impl_self or '').replace('&', '').strip()) == owner and 'csc' in f.key.lower() + (f.file or '')]
            fs = [f for f in fs if f.file.endswith('csc/matrix_math.rs')]
            if len(fs) != 1:
                raise AnchorError('%s for %s matched %d functions' % (nm, owner, len(fs)))
            f = fs[0]
            cs = [canon(('call', c.callee.target_key or c.callee.name, tuple(f.sym_operand(a) for a in c.args), c.bb)) for c in f.calls if c.callee.name.startswith('_csc_')]
            n += 1
            ok = len(cs) == 1 and (cs[0] == w or (owner == 'Symmetric' and cs[0] == w.replace('_unsafe', '_safe')))
            R.check(ok, 'route|%s|%s%s' % (nm, owner, tag), '%s for %s calls %s, expected %s' % (nm, owner, cs, w), f.loc())
        R.check(n == 4, 'count' + tag, '%d routes analysed' % n)

    R.guard(body)


# ---------------------------------------------------------------------------
# R7: triangle extraction / test, linear index -> coordinates
# ---------------------------------------------------------------------------

def triangle(rep, F, tag, rid='C16.R7'):
    R = rep.rule(rid, 'to_triu keeps, per column, the leading entries with row <= col (count pass = copy pass, rowval and nzval copied over identical ranges); is_triu rejects any row > col; index_to_coord inverts colptr')

    def body():
        f = F.one(name='to_triu', adt='CscMatrix')
        nz = lambda t: t.replace('withoverflow', '').replace(').0', ')')
        J = 'next(into_iter(Range::Range(0_usize, self.n)))@Some.0'
        NEWCP = 'from_elem(0_usize, add(self.n, 1_usize))'
        cl = F.closures_of.get(f.key, [])
        R.check(len(cl) == 1 and canon(cl[0].sym_local(0)) in ('le(arg2, arg1._ref__col)', 'le(arg2, arg1.col)'), 'to_triu|keeps-upper' + tag,
                'to_triu counts the entries with %s, expected row <= col (the diagonal belongs to the upper triangle)' % [canon(c.sym_local(0)) for c in cl], f.loc())
        cnt = [nz(canon(('call', c.callee.name, tuple(f.sym_operand(a) for a in c.args), c.bb))) for c in f.calls if c.callee.name == 'count']
        want_cnt = 'count(filter(iter(index(self.rowval, Range::Range(index(self.colptr, %s), index(self.colptr, add(%s, 1_usize))))), closure(%s)))' % (J, J, J)
        R.check(cnt == [want_cnt], 'to_triu|count-range' + tag, 'to_triu counts over %s, expected the rows of column j' % [c[:160] for c in cnt], f.loc())
        stores = [(nz(canon(f.sym_place(st['p']))), nz(canon(f.sym_rvalue(st['rv'])))) for bi, si, st in f.assignments() if st['p']['p'] and st['p']['l'] != 0]
        tgt = 'index_mut(%s, add(%s, 1_usize))' % (NEWCP, J)
        cps = [v for t, v in stores if t == tgt]
        ldest = 'add(index(%s, %s), index(%s, add(%s, 1_usize)))' % (NEWCP, J, NEWCP, J)
        R.check(sorted(cps) == sorted([want_cnt, ldest]), 'to_triu|colptr' + tag,
                'the new colptr[j+1] receives %s, expected the count of the column and then colptr[j] + count (cumulative sum)' % [c[:120] for c in cps], f.loc())
        cs = [c for c in f.calls if c.callee.name == 'copy_from_slice']
        got = [[nz(canon(f.sym_operand(a))) for a in c.args] for c in cs]
        dst_rng = 'Range::Range(index(%s, %s), %s)' % (NEWCP, J, ldest)
        src_rng = 'Range::Range(index(self.colptr, %s), add(index(self.colptr, %s), index(%s, add(%s, 1_usize))))' % (J, J, NEWCP, J)
        want = [['index_mut(from_elem(0_usize, var:nnz), %s)' % dst_rng, 'index(self.rowval, %s)' % src_rng],
                ['index_mut(from_elem(zero(), var:nnz), %s)' % dst_rng, 'index(self.nzval, %s)' % src_rng]]
        R.check(sorted(got) == sorted(want), 'to_triu|copy-ranges' + tag,
                'to_triu copies %s; expected rows and values of the leading `count` entries of column j into [colptr_new[j], colptr_new[j] + count)' % [[x[:110] for x in g] for g in got], f.loc())
        # every pass of the copy loop turns the column's count into the cumulative pointer - also for a column that keeps no entry
        loops = f.loops()
        closers = [bi for bi, si, st in f.assignments() if st['p']['p'] and st['p']['l'] != 0 and nz(canon(f.sym_place(st['p']))) == tgt and nz(canon(f.sym_rvalue(st['rv']))) == ldest]
        if R.check(len(closers) == 1, 'to_triu|closing-store' + tag, 'to_triu has %d statements colptr[j+1] = colptr[j] + count' % len(closers), f.loc()):
            inner = [h_ for h_, b_ in loops.items() if closers[0] in b_]
            h_ = min(inner, key=lambda x: len(loops[x])) if inner else None
            passes = [l for l in Walker(f, cut_loops=True).leaves(start=h_) if l[1][0] == 'cut' and l[1][1] == h_ and all(b_ in loops[h_] or b_ == h_ for b_ in l[3])] if h_ is not None else []
            R.check(bool(passes) and all(closers[0] in l[3] for l in passes), 'to_triu|every-column-closed' + tag,
                    'some pass of the copy loop of to_triu skips colptr[j+1] = colptr[j] + count (e.g. a shortcut for columns that keep no entry): the new colptr is then not cumulative '
                    'and the constructor of the result asserts / the matrix is malformed', f.loc())
        g = F.one(name='is_triu', adt='CscMatrix')
        cl = F.closures_of.get(g.key, [])
        JJ = 'next(into_iter(Range::Range(0_usize, ncols(self))))@Some.0'
        JJn = 'next(into_iter(Range::Range(0_usize, self.n)))@Some.0'
        rows = set()
        tests = set()
        for val, ret, ev, tr in Walker(g, cut_loops=True).leaves():
            if ret[0] == 'diverge':
                continue
            a = []
            for k, v in val.items():
                kk = nz(k)
                if kk.startswith('any('):
                    # closure form: any(iter(rows of column j), |row| row > col)
                    for J in (JJ, JJn):
                        if kk == 'any(iter(index(self.rowval, Range::Range(index(self.colptr, %s), index(self.colptr, add(%s, 1_usize))))), closure(%s))' % (J, J, J):
                            if len(cl) == 1 and canon(cl[0].sym_local(0)) in ('lt(arg1._ref__col, arg2)', 'lt(arg1.col, arg2)', 'gt(arg2, arg1._ref__col)', 'gt(arg2, arg1.col)'):
                                tests.add('row>col')
                    a.append(v)
                elif kk.startswith(('lt(', 'gt(')):
                    # loop form: the element of the rows of column j is compared with j
                    for J in (JJ, JJn):
                        E = 'next(into_iter(iter(index(self.rowval, Range::Range(index(self.colptr, %s), index(self.colptr, add(%s, 1_usize)))))))@Some.0' % (J, J)
                        if kk in ('lt(%s, %s)' % (J, E), 'gt(%s, %s)' % (E, J)):
                            tests.add('row>col')
                            a.append(v)
            if ret[0] == 'c' and a:
                rows.add((a[0], ret[1]))
            if ret[0] == 'c' and not a:
                rows.add(('exit', ret[1]))
            if ret[0] == 'cut':
                # a pass that goes on to the next column (or entry) has either seen the test fail for what it looked at, or has run out of entries
                # of *this* column; a pass that skips the scan on some other condition (column length, a flag) leaves entries unexamined
                exhausted = any(nz(k).startswith('discr(next(into_iter(iter(index(self.rowval, Range::Range(index(self.colptr, ') and v == 0 for k, v in val.items())
                other = {k[:70]: v for k, v in val.items() if not nz(k).startswith(('discr(next(', 'any(', 'lt(', 'gt('))}
                # skipping a column found *empty* is no exemption: it has no entry to examine
                for J in (JJ, JJn):
                    c0, c1 = 'index(self.colptr, %s)' % J, 'index(self.colptr, add(%s, 1_usize))' % J
                    empt_if_1 = ('eq(%s, %s)' % (c0, c1), 'eq(%s, %s)' % (c1, c0), 'le(%s, %s)' % (c1, c0), 'ge(%s, %s)' % (c0, c1), 'is_empty(index(self.rowval, Range::Range(%s, %s)))' % (c0, c1))
                    empt_if_0 = ('ne(%s, %s)' % (c0, c1), 'ne(%s, %s)' % (c1, c0), 'lt(%s, %s)' % (c0, c1), 'gt(%s, %s)' % (c1, c0))
                    for k, v in val.items():
                        kk = nz(k)
                        if kk in empt_if_1 or kk in empt_if_0:
                            other.pop(k[:70], None)
                            if (kk in empt_if_1 and v == 1) or (kk in empt_if_0 and v == 0):
                                exhausted = True
                R.check((bool(a) and a[0] == 0 and not other) or (exhausted and not other), 'is_triu|every-column-scanned' + tag,
                        'a pass of is_triu moves on without having scanned the entries of the column (path %s): a column that is short enough, or otherwise exempted, can '
                        'still hold an entry below the diagonal' % {k[:70]: v for k, v in val.items()}, g.loc())
        R.check(tests == {'row>col'}, 'is_triu|test' + tag,
                'is_triu does not test `row > col` over the rows of every column (closures %s)' % [canon(c.sym_local(0)) for c in cl], g.loc())
        R.check((1, 0) in rows and ('exit', 1) in rows and (1, 1) not in rows and (0, 1) not in rows and (0, 0) not in rows, 'is_triu|table' + tag, 'is_triu returns %s' % sorted(rows, key=str), g.loc())
        h = F.one(name='index_to_coord', adt='CscMatrix')
        r0 = [nz(str(ret[1])) for val, ret, ev, tr in Walker(h, cut_loops=True).leaves() if ret[0] == 's']
        cl = F.closures_of.get(h.key, [])
        R.check(r0 == ['tuple(index(self.rowval, arg2), sub(partition_point(self.colptr, closure(arg2)), 1_usize))']
                and len(cl) == 1 and nz(canon(cl[0].sym_local(0))) in ('lt(arg2, add(arg1._ref__idx, 1_usize))', 'le(arg2, arg1._ref__idx)'), 'index_to_coord' + tag,
                'index_to_coord returns %s with predicate %s, expected (rowval[idx], #(colptr entries <= idx) - 1)' % (r0, [canon(c.sym_local(0)) for c in cl]), h.loc())

    R.guard(body)


def format_check(rep, F, tag):
    """check_format accepts exactly the canonical encodings: consistent dimensions (C19.R4 decides check_dimensions), strictly increasing
    rows inside every column (so sorted *and* duplicate-free) and rows in range.  Decision table over its three tests."""
    R = rep.rule('C16.R8', 'check_format: Ok iff check_dimensions passes, no column has two consecutive rows with r[k] >= r[k+1], and every row < m')

    def body():
        f = F.one(name='check_format', adt='CscMatrix')
        nz = lambda t: t.replace('withoverflow', '').replace(').0', ')')
        J = 'next(into_iter(Range::Range(0_usize, self.n)))@Some.0'
        win = 'any(windows(index(self.rowval, Range::Range(index(self.colptr, %s), index(self.colptr, add(%s, 1_usize)))), 2_usize), closure())' % (J, J)
        allk = 'all(iter(self.rowval), closure(self))'
        cls = sorted(nz(canon(g.sym_local(0))) for g in F.closures_of.get(f.key, []))
        R.check(cls == sorted(['le(arg2[1_usize], arg2[0_usize])', 'lt(arg2, arg1._ref__self.m)']), 'predicates' + tag,
                'check_format tests %s, expected c[0] >= c[1] on consecutive rows (strictly increasing rows: sorted and duplicate-free) and r < m' % cls, f.loc())
        seen = set()
        for val, ret, ev, tr in Walker(f, cut_loops=True).leaves():
            if ret[0] not in ('s', 'cut'):
                continue
            v = {nz(k): x for k, x in val.items()}
            dim = v.get('discr(branch(check_dimensions(self)))')
            w = [x for k, x in v.items() if k.startswith('any(windows(')]
            wk = [k for k in v if k.startswith('any(windows(')]
            a = v.get(allk)
            out = str(ret[1]) if ret[0] == 's' else 'continue'
            if dim == 1:
                seen.add('dim')
                R.check(out.startswith('from_residual('), 'table|dimensions' + tag, 'check_format returns %s although check_dimensions failed' % out[:60], f.loc())
                continue
            if wk:
                R.check(wk[0] == win, 'window-range' + tag, 'the ordering test runs over %s, expected the rows of column j' % wk[0][:160], f.loc())
            if w and w[0] == 1:
                seen.add('order')
                R.check(out.startswith('Result::Err('), 'table|row-order' + tag, 'a column with non-increasing rows gives %s' % out[:60], f.loc())
            elif a == 0:
                seen.add('range')
                R.check(out.startswith('Result::Err('), 'table|row-range' + tag, 'a row index >= m gives %s' % out[:60], f.loc())
            elif a == 1:
                seen.add('ok')
                R.check(out == 'Result::Ok(tuple())', 'table|accept' + tag, 'a canonical matrix gives %s' % out[:60], f.loc())
            if ret[0] == 's' and out == 'Result::Ok(tuple())':
                R.check(dim == 0 and a == 1 and not (w and w[0] == 1), 'accepts-only-canonical' + tag, 'check_format returns Ok under %s' % {k[:40]: x for k, x in v.items()}, f.loc())
        R.check(seen == {'dim', 'order', 'range', 'ok'}, 'table|rows' + tag, 'check_format cases analysed: %s' % sorted(seen), f.loc())

    R.guard(body)


# ---------------------------------------------------------------------------
# R9: block concatenation cursors
# ---------------------------------------------------------------------------

def concatenation(rep, F, tag):
    """blockdiag / hvcat place block after block with running row and column cursors.  A cursor handed to fill_block as the *row* offset
    may only ever be advanced by the row count of a block, a cursor used as *column* offset (fill_block, colcount_block) only by a
    column count; the totals handed to spalloc are sums of nrows / ncols / nnz respectively; count pass and fill pass use the same
    shape flag.  (Unit discipline of the cursors - a copy/paste of the neighbouring line mixes them.)"""
    R = rep.rule('C16.R9', 'blockdiag / hvcat: row cursors advance by nrows(block), column cursors by ncols(block); spalloc receives (sum nrows, sum ncols), sum nnz; count and fill pass agree')

    def body():
        nz = lambda t: t.replace('withoverflow', '').replace(').0', ')')
        n = 0
        for nm in ('blockdiag', 'hvcat'):
            fs = [f for f in F.find(name=nm) if f.file.endswith('csc/block_concatenate.rs')]
            if len(fs) != 1:
                raise AnchorError('%s matched %d functions' % (nm, len(fs)))
            f = fs[0]
            role = {}
            for c in f.calls:
                if c.callee.name == 'fill_block' and len(c.args) >= 6:
                    role.setdefault(nz(canon(f.sym_operand(c.args[3]))), set()).add('row')
                    role.setdefault(nz(canon(f.sym_operand(c.args[4]))), set()).add('col')
                if c.callee.name == 'colcount_block' and len(c.args) >= 4:
                    role.setdefault(nz(canon(f.sym_operand(c.args[2]))), set()).add('col')
                if c.callee.name == 'spalloc' and nm == 'blockdiag':
                    a = nz(canon(f.sym_operand(c.args[0])))
                    m = re.fullmatch(r'tuple\((var:\w+), (var:\w+)\)', a)
                    if m:
                        role.setdefault(m.group(1), set()).add('row')
                        role.setdefault(m.group(2), set()).add('col')
                    role.setdefault(nz(canon(f.sym_operand(c.args[1]))), set()).add('nnz')
            curs = {k: v for k, v in role.items() if k.startswith('var:')}
            R.check(len(curs) >= (3 if nm == 'blockdiag' else 2), 'cursors|%s%s' % (nm, tag), '%s: cursors found %s' % (nm, sorted(role)), f.loc())
            unit = {'row': 'nrows', 'col': 'ncols', 'nnz': 'nnz'}
            for var, rs in sorted(curs.items()):
                if not R.check(len(rs) == 1, 'cursor-role|%s|%s%s' % (nm, var, tag), '%s: %s is used both as %s offset' % (nm, var, ' and '.join(sorted(rs))), f.loc()):
                    continue
                r_ = list(rs)[0]
                name = var[4:]
                for bi, si, st in f.assignments():
                    if st['p']['p'] or f.local_name(st['p']['l']) != name:
                        continue
                    v = nz(canon(f.sym_rvalue(st['rv'])))
                    ok = v == '0_usize' or re.fullmatch(r'add\(%s, %s\(.*\)\)' % (re.escape(var), unit[r_]), v) is not None or re.fullmatch(r'max\(.*\)', v) is not None
                    n += 1
                    R.check(ok, 'cursor-unit|%s|%s%s' % (nm, name, tag),
                            '%s: the %s cursor %s is updated by %s; it may only be reset to 0 or advanced by %s(<block>)' % (nm, {'row': 'row', 'col': 'column', 'nnz': 'entry-count'}[r_], name, v[:100], unit[r_]), f.loc(st['sp']))
            # ... and on *every* pass of the loop that owns the cursor (an all-zero block still occupies its rows / columns)
            loops = f.loops()
            pass_cache = {}
            for var, rs in sorted(curs.items()):
                name = var[4:]
                for bi, si, st in f.assignments():
                    if st['p']['p'] or f.local_name(st['p']['l']) != name or nz(canon(f.sym_rvalue(st['rv']))) == '0_usize':
                        continue
                    inner = [h for h, body_ in loops.items() if bi in body_]
                    if not inner:
                        continue
                    h = min(inner, key=lambda x: len(loops[x]))
                    if h not in pass_cache:
                        # one full pass of that loop: from its header back to its header (the walk is started at the header because two
                        # loops over the same range share their iterator atom when walked from the function entry)
                        pass_cache[h] = [l for l in Walker(f, cut_loops=True).leaves(start=h) if l[1][0] == 'cut' and l[1][1] == h and all(b_ in loops[h] or b_ == h for b_ in l[3])]
                    passes = pass_cache[h]
                    R.check(bool(passes) and all(bi in l[3] for l in passes), 'cursor-every-pass|%s|%s%s' % (nm, name, tag),
                            '%s: some pass of the loop that places the blocks does not advance the %s cursor %s (e.g. a shortcut for blocks without stored entries): the following '
                            'blocks land on the wrong %s' % (nm, 'row' if 'row' in rs else 'column', name, 'rows' if 'row' in rs else 'columns'), f.loc(st['sp']))
            flags = set(nz(canon(f.sym_operand(c.args[-1]))) for c in f.calls if c.callee.name in ('fill_block', 'colcount_block'))
            R.check(len(flags) == 1, 'same-shape|%s%s' % (nm, tag), '%s: count and fill pass use shape flags %s' % (nm, sorted(flags)), f.loc())
            ctc, bsc = calls_named(f, 'colcount_to_colptr'), calls_named(f, 'backshift_colptrs')
            cbs, fbs = calls_named(f, 'colcount_block'), calls_named(f, 'fill_block')
            ok = (len(ctc) == 1 and len(bsc) == 1 and cbs and fbs
                  and all(not f.dominates(ctc[0].bb, c.bb) for c in cbs) and all(f.dominates(ctc[0].bb, c.bb) for c in fbs)
                  and all(not f.dominates(bsc[0].bb, c.bb) for c in fbs) and f.dominates(ctc[0].bb, bsc[0].bb))
            R.check(ok, 'passes|%s%s' % (nm, tag), '%s does not run count pass -> colcount_to_colptr -> fill pass -> backshift_colptrs in that order' % nm, f.loc())
        R.check(n >= 8, 'count' + tag, 'only %d cursor updates analysed' % n)

    R.guard(body)


# ---------------------------------------------------------------------------
# R10: block placement utilities (transpose, concatenation, KKT assembly all go through them)
# ---------------------------------------------------------------------------

def block_placement(rep, F, tag, rid='C16.R10'):
    """fill_block copies a matrix M into a larger one at (initrow, initcol), optionally transposed; colcount_block counts where its entries
    will go.  Entry k of column j of M (row r = M.rowval[k]) lands at (r + initrow, j + initcol) for shape N and at (j + initrow, r + initcol)
    for shape T; it is written at the column's current fill pointer together with its value and its map entry, and the pointer
    advances by one.  The count pass adds, per destination column, exactly the number of entries the fill pass will put there."""
    R = rep.rule(rid, 'fill_block / colcount_block: entry (r, j, v) of M goes to (r + initrow, j + initcol) (N) or (j + initrow, r + initcol) (T) with its value and map entry; count pass = fill pass per destination column')

    def body():
        f = F.one(name='fill_block', adt='CscMatrix')
        shapes = [v['n'] for v in F.adt('MatrixShape')['variants']]
        nz = lambda t: normalise(t, 'arg2')
        seen = {}
        for val, ret, ev, tr in Walker(f, cut_loops=True, local_stores=True).leaves():
            d = [v for k, v in val.items() if k == 'discr(arg6)']
            stores = [(nz(str(e[1])), nz(str(e[2]))) for e in ev if e[0] == 'store']
            if not d or not stores or d[0] >= len(shapes):
                continue
            loc = {}
            for e in ev:
                if e[0] == 'assign' and e[1] in ('col', 'row') and isinstance(e[4], dict):
                    loc[e[1]] = nz(canon(f.sym_rvalue(e[4]['rv'])))
            seen[shapes[d[0]]] = (loc, stores)
        want_loc = {'N': {'col': {'add(j, arg5)', 'add(arg5, j)'}, 'row': {'add(arg2.rowval[k], arg4)', 'add(arg4, arg2.rowval[k])'}},
                    'T': {'col': {'add(arg2.rowval[k], arg5)', 'add(arg5, arg2.rowval[k])'}, 'row': {'add(j, arg4)', 'add(arg4, j)'}}}
        for sh in ('N', 'T'):
            if not R.check(sh in seen, 'fill|%s|path%s' % (sh, tag), 'no fill path for shape %s analysed' % sh, f.loc()):
                continue
            loc, stores = seen[sh]
            R.check(loc.get('col') in want_loc[sh]['col'] and loc.get('row') in want_loc[sh]['row'], 'fill|%s|coordinates%s' % (sh, tag),
                    'fill_block (shape %s) places an entry at row %s, column %s; expected %s' % (sh, loc.get('row'), loc.get('col'),
                                                                                                 '(rowval[k] + initrow, j + initcol)' if sh == 'N' else '(j + initrow, rowval[k] + initcol)'), f.loc())
            st = dict(stores)
            P = 'self.colptr[var:col]'
            rowv = st.get('self.rowval[%s]' % P)
            order = [t for t, v in stores]
            ok = (rowv in want_loc[sh]['row'] | {'var:row'} and st.get('self.nzval[%s]' % P) == 'arg2.nzval[k]' and st.get('arg3[k]') == P
                  and st.get(P) in ('add(%s, 1_usize)' % P,) and order and order[-1] == P)
            # (the fill pointer is advanced last: the three writes above use its value before the increment)
            R.check(ok, 'fill|%s|stores%s' % (sh, tag),
                    'fill_block (shape %s) stores %s; expected rowval[dest] = row, nzval[dest] = M.nzval[k], map[k] = dest, colptr[col] += 1 with dest = colptr[col]' % (sh, sorted(st.items())[:5]), f.loc())
        g = F.one(name='colcount_block', adt='CscMatrix')
        cseen = {}
        for val, ret, ev, tr in Walker(g, cut_loops=True, local_stores=True).leaves():
            d = [v for k, v in val.items() if k == 'discr(arg4)']
            stores = [(nz(str(e[1])), nz(str(e[2]))) for e in ev if e[0] == 'store']
            if d and stores and d[0] < len(shapes):
                cseen[shapes[d[0]]] = stores
        wantc = {'N': {('self.colptr[add(arg3, j)]', 'add(self.colptr[add(arg3, j)], sub(arg2.colptr[add(j, 1_usize)], arg2.colptr[j]))'),
                       ('self.colptr[add(j, arg3)]', 'add(self.colptr[add(j, arg3)], sub(arg2.colptr[add(j, 1_usize)], arg2.colptr[j]))')},
                 'T': {('self.colptr[add(arg3, arg2.rowval[k])]', 'add(self.colptr[add(arg3, arg2.rowval[k])], 1_usize)'),
                       ('self.colptr[add(arg2.rowval[k], arg3)]', 'add(self.colptr[add(arg2.rowval[k], arg3)], 1_usize)')}}
        for sh in ('N', 'T'):
            got = cseen.get(sh, [])
            R.check(len(got) == 1 and got[0] in wantc[sh], 'count|%s%s' % (sh, tag),
                    'colcount_block (shape %s) performs %s; expected colptr[initcol + %s] += %s' % (sh, got[:2], 'j' if sh == 'N' else 'rowval[k]', '#entries of column j' if sh == 'N' else '1'), g.loc())
        # transpose = count T, cumulate, fill T, backshift
        tr_ = [h for h in F.fns if h.name == 'from' and h.file.endswith('csc/core.rs') and calls_named(h, 'fill_block')]
        if R.check(len(tr_) == 1, 'transpose|anchor' + tag, 'From<Adjoint<CscMatrix>> matched %d functions' % len(tr_)):
            h = tr_[0]
            seq = [(c.callee.name, [canon(h.sym_operand(a)) for a in c.args][(0 if c.callee.name == 'spalloc' else 1):]) for c in h.calls if c.callee.name in ('colcount_block', 'colcount_to_colptr', 'fill_block', 'backshift_colptrs', 'spalloc')]
            names = [x[0] for x in seq]
            flags = [a[-1] for n_, a in seq if n_ in ('colcount_block', 'fill_block')]
            R.check(sorted(names) == sorted(['spalloc', 'colcount_block', 'colcount_to_colptr', 'fill_block', 'backshift_colptrs']) and all(x.endswith('::T') for x in flags)
                    and [a for n_, a in seq if n_ == 'spalloc'][0][0] == 'tuple(arg1.src.n, arg1.src.m)', 'transpose|steps' + tag,
                    'the concrete transpose performs %s; expected an (n x m) allocation and count / fill with shape T at offset (0, 0)' % seq, h.loc())

    R.guard(body)


# ---------------------------------------------------------------------------
# R11: dropzeros
# ---------------------------------------------------------------------------

def drop_zeros(rep, F, tag):
    """dropzeros compacts the stored entries in place: an entry is kept iff its value != 0; a kept entry moves, value *and* row together, to the
    write cursor, which then advances by one; a dropped entry moves nothing.  At the end of a column the old end pointer is read (it is
    the next column's start) *before* it is overwritten with the write cursor; finally both arrays are truncated to the cursor."""
    R = rep.rule('C16.R11', 'dropzeros: kept iff value != 0; value and row move together to the write cursor; old column end read before it is overwritten; both arrays truncated to the cursor')

    def body():
        f = F.one(name='dropzeros', adt='CscMatrix')
        nzt = lambda t: t.replace('withoverflow', '').replace(').0', ')')
        J = 'next(into_iter(Range::Range(0_usize, ncols(self))))@Some.0'
        END = 'index(self.colptr, add(%s, 1_usize))' % J
        RD = 'next(into_iter(Range::Range(var:first, %s)))@Some.0' % END
        seen = set()
        for val, ret, ev, tr in Walker(f, cut_loops=True, local_stores=True).leaves():
            if ret[0] == 'diverge':
                continue
            v = {nzt(k): x for k, x in val.items()}
            keep = [x for k, x in v.items() if k in ('ne(index(self.nzval, %s), zero())' % RD, 'ne(zero(), index(self.nzval, %s))' % RD)] + \
                   [1 - x for k, x in v.items() if k in ('eq(index(self.nzval, %s), zero())' % RD, 'eq(zero(), index(self.nzval, %s))' % RD)]
            moved = [x for k, x in v.items() if k in ('ne(var:writeidx, %s)' % RD, 'ne(%s, var:writeidx)' % RD)]
            stores = [(nzt(str(e[1])), nzt(str(e[2]))) for e in ev if e[0] == 'store']
            incs = [nzt(canon(f.sym_rvalue(e[4]['rv']))) for e in ev if e[0] == 'assign' and e[1] == 'writeidx' and isinstance(e[4], dict)]
            incs = [x for x in incs if x != '0_usize']
            if keep:
                if keep[0] == 1:
                    seen.add('keep')
                    R.check(incs == ['add(var:writeidx, 1_usize)'], 'kept-advances' + tag, 'a kept entry advances the write cursor by %s' % incs, f.loc())
                    want = [('index_mut(self.nzval, var:writeidx)', 'index(self.nzval, %s)' % RD), ('index_mut(self.rowval, var:writeidx)', 'index(self.rowval, %s)' % RD)]
                    if moved and moved[0] == 1:
                        seen.add('move')
                        R.check(sorted(stores) == sorted(want), 'kept-moves-both' + tag, 'a kept entry that has to move performs %s, expected value and row copied from the read position to the write cursor' % stores, f.loc())
                    else:
                        R.check(not stores or sorted(stores) == sorted(want), 'kept-in-place' + tag, 'a kept entry already in place performs %s' % stores, f.loc())
                        if not moved and sorted(stores) == sorted(want):
                            seen.add('move')     # unconditional move (a kept entry in place is copied onto itself)
                else:
                    seen.add('drop')
                    R.check(not stores and not incs, 'dropped-untouched' + tag, 'a zero entry performs %s and advances the cursor by %s' % (stores, incs), f.loc())
            elif any(t == 'index_mut(self.colptr, add(%s, 1_usize))' % J for t, x in stores):
                seen.add('close')
                names = []
                for e in ev:
                    if e[0] == 'assign' and e[1] == 'first' and isinstance(e[4], dict) and nzt(canon(f.sym_rvalue(e[4]['rv']))) == END:
                        names.append('read-end')
                    if e[0] == 'store' and nzt(str(e[1])) == 'index_mut(self.colptr, add(%s, 1_usize))' % J:
                        names.append('write-end')
                R.check(names == ['read-end', 'write-end'], 'column-close-order' + tag,
                        'at the end of a column dropzeros performs %s; the old end pointer must be saved as the next column\'s start before it is overwritten with the write cursor' % names, f.loc())
                R.check(any(t == 'index_mut(self.colptr, add(%s, 1_usize))' % J and str(x) in ('var:writeidx', '0') for t, x in stores), 'column-end-is-cursor' + tag, 'the new column end is %s' % stores, f.loc())
            if ret[0] == 's':
                rs = [nzt(str(e[2])) for e in ev if e[0] == 'call' and e[1] == 'resize']
                seen.add('exit')
                R.check(sorted(x.rsplit(',', 1)[0] for x in rs) == ['resize(self.nzval, var:writeidx', 'resize(self.rowval, var:writeidx'], 'truncate' + tag, 'dropzeros ends with %s' % rs, f.loc())
        R.check({'keep', 'move', 'drop', 'close', 'exit'} <= seen, 'cases' + tag, 'dropzeros cases analysed: %s' % sorted(seen), f.loc())

    R.guard(body)


# ---------------------------------------------------------------------------
# R13: consolidation of duplicate triplets
# ---------------------------------------------------------------------------

def triplet_consolidation(rep, F, tag):
    """new_from_triplets sorts the triplets by (column, row) and then consolidates runs of equal coordinates in place with a read and a
    write cursor.  One pass of the consolidation loop: a first-of-column or new-row entry is moved (row and value together) to the
    write cursor and both cursors advance; a repeated coordinate is *added to the entry just written* (nzval[writeidx-1] +=
    nzval[readidx]), the column count drops by one and only the read cursor advances.  Summing from the read side instead
    (nzval[readidx-1]) is right for pairs and loses values for runs of three or more."""
    R = rep.rule('C16.R13', 'new_from_triplets: duplicates are accumulated into the entry at the write cursor; new entries move row and value together; cursors advance as documented')

    def body():
        f = F.one(name='new_from_triplets', adt='CscMatrix')
        loops = f.loops()
        inc = [bi for bi, si, st in f.assignments() if not st['p']['p'] and f.local_name(st['p']['l']) == 'readidx' and 'add' in canon(f.sym_rvalue(st['rv']))]
        cands = [h for h, b in loops.items() if inc and all(x in b for x in inc)]
        if not cands:
            raise AnchorError('consolidation loop of new_from_triplets not found')
        h = min(cands, key=lambda x: len(loops[x]))
        nz = lambda t: t.replace('withoverflow', '').replace(').0', ')').replace('spalloc(tuple(arg1, arg2), len(arg5))', 'M')
        seen = set()
        for val, ret, ev, tr in Walker(f, cut_loops=True, local_stores=True).leaves(start=h):
            if not (ret[0] == 'cut' and ret[1] == h and all(b in loops[h] or b == h for b in tr)):
                continue
            v = {nz(k): x for k, x in val.items()}
            first = [x for k, x in v.items() if k.startswith('eq(0_usize, next(into_iter(Range::Range(0_usize, index(M.colptr')]
            newrow = [x for k, x in v.items() if k in ('ne(index(M.rowval, sub(var:readidx, 1_usize)), index(M.rowval, var:readidx))', 'ne(index(M.rowval, var:readidx), index(M.rowval, sub(var:readidx, 1_usize)))')]
            stores = sorted((nz(str(e[1])), nz(str(e[2]))) for e in ev if e[0] == 'store')
            ups = {}
            for e in ev:
                if e[0] == 'assign' and e[1] in ('readidx', 'writeidx') and isinstance(e[4], dict):
                    ups.setdefault(e[1], []).append(nz(canon(f.sym_rvalue(e[4]['rv']))))
            fresh = (first and first[0] == 1) or (newrow and newrow[0] == 1)
            if not first:
                continue
            if fresh:
                seen.add('fresh')
                moved = [x for k, x in v.items() if k in ('ne(var:readidx, var:writeidx)', 'ne(var:writeidx, var:readidx)')]
                want = sorted([('index_mut(M.rowval, var:writeidx)', 'index(M.rowval, var:readidx)'), ('index_mut(M.nzval, var:writeidx)', 'index(M.nzval, var:readidx)')])
                R.check((stores == want) if (moved and moved[0] == 1) else (stores in ([], want)), 'fresh-entry-moves' + tag, 'a new (row, column) entry performs %s' % stores, f.loc())
                R.check(ups == {'writeidx': ['add(var:writeidx, 1_usize)'], 'readidx': ['add(var:readidx, 1_usize)']}, 'fresh-entry-cursors' + tag, 'a new entry updates the cursors by %s' % ups, f.loc())
            elif newrow and newrow[0] == 0:
                seen.add('duplicate')
                acc = [(t, x) for t, x in stores if t.startswith('index_mut(M.nzval')]
                ok = acc in ([('index_mut(M.nzval, sub(var:writeidx, 1_usize))', 'add(index(M.nzval, sub(var:writeidx, 1_usize)), index(M.nzval, var:readidx))')],
                             [('index_mut(M.nzval, sub(var:writeidx, 1_usize))', 'add(index(M.nzval, var:readidx), index(M.nzval, sub(var:writeidx, 1_usize)))')])
                R.check(ok, 'duplicate-accumulates' + tag,
                        'a repeated coordinate performs %s; expected nzval[writeidx-1] = nzval[writeidx-1] + nzval[readidx] (the running sum lives at the write cursor: summing from '
                        'nzval[readidx-1] drops all but the last two values of a run)' % acc, f.loc())
                cnt = [(t, x) for t, x in stores if t.startswith('index_mut(M.colptr')]
                R.check(len(cnt) == 1 and cnt[0][1].startswith('sub(') and cnt[0][1].endswith(', 1_usize)'), 'duplicate-count' + tag, 'a repeated coordinate changes the column count by %s' % cnt, f.loc())
                R.check(ups == {'readidx': ['add(var:readidx, 1_usize)']}, 'duplicate-cursors' + tag, 'a repeated coordinate updates the cursors by %s' % ups, f.loc())
        R.check(seen == {'fresh', 'duplicate'}, 'cases' + tag, 'consolidation cases analysed: %s' % sorted(seen), f.loc())
        # the sort key is (column, row) and both arrays are permuted with the same permutation
        pm = [[canon(f.sym_operand(a)) for a in c.args] for c in f.calls if c.callee.name == 'permute']
        R.check(len(pm) == 2 and pm[0][2] == pm[1][2] and {nz(pm[0][0]), nz(pm[1][0])} == {'M.rowval', 'M.nzval'} and {pm[0][1], pm[1][1]} == {'arg3', 'arg5'}, 'same-permutation' + tag,
                'rows and values are permuted by %s' % [[x[:40] for x in p_] for p_ in pm], f.loc())

    R.guard(body)


# ---------------------------------------------------------------------------
# R14: get_entry / set_entry
# ---------------------------------------------------------------------------

def entry_access(rep, F, tag, rid='C16.R14'):
    """get_entry finds (row, col) by binary search in the rows of column col: that is only correct while the rows of a column stay sorted.
    set_entry must therefore insert a new entry at its sorted position first + partition_point(rows < row) - row index and value at the
    same position - overwrite an existing one at that same position, and rebuild the column pointers with exactly one more entry in
    that column."""
    R = rep.rule(rid, 'set_entry inserts row and value at the sorted position first + partition_point(rows < row), overwrites there if present, and bumps that column\'s count; get_entry reads first + index of the binary search')

    def body():
        f = F.one(name='set_entry', adt='CscMatrix')
        nz = lambda t: t.replace('withoverflow', '').replace(').0', ')')
        ROWS = 'index(self.rowval, Range::Range(index(self.colptr, arg2.1), index(self.colptr, add(arg2.1, 1_usize))))'
        POS = 'add(index(self.colptr, arg2.1), partition_point(%s, closure(arg2.0)))' % ROWS
        cl = F.closures_of.get(f.key, [])
        R.check(len(cl) == 1 and nz(canon(cl[0].sym_local(0))) in ('lt(arg2, arg1._ref__row)', 'lt(arg2, arg1.row)'), 'set|partition' + tag,
                'set_entry partitions the column with %s, expected rows < row' % [canon(c.sym_local(0)) for c in cl], f.loc())
        ins = [[nz(canon(f.sym_operand(a))) for a in c.args] for c in f.calls if c.callee.name == 'insert']
        R.check(sorted(ins) == sorted([['self.rowval', POS, 'arg2.0'], ['self.nzval', POS, 'arg3']]), 'set|insert-position' + tag,
                'set_entry inserts %s; expected rowval.insert(first + i, row) and nzval.insert(first + i, value) with i the sorted position (get_entry relies on sorted columns)' % [[x[:70] for x in a] for a in ins], f.loc())
        seen = set()
        for val, ret, ev, tr in Walker(f, cut_loops=True, local_stores=True).leaves():
            if ret[0] == 'diverge':
                continue
            calls = [e[1] for e in ev if e[0] == 'call']
            stores = [(nz(str(e[1])), nz(str(e[2]))) for e in ev if e[0] == 'store']
            if 'insert' in calls:
                seen.add('insert')
                seqn = [c for c in calls if c in ('colptr_to_colcount', 'colcount_to_colptr')]
                bump = [t for t, v in stores if t == 'index_mut(self.colptr, arg2.1)']
                R.check(seqn == ['colptr_to_colcount', 'colcount_to_colptr'] and len(bump) == 1, 'set|rebuild-pointers' + tag,
                        'after an insertion set_entry performs %s with column-count stores %s' % (seqn, [t for t, v in stores]), f.loc())
            elif stores:
                seen.add('overwrite')
                R.check(stores == [('index_mut(self.nzval, %s)' % POS, 'arg3')], 'set|overwrite-position' + tag, 'an existing entry is overwritten by %s' % stores, f.loc())
            else:
                # nothing written: only a *new* zero may be ignored - an existing entry must be overwritten, also with zero
                v_ = {nz(k): x for k, x in val.items()}
                absent = any((k.startswith('eq(') and 'partition_point(' in k and 'len(' in k and x == 1) or (k.startswith('ne(') and 'partition_point(' in k and 'arg2.0' in k and x == 1) for k, x in v_.items())
                R.check(absent and any(k in ('eq(arg3, zero())', 'eq(zero(), arg3)') and x == 1 for k, x in v_.items()), 'set|noop-only-new-zero' + tag,
                        'set_entry returns without writing on the path %s: that is right only for a zero value at a position that is not stored yet (an existing entry set to zero must '
                        'become zero)' % {k[:50]: x for k, x in v_.items() if not k.startswith('lt(')}, f.loc())
        R.check(seen == {'insert', 'overwrite'}, 'set|cases' + tag, 'set_entry cases analysed: %s' % sorted(seen), f.loc())
        g = F.one(name='get_entry', adt='CscMatrix')
        rets = set()
        for val, ret, ev, tr in Walker(g, cut_loops=True).leaves():
            if ret[0] == 's':
                rets.add(nz(str(ret[1])))
        GROWS = 'index(self.rowval, Range::Range(index(self.colptr, arg2.1), index(self.colptr, add(arg2.1, 1_usize))))'
        want = {'Option::None', 'Option::Some(index(self.nzval, add(index(self.colptr, arg2.1), binary_search(%s, arg2.0)@Ok.0)))' % GROWS}
        R.check(rets == want, 'get' + tag, 'get_entry returns %s' % sorted(x[:120] for x in rets), g.loc())

    R.guard(body)


# ---------------------------------------------------------------------------
# R15: deduplicate (canonicalize)
# ---------------------------------------------------------------------------

def dedup(rep, F, tag):
    """deduplicate sums runs of equal row indices *within a column*: both scanning loops are bounded by the column's end (ptr < stop, stop =
    colptr[col+1] read before it is overwritten), the run sum starts from nzval[ptr] and adds nzval[ptr] while the row repeats, the result is
    written (row and sum together) at the output cursor nnz, colptr[col+1] = nnz closes the column and both arrays are truncated to nnz."""
    R = rep.rule('C16.R15', 'deduplicate: runs are summed inside one column (every scan bounded by the column end), row and sum written together at the output cursor, pointers and lengths follow the cursor')

    def body():
        f = F.one(name='deduplicate', adt='CscMatrix')
        nz0 = lambda t: t.replace('withoverflow', '').replace(').0', ')')
        J = 'next(into_iter(Range::Range(0_usize, self.n)))@Some.0'
        # the locals are recognised by their role, not by their name: output cursor (stored into colptr[col+1]), column end (read from
        # colptr[col+1]), scanning cursor (initialised with the column end of the previous column), running sum (stored into nzval[cursor])
        role = {}
        A0 = [(bi, si, st, nz0(canon(f.sym_place(st['p']))) if st['p']['p'] else None, nz0(canon(f.sym_rvalue(st['rv'])))) for bi, si, st in f.assignments()]
        for bi, si, st, pl, rv in A0:
            if pl == 'index_mut(self.colptr, add(%s, 1_usize))' % J and rv.startswith('var:'):
                role[rv[4:]] = 'nnz'
            if pl is None and rv == 'index(self.colptr, add(%s, 1_usize))' % J and f.local_name(st['p']['l']):
                role[f.local_name(st['p']['l'])] = 'stop'
        for bi, si, st, pl, rv in A0:
            if pl is None and f.local_name(st['p']['l']) and rv.startswith('var:') and role.get(rv[4:]) == 'stop':
                role[f.local_name(st['p']['l'])] = 'ptr'
            if pl is not None and rv.startswith('var:') and pl.startswith('index_mut(self.nzval, var:') and role.get(pl[len('index_mut(self.nzval, var:'):-1]) == 'nnz':
                role[rv[4:]] = 'accum'
            if pl is not None and rv.startswith('var:') and pl.startswith('index_mut(self.rowval, var:') and role.get(pl[len('index_mut(self.rowval, var:'):-1]) == 'nnz':
                role[rv[4:]] = 'thisrow'
        if sorted(v for v in role.values() if v != 'thisrow') != ['accum', 'nnz', 'ptr', 'stop']:
            raise AnchorError('deduplicate: output cursor / column end / scanning cursor / running sum not recognised (%s)' % role)
        rn = re.compile(r'var:(%s)\b' % '|'.join(re.escape(k) for k in sorted(role, key=len, reverse=True)))
        nz = lambda t: rn.sub(lambda m_: 'var:' + role[m_.group(1)], nz0(t))
        lname = lambda l: role.get(f.local_name(l), f.local_name(l))
        bounds = [nz(canon(f.sym_operand(c.args[1]))) for c in f.calls if c.callee.name == 'lt' and len(c.args) == 2 and nz(canon(f.sym_operand(c.args[0]))) == 'var:ptr']
        if not bounds:
            bounds = [nz(canon(f.sym_rvalue(st['rv']))) for bi, si, st in f.assignments() if st['rv'].get('k') == 'bin' and st['rv'].get('op') in ('Lt', 'Ne') and nz(canon(f.sym_rvalue(st['rv']))).startswith(('lt(var:ptr, ', 'ne(var:ptr, '))]
            bounds = [re.sub(r'^(?:lt|ne)\(var:ptr, (.*)\)$', r'\1', b) for b in bounds]
        R.check(len(bounds) >= 2 and all(b == 'var:stop' for b in bounds), 'scan-bounded-by-column' + tag,
                'the scanning cursor of deduplicate is compared with %s: every scan (outer and run-summing loop) must stop at the end of the current column, otherwise a run spills into '
                'the next column when its first row equals this column\'s last row' % bounds, f.loc())
        asg = {}
        for bi, si, st in f.assignments():
            if not st['p']['p']:
                nm_ = lname(st['p']['l'])
                if nm_ in ('ptr', 'stop', 'accum', 'nnz', 'thisrow'):
                    asg.setdefault(nm_, set()).add(nz(canon(f.sym_rvalue(st['rv']))))
        want = {'stop': {'0_usize', 'index(self.colptr, add(%s, 1_usize))' % J}, 'ptr': {'var:stop', 'add(var:ptr, 1_usize)'},
                'accum': {'index(self.nzval, var:ptr)', 'add(var:accum, index(self.nzval, var:ptr))'}, 'nnz': {'0_usize', 'add(var:nnz, 1_usize)'}}
        for k, w in want.items():
            got = asg.get(k, set())
            R.check(got == w or (k == 'accum' and got == {'index(self.nzval, var:ptr)', 'add(index(self.nzval, var:ptr), var:accum)'}), 'update|%s%s' % (k, tag), 'deduplicate updates %s by %s, expected %s' % (k, sorted(got), sorted(w)), f.loc())
        stores = sorted((nz(canon(f.sym_place(st['p']))), nz(canon(f.sym_rvalue(st['rv'])))) for bi, si, st in f.assignments() if st['p']['p'] and st['p']['l'] != 0)
        wstores = sorted([('index_mut(self.rowval, var:nnz)', 'var:thisrow'), ('index_mut(self.nzval, var:nnz)', 'var:accum'), ('index_mut(self.colptr, add(%s, 1_usize))' % J, 'var:nnz')])
        # (thisrow is a single-assignment local: the static expansion shows its defining read)
        stores = sorted((t_, 'var:thisrow' if v_ == 'index(self.rowval, var:ptr)' else v_) for t_, v_ in stores)
        R.check(stores == wstores, 'stores' + tag, 'deduplicate stores %s, expected %s' % (stores, wstores), f.loc())
        trd = [c for c in f.calls if c.callee.name in ('index',) and False]
        tr = sorted(nz(canon(('call', c.callee.name, tuple(f.sym_operand(a) for a in c.args), c.bb))) for c in f.calls if c.callee.name == 'truncate')
        R.check(tr == ['truncate(self.nzval, var:nnz)', 'truncate(self.rowval, var:nnz)'], 'truncate' + tag, 'deduplicate ends with %s' % tr, f.loc())
        # ptr = stop is taken before stop is advanced; the column end is read before colptr[col+1] is overwritten
        blk = {}
        for bi, si, st in f.assignments():
            v = nz(canon(f.sym_rvalue(st['rv'])))
            if not st['p']['p'] and lname(st['p']['l']) == 'ptr' and v == 'var:stop':
                blk['ptr'] = (bi, si)
            if not st['p']['p'] and lname(st['p']['l']) == 'stop' and v.startswith('index(self.colptr'):
                blk['stop'] = (bi, si)
            if st['p']['p'] and nz(canon(f.sym_place(st['p']))).startswith('index_mut(self.colptr'):
                blk['close'] = (bi, si)
        ok = all(k in blk for k in ('ptr', 'stop', 'close'))
        if ok:
            before = lambda a, b: (a[0] == b[0] and a[1] < b[1]) or (a[0] != b[0] and f.dominates(a[0], b[0]))
            ok = before(blk['ptr'], blk['stop']) and before(blk['stop'], blk['close'])
        R.check(ok, 'order' + tag, 'deduplicate must take ptr = stop, then read the new column end, then (after the scan) overwrite colptr[col+1]', f.loc())

    R.guard(body)


def canonicalize_complete(rep, F, tag):
    """canonicalize = check dimensions, sort every column, consolidate duplicates.  Every path that reports success has done all three: a fast path for input
    that is `already ordered' must not skip the consolidation (nondecreasing rows can still repeat)."""
    R = rep.rule('C16.R16', 'canonicalize: every successful path runs check_dimensions, sort_indices and deduplicate')

    def body():
        f = F.one(name='canonicalize', adt='CscMatrix')
        n = 0
        for val, ret, ev, tr in Walker(f, cut_loops=True).leaves():
            if ret[0] not in ('s', 'c'):
                continue
            r_ = str(ret[1])
            if r_.startswith('from_residual(') or 'Result::Err' in r_:
                continue
            n += 1
            names = [e[1] for e in ev if e[0] == 'call']
            miss = [x for x in ('check_dimensions', 'sort_indices', 'deduplicate') if x not in names]
            R.check(not miss, 'complete' + tag, 'canonicalize reports success on the path %s without %s: sorted input can still hold repeated row indices' % ({k[:50]: v for k, v in val.items()}, miss), f.loc())
        R.check(n >= 1, 'paths' + tag, 'no successful path of canonicalize analysed', f.loc())

    R.guard(body)


def run(ctx, rep, tier):
    for cfg in CONFIGS:
        F = ctx.facts(cfg)
        tag = '' if cfg == 'default' else '[%s]' % cfg
        matvec(rep, F, tag)
        quadform(rep, F, tag)
        sums_norms(rep, F, tag)
        scalings(rep, F, tag)
        routing(rep, F, tag)
        triangle(rep, F, tag)
        format_check(rep, F, tag)
        concatenation(rep, F, tag)
        block_placement(rep, F, tag)
        drop_zeros(rep, F, tag)
        triplet_consolidation(rep, F, tag)
        entry_access(rep, F, tag)
        dedup(rep, F, tag)
        canonicalize_complete(rep, F, tag)
    # row selection (presolve): per-column bookkeeping, renumbered rows, rebuilt matrix (C09.R7 re-run)
    from . import c09, c04
    c09.row_selection(c04._Ren(rep, 'C09.R7', 'C16.R12'), ctx.facts('default'), '')
    from . import primitives
    primitives.vector_primitives(rep, ctx.facts('default'), ctx.eff('default'), '', 'C16.R6')
