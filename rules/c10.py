"""C10 -- equilibration is an exact, bounded, cone-preserving change of variables (structural clauses)"""
import re
from engine.mir import last_seg, show, AnchorError, strip_generics
from engine.preds import canon, Walker
from engine.effects import IDX
from .common import *

CONFIGS = ['default', 'full']
TECHNIQUE = 'units abstract interpretation with opaque scaling symbols (relational invariant P~d^2c, A~ed, q~dc, b~e), acyclic-path event rules (clip-before-apply, zero guard), sibling classification of rectify_equilibration'
EXPLANATION = (
    "That the numeric factors lie in the interval under rounding is NOT decided. Decided on the MIR of the current "
    "tree: (R1, units engine) every factor applied to P,q,A,b is applied to the same power to the recorded d,e,c "
    "and dinv/einv are the inverses - checked inductively over one Ruiz iteration with opaque symbols, the cost "
    "scaling and the rectification pass; (R2) each work scaling is clipped with bounds (min/cum, max/cum) between its "
    "computation and its application, the bounds being recomputed from the cumulative scaling inside the loop; (R3) zero rows/columns map to 1 before rsqrt for both work vectors; (R4) "
    "rectify_equilibration: Zero/Nonnegative cones return identity+false, every other cone type returns "
    "e^-1*mean(e) + true (exhaustive over impl Cone), the composite applies each cone to its own slice of both "
    "arguments and ORs the results, and equilibrate re-applies the rectification to A, b and e before forming the "
    "inverses; (R5) disabled => no write at all; (R6) column/row norms feed the right work vector."
    " R4 also: no pass of the composite cone loop skips the per-cone rectification for a cone type whose own rectification is not the no-op (skip condition evaluated per cone type from constant layout predicates)."
    " R4 also: for the scalar cones (zero, nonnegative) the own rectification is the no-op, so their all-zero rows stay unscaled."
    " (R9) the sparse scaling primitives the invariant relies on multiply every stored entry by l[row] r[col] (C16.R4 re-run)."
    ' R4 also: the composite rectification has no return that bypasses its cone loop (no shortcut on cone counts or layout flags).'
    ' R4 also: the correction vector returned by the cones is applied unmodified (no clip between rectification and application).')
ASSUMPTIONS = ['rustc MIR construction and trait resolution are correct',
               'algebra primitives (lrscale, hadamard, col_norms, clip, mean ...) have their documented meaning',
               'the mean of values inside [lo,hi] lies inside [lo,hi]']

SCALAR_CONES = {'ZeroCone', 'NonnegativeCone'}


def eq_fn(F):
    return F.one(name='equilibrate', adt='DefaultProblemData')


def structure(rep, F, tag):
    R = rep.rule('C10.R2', 'Ruiz iteration: zero guard, rsqrt, clip with cumulative bounds, then apply; cost scaling clipped before use')

    def body():
        f = eq_fn(F)
        leaves = [l for l in Walker(f, cut_loops=True).leaves() if l[1][0] != 'diverge']
        # R5: disabled => nothing happens
        dis = [l for l in leaves if l[0].get('arg3.equilibrate_enable') == 0]
        R5 = rep.rule('C10.R5', 'equilibration disabled => data untouched')
        R5.check(len(dis) == 1 and not [e for e in dis[0][2] if e[0] in ('store', 'call')], 'disabled-untouched' + tag,
                 'with equilibrate_enable=false equilibrate still performs %s' % ([e[1] for l in dis for e in l[2]][:5]), f.loc())
        R5.check(all('arg3.equilibrate_enable' in l[0] for l in leaves), 'enable-tested' + tag, 'a path does not test equilibrate_enable', f.loc())
        # the Ruiz path (the one that reaches scale_data(..Some..))
        ruiz = [l for l in leaves if any(e[0] == 'call' and e[1] == 'scale_data' and 'Option::Some' in e[2] for e in l[2])]
        R.check(len(ruiz) >= 1, 'ruiz-path' + tag, 'no Ruiz iteration path found', f.loc())
        R3 = rep.rule('C10.R3', 'zero rows / columns are left unscaled: both work vectors pass the x==0 -> 1 map before rsqrt')
        for val, ret, ev, tr in ruiz[:1]:
            names = [(e[1], e[2]) for e in ev if e[0] == 'call']
            seq = [n for n, k in names]

            def idx(pred):
                for i, (n, k) in enumerate(names):
                    if pred(n, k):
                        return i
                return None
            i_norm = idx(lambda n, k: n == 'kkt_col_norms')
            i_sd = idx(lambda n, k: n == 'scale_data')
            for w in ('dinv', 'einv'):
                i_g = idx(lambda n, k: n == 'scalarop' and k.startswith('scalarop(self.equilibration.%s,' % w))
                i_r = idx(lambda n, k: n == 'rsqrt' and k == 'rsqrt(self.equilibration.%s)' % w)
                R3.check(i_norm is not None and i_g is not None and i_r is not None and i_norm < i_g < i_r < (i_sd or 1e9), 'zero-guard|%s%s' % (w, tag),
                         'work vector %s does not pass the zero guard between the norm computation and rsqrt (sequence %s)' % (
                             w, [n for n in seq if n in ('kkt_col_norms', 'scalarop', 'rsqrt', 'scale_data')]), f.loc())
            a = [k for n, k in names if n == 'kkt_col_norms']
            R6 = rep.rule('C10.R6', 'column norms of [P;A] feed the column work vector, row norms of A the row work vector')
            R6.check(a == ['kkt_col_norms(self.P, self.A, self.equilibration.dinv, self.equilibration.einv)'], 'kkt_col_norms-args' + tag, 'kkt_col_norms%s' % a, f.loc())
        # guard closures really are x==0 -> 1
        for g in F.closures_of.get(f.key, []):
            for c in g.calls:
                pass
        gcl = [g for g in F.closures_of.get(f.key, []) if any(st['rv']['k'] == 'bin' or True for bi, si, st in g.assignments())]
        zg = 0
        for g in F.closures_of.get(f.key, []):
            ks = set()
            for val, ret, ev, tr in Walker(g).leaves():
                ks |= set(val)
            if any(k.startswith('eq(') and 'zero()' in k and 'arg2' in k for k in ks):
                zg += 1
        R3.check(zg >= 2, 'zero-guard-closures' + tag, 'only %d closures of equilibrate test x == 0' % zg, f.loc())
        # clip leaves
        clips = {}
        for val, ret, ev, tr in leaves:
            for e in ev:
                if e[0] == 'store' and str(e[2]).startswith('clip('):
                    tgt = e[1]
                    w = 'dinv' if 'dinv' in tgt else ('einv' if 'einv' in tgt else '?')
                    clips[w] = e[2]
        for w, cum in (('dinv', 'd'), ('einv', 'e')):
            v = clips.get(w)
            if not R.check(v is not None, 'clip|%s%s' % (w, tag), 'work vector %s is not clipped elementwise' % w, f.loc()):
                continue
            m = re.fullmatch(r'clip\((.*)@Some\.0\.0, div\(arg3\.equilibrate_min_scaling, (.*)@Some\.0\.1\), div\(arg3\.equilibrate_max_scaling, (.*)@Some\.0\.1\)\)', v)
            R.check(m is not None, 'clip-bounds|%s%s' % (w, tag),
                    'the clip of %s is %s: expected clip(w_i, min_scaling/cum_i, max_scaling/cum_i) with the cumulative factor of the same index' % (w, v[:160]), f.loc())
        # ordering rsqrt -> clip loop -> scale_data on every path
        rs = {w: [c for c in f.calls if c.callee.name == 'rsqrt' and canon(f.sym_operand(c.args[0])).endswith(w)] for w in ('dinv', 'einv')}
        sdc = [c for c in f.calls if c.callee.name == 'scale_data' and 'Some' in canon(f.sym_operand(c.args[4]))]
        loops = f.loops()
        for w in ('dinv', 'einv'):
            cb = None
            for bi, si, st in f.assignments():
                if st['p']['p'] and canon(f.sym_rvalue(st['rv'])).startswith('clip(') and w in canon(f.sym_place(st['p'])):
                    cb = bi
            if cb is None or not rs[w] or not sdc:
                R.bad('clip-order|%s%s' % (w, tag), 'cannot locate rsqrt / clip / scale_data for %s' % w, f.loc())
                continue
            inner = [h for h, body in loops.items() if cb in body]
            h = min(inner, key=lambda x: len(loops[x]))
            R.check(f.dominates(rs[w][0].bb, h) and f.dominates(h, sdc[0].bb), 'clip-order|%s%s' % (w, tag),
                    'the bound on %s is not applied between its computation (rsqrt) and its application (scale_data)' % w, f.loc())
        # the bound of a work vector is taken from the cumulative vector it is accumulated into (work *= into cum later):
        # clipping the row increments against the column scalings bounds nothing
        acc = {}
        for c in f.calls:
            if c.callee.name == 'hadamard' and len(c.args) == 2:
                acc.setdefault(canon(f.sym_operand(c.args[1])), set()).add(canon(f.sym_operand(c.args[0])))
        npair = 0
        for bi, si, st in f.assignments():
            if st['p']['p'] and canon(f.sym_rvalue(st['rv'])).startswith('clip('):
                tgt = canon(f.sym_place(st['p']))
                m = re.match(r'next\(into_iter\(zip\(into_iter\(iter_mut\((.*?)\)\), iter\((.*?)\)\)\)\)@Some\.0\.0$', tgt)
                if not m:
                    continue
                npair += 1
                work, cum = m.group(1), m.group(2)
                R.check(cum in acc.get(work, set()), 'clip-pairing|%s%s' % (work.rsplit('.', 1)[-1], tag),
                        'the increments in %s are clipped with bounds min/max divided by %s, but they are accumulated into %s: the bound must come '
                        'from the cumulative scaling the increment multiplies' % (work, cum, sorted(acc.get(work, []))), f.loc(st['sp']))
        R.check(npair == 2, 'clip-pairing-sites' + tag, '%d element-wise clip loops found, expected the column and the row one' % npair, f.loc())
        # cost scaling
        # the bounds (min/cum, max/cum) must be recomputed in every iteration: the divisions by the cumulative factor
        # have to sit inside the Ruiz loop (a hoisted bound is symbolically identical but stale)
        ruiz_headers = [h for h, body in loops.items() if sdc and sdc[0].bb in body]
        if ruiz_headers:
            rh = max(ruiz_headers, key=lambda x: len(loops[x]))
            for c in f.calls:
                if c.callee.name == 'div':
                    a = [canon(f.sym_operand(x)) for x in c.args]
                    if a[0] in ('arg3.equilibrate_min_scaling', 'arg3.equilibrate_max_scaling'):
                        # the division and the read of the cumulative factor it divides by both sit inside the loop
                        # (a by-value copy taken before the loop is symbolically identical but stale)
                        stale = False
                        pl = c.args[1].get('c') or c.args[1].get('m')
                        seen_l = set()
                        while pl is not None and not pl['p'] and pl['l'] not in seen_l:
                            seen_l.add(pl['l'])
                            ds = f.defs.get(pl['l'], [])
                            if any(d[1] not in loops[rh] for d in ds):
                                stale = True
                                break
                            nxt = None
                            if len(ds) == 1 and ds[0][0] == 's':
                                rv = f.blocks[ds[0][1]]['s'][ds[0][2]]['rv']
                                if rv['k'] == 'use':
                                    nxt = rv['a'].get('c') or rv['a'].get('m')
                            pl = nxt
                        R.check(c.bb in loops[rh] and not stale, 'bound-recomputed|%s|%s%s' % (a[0].split('_')[1], a[1][-20:], tag),
                                'the bound %s/%s is computed outside the Ruiz loop or from a copy of the cumulative factor taken outside it: it uses the '
                                'cumulative factor of the first iteration, so the cumulative scaling is bounded per iteration only' % (a[0].split('.')[1], a[1]), f.loc(c.sp))
        # cost scaling: the factor that multiplies P and q is bounded by (min/c, max/c) with the current cumulative c
        # (that P, q and c receive the same factor is the units invariant C10.R1)
        cost = [l for l in leaves if any(e[0] == 'call' and e[1] == 'scale' and e[2].startswith('scale(self.P,') for e in l[2])]
        R.check(len(cost) >= 1, 'cost-path' + tag, 'no path scales P by a cost factor', f.loc())
        for val, ret, ev, tr in cost[:1]:
            calls = [e[2] for e in ev if e[0] == 'call']
            fac = [k[len('scale(self.P, '):-1] for k in calls if k.startswith('scale(self.P, ')]
            ok = bool(fac) and fac[0].startswith('clip(') and fac[0].endswith(
                'div(arg3.equilibrate_min_scaling, self.equilibration.c), div(arg3.equilibrate_max_scaling, self.equilibration.c))')
            R.check(ok, 'cost-clip' + tag,
                    'the cost factor applied to P is %s: it must be clipped with (min_scaling/c, max_scaling/c) before it is applied, '
                    'otherwise the cumulative objective scaling leaves its bounds' % ([x[:100] for x in fac]), f.loc())

    R.guard(body)


def identity_init(rep, F, tag):
    R = rep.rule('C10.R5', 'equilibration disabled => data untouched')

    def body():
        f = F.one(name='new', adt='DefaultEquilibrationData')
        r = canon(f.sym_local(0))
        m = re.fullmatch(r'DefaultEquilibrationData::DefaultEquilibrationData\((.*)\)', r)
        args = split_args('x(' + m.group(1) + ')') if m else []
        ok = len(args) == 5 and all(re.fullmatch(r'from_elem\(one\(\), arg\d\)', a) for a in args[:4]) and args[4] == 'one()'
        R.check(ok, 'identity-init' + tag,
                'DefaultEquilibrationData::new builds %s: with equilibration disabled d, dinv, e, einv, c keep their initial values, which must be the '
                'identity scaling (ones) - a zero dinv / einv makes every reported residual vanish and unscale return s = 0' % r[:200], f.loc())

    R.guard(body)


def _delta_elementwise(F, f):
    """what rectify_equilibration leaves in delta[i], as a rational function of e[i] and of M = mean(e): the in-place vector calls on delta (arg2) are
    applied in program order (copy_from(e), recip, scale(x), scalarop / scalarop_from with a closure, set / fill); None if a call on delta is not understood"""
    from engine.linform import RatF, P_atom, P_const
    from .c14 import _txt_eval, _NoDerivative
    E, Mn = RatF(P_atom('e')), RatF(P_atom('M'))
    leaves = [l for l in Walker(f, cut_loops=True, local_stores=True).leaves() if l[1][0] != 'diverge']
    if len(leaves) != 1:
        return None
    val, ret, ev, tr = leaves[0]
    scal_defs = {}
    for e in ev:
        if e[0] == 'assign' and e[1] and e[2] is not None:
            scal_defs['var:' + e[1]] = str(e[2])

    def scal(t, depth=0):
        t = t.strip()
        if t == 'mean(arg3)':
            return Mn
        if t in scal_defs and depth < 4:
            return scal(scal_defs[t], depth + 1)
        return _txt_eval(t, {'mean(arg3)': Mn}, {})

    def vec(t, cur):
        t = t.strip()
        if t == 'arg2':
            return cur
        if t == 'arg3':
            return E
        if '(' not in t:
            raise _NoDerivative(t)
        nm = t[:t.index('(')]
        a = split_args(t)
        if nm in ('copy_from', 'clone_from_slice', 'copy_from_slice') and len(a) == 2:
            vec(a[0], cur)
            return vec(a[1], cur)
        if nm == 'recip' and len(a) == 1:
            return vec(a[0], cur).pow(-1)
        if nm == 'scale' and len(a) == 2:
            return vec(a[0], cur) * scal(a[1])
        if nm in ('set', 'fill') and len(a) == 2:
            vec(a[0], cur)
            return scal(a[1])
        if nm == 'hadamard' and len(a) == 2:
            return vec(a[0], cur) * vec(a[1], cur)
        if nm in ('scalarop', 'scalarop_from') and len(a) >= 2:
            src = vec(a[2], cur) if nm == 'scalarop_from' else vec(a[0], cur)
            cl = F.closures_of.get(f.key, [])
            if len(cl) != 1:
                raise _NoDerivative('closure')
            body = canon(cl[0].sym_local(0))
            env = {'arg2': src}
            # captured scalars: resolved through their definition in the parent
            import re as _re
            for cap in set(_re.findall(r'arg1\._ref__(\w+)', body)) | set(_re.findall(r'arg1\.(\w+)', body)):
                for key in ('arg1._ref__%s' % cap, 'arg1.%s' % cap):
                    if ('var:' + cap) in scal_defs:
                        env[key] = scal('var:' + cap)
            return _txt_eval(body, env, {})
        raise _NoDerivative(t)
    cur = None
    try:
        for e in ev:
            if e[0] != 'call':
                continue
            t = str(e[2])
            # outermost calls on delta only: a nested chain is evaluated when its outermost call is seen
            inner = t
            while '(' in inner and split_args(inner):
                inner = split_args(inner)[0]
            if inner.strip() != 'arg2' or e[1] in ('deref', 'deref_mut', 'index', 'index_mut', 'len'):
                continue
            # skip calls that are arguments of a later, enclosing call on delta
            if any(o[0] == 'call' and o is not e and str(o[2]) != t and ('(%s,' % t in str(o[2]) or '(%s)' % t in str(o[2])) for o in ev):
                continue
            cur = vec(t, cur)
    except (_NoDerivative, ValueError, KeyError, AttributeError):
        return None
    return cur


def rectification(rep, F, tag):
    R = rep.rule('C10.R4', 'rectify_equilibration: uniform scaling inside every non-separable cone (exhaustive over impl Cone), composite wiring, re-application before the inverses')

    def body():
        impls = [f for f in F.find(name='rectify_equilibration', trait='Cone') if f.impl_adt]
        seen = set()
        noop = set()
        for f in impls:
            K = last_seg(strip_generics(f.impl_adt))
            if K in ('CompositeCone', 'SupportedCone'):
                continue
            seen.add(K)
            leaves = [l for l in Walker(f, cut_loops=True).leaves() if l[1][0] != 'diverge']
            calls = [e[2] for l in leaves for e in l[2] if e[0] == 'call']
            rets = set(str(l[1]) for l in leaves)
            uniform = any(k.startswith('scale(recip(copy_from(arg2, arg3)), mean(arg3))') for k in calls)
            if not uniform:
                # any other arrangement of the same element-wise function: delta[i] = mean(e) / e[i]
                from engine.linform import RatF, P_atom, P_const
                dv = _delta_elementwise(F, f)
                if dv is not None:
                    uniform = (dv + (RatF(P_atom('M')) * RatF(P_atom('e')).pow(-1)) * RatF(P_const(-1))).is_zero()
            r0 = canon(f.sym_local(0))
            if K in SCALAR_CONES:
                ident = any(k in ('set(arg2, one())', 'fill(arg2, one())') for k in calls)
                if ident and r0 == 'false' and not uniform:
                    noop.add(K)
                R.check(ident and r0 == 'false' and not uniform, 'class|%s%s' % (K, tag),
                        '%s::rectify_equilibration must leave the rows of a scalar cone alone (delta := 1, return false): rows and columns that are all zero keep the scaling 1 '
                        'only then; found calls %s returning %s' % (K, [k[:60] for k in calls], r0), f.loc())
            else:
                R.check(uniform and r0 == 'true', 'class|%s%s' % (K, tag),
                        '%s is not a product of scalar cones: its rows must be scaled uniformly, i.e. '
                        'delta := mean(e)/e and return true; found calls %s returning %s' % (K, [k[:60] for k in calls], r0), f.loc())
        want = {'ZeroCone', 'NonnegativeCone', 'SecondOrderCone', 'ExponentialCone', 'PowerCone', 'GenPowerCone'}
        R.check(want <= seen, 'cone-types' + tag, 'rectify_equilibration analysed for %s only' % sorted(seen))
        # every Cone impl has one (trait method is required, so the compiler guarantees presence); dispatch covers all variants
        cc = F.one(name='rectify_equilibration', adt='CompositeCone', trait='Cone')
        leaves = [l for l in Walker(cc, cut_loops=True).leaves() if l[1][0] != 'diverge']
        calls = [e[2] for l in leaves for e in l[2] if e[0] == 'call']
        R.check(any(k == 'fill(arg2, one())' for k in calls), 'composite-default' + tag, 'composite does not default delta to 1', cc.loc())
        inner = [k for k in calls if k.startswith('rectify_equilibration(')]
        ok = False
        for k in inner:
            m = re.fullmatch(r'rectify_equilibration\((.*)@Some\.0\.0, index_mut\(arg2, (.*)\), index\(arg3, (.*)\)\)', k)
            if m and m.group(2) == m.group(3) and '@Some.0.1' in m.group(2):
                ok = True
        R.check(ok, 'composite-slices' + tag, 'composite does not hand each cone the same range of delta and e: %s' % [k[:140] for k in inner], cc.loc())
        # ... for every cone: no iteration of the cone loop may skip the per-cone call (which cones are scaled uniformly is each cone's
        # own decision - a composite-side filter by layout flags also skips sparse-expanded second-order cones)
        n_it = 0
        for val, ret, ev, tr in leaves:
            it = [k for k in val if k.startswith('discr(next(') and '@Some' not in k and val[k] == 1]
            if not it:
                continue
            n_it += 1
            called = any(e[0] == 'call' and str(e[2]).startswith('rectify_equilibration(') for e in ev)
            if called:
                continue
            # a skipped pass is harmless only for cone types whose own rectification is the no-op (delta := 1, false); decide, per cone
            # type, whether the skip condition can hold for it (layout predicates that are constants of the type are evaluated)
            conds = {k: v for k, v in val.items() if not (k.startswith('discr(next(') and '@Some' not in k)}
            hit = []
            for K in sorted(seen | ({'PSDTriangleCone'} if F.find(name='rectify_equilibration', adt='PSDTriangleCone', trait='Cone') else set())):
                possible = True
                for k, v in conds.items():
                    m = re.fullmatch(r'(\w+)\((.*)@Some\.0\.0\)', k)
                    if not m:
                        continue    # not a statement about the cone: cannot exclude the type
                    if m.group(1) == 'discr':
                        vn = [x['n'] for x in F.adt('SupportedCone')['variants']]
                        if isinstance(v, int) and 0 <= v < len(vn) and vn[v] != K:
                            possible = False
                        continue
                    g = F.find(name=m.group(1), adt=K, trait='Cone')
                    if len(g) == 1:
                        c0 = canon(g[0].sym_local(0))
                        if c0 in ('true', 'false') and (c0 == 'true') != bool(v):
                            possible = False
                if possible and K not in noop:
                    hit.append(K)
            R.check(not hit, 'composite-every-cone' + tag, 'a pass of the composite cone loop skips rectify_equilibration under %s, which can hold for %s: those cones keep '
                    'non-uniform row scalings (their own rectification is not the no-op)' % ({k[:60]: v for k, v in conds.items()}, hit), cc.loc())
        for val, ret, ev, tr in leaves:
            if ret[0] not in ('cut', 'diverge'):
                R.check(any(k.startswith('discr(next(') and '@Some' not in k for k in val), 'composite-no-shortcut' + tag,
                        'CompositeCone::rectify_equilibration returns on the path %s without visiting its cones: whether rectification is needed is each cone\'s own answer' % {k[:50]: v for k, v in val.items()}, cc.loc())
        R.check(n_it >= 1, 'composite-loop' + tag, 'no cone loop iteration found in CompositeCone::rectify_equilibration', cc.loc())
        # OR of the results
        ors = [canon(cc.sym_rvalue(st['rv'])) for bi, si, st in cc.assignments() if st['rv']['k'] == 'bin' and st['rv']['op'] in ('BitOr',)]
        orc = [c for c in cc.calls if c.callee.name in ('bitor_assign', 'bitor')]
        R.check(bool(ors) or bool(orc), 'composite-or' + tag, 'composite does not OR the per-cone results', cc.loc())
        # equilibrate: rectification applied to A, b, e before the inverses, after the Ruiz loop
        f = eq_fn(F)
        rc = one_call(f, 'rectify_equilibration')
        a = [canon(f.sym_operand(x)) for x in rc.args]
        # the correction vector may live in any work vector W (the code uses einv as scratch); what matters is that the same W is then
        # applied to the data and to e, and that the inverses are formed afterwards
        R.check(len(a) == 3 and a[0] == 'arg2' and a[2] == 'self.equilibration.e' and a[1] != a[2], 'rectify-args' + tag, 'rectify_equilibration(%s): expected (cones, <work vector>, e)' % a, f.loc(rc.sp))
        Wv = a[1] if len(a) == 3 else 'self.equilibration.einv'
        for val, ret, ev, tr in Walker(f, cut_loops=True).leaves():
            k = [x for x in val if x.startswith('rectify_equilibration(')]
            if not k:
                continue
            calls = [e[2] for e in ev if e[0] == 'call']
            app = ('scale_data(self.P, self.A, self.q, self.b, Option::None, %s)' % Wv) in calls and ('hadamard(self.equilibration.e, %s)' % Wv) in calls
            if app:
                # the correction is applied as the cones returned it: a clip (or any other in-place change) between the rectification and its application
                # breaks the uniformity the cones have just established (mean(e)/e_i legitimately lies in [min/max, max/min])
                i0 = max(i for i, c_ in enumerate(calls) if c_.startswith('rectify_equilibration('))
                i1 = calls.index('hadamard(self.equilibration.e, %s)' % Wv)
                i2 = calls.index('scale_data(self.P, self.A, self.q, self.b, Option::None, %s)' % Wv)
                between = [c_ for c_ in calls[i0 + 1:max(i1, i2)] if '(' in c_ and c_.endswith(')') and split_args(c_) and split_args(c_)[0] == Wv and c_.split('(')[0] not in ('deref', 'deref_mut', 'hadamard', 'scale_data', 'as_ref', 'as_mut')]
                R.check(not between, 'correction-unmodified' + tag, 'the correction vector returned by the cones is modified before it is applied: %s' % [c_[:60] for c_ in between], f.loc())
            R.check(app == bool(val[k[0]]), 'reapply-iff-changed|%d%s' % (val[k[0]], tag), 'rectification %s with changed=%d' % ('applied' if app else 'not applied', val[k[0]]), f.loc())
            inv = [c for c in calls if c.startswith('scalarop_from(')]
            R.check(inv == ['scalarop_from(self.equilibration.dinv, <T as num_traits::Float>::recip, self.equilibration.d)',
                            'scalarop_from(self.equilibration.einv, <T as num_traits::Float>::recip, self.equilibration.e)'], 'inverses-last|%d%s' % (val[k[0]], tag),
                    'inverse scalings: %s' % inv, f.loc())
            if app:
                R.check(calls.index('hadamard(self.equilibration.e, %s)' % Wv) < calls.index(inv[1]) if len(inv) == 2 else False,
                        'inverse-after-rectify' + tag, 'einv is formed before the rectified e', f.loc())
        h = [hh for hh in f.loops() if True]
        R.check(all(not (rc.bb in body) for body in f.loops().values()), 'rectify-after-loop' + tag, 'rectification happens inside the Ruiz loop', f.loc(rc.sp))
        sd = F.one(name='scale_data')
        for val, ret, ev, tr in Walker(sd).leaves():
            if ret[0] == 'diverge':
                continue
            calls = [e[2] for e in ev if e[0] == 'call']
            k = [x for x in val if x.startswith('discr(arg5)')]
            if k and val[k[0]] == 1:
                R.check(calls[:4] == ['lrscale(arg1, arg5@Some.0, arg5@Some.0)', 'lrscale(arg2, arg6, arg5@Some.0)', 'hadamard(arg3, arg5@Some.0)', 'hadamard(arg4, arg6)'][:len(calls[:4])]
                        and len(calls) >= 4, 'scale_data|Some' + tag, 'scale_data(Some d): %s' % calls, sd.loc())
            elif k:
                R.check(calls == ['lscale(arg2, arg6)', 'hadamard(arg4, arg6)'], 'scale_data|None' + tag, 'scale_data(None): %s' % calls, sd.loc())
        kc = F.one(name='kkt_col_norms')
        calls = [canon(('call', c.callee.target_key, tuple(kc.sym_operand(a) for a in c.args), c.bb)) for c in kc.calls]
        R6 = rep.rule('C10.R6', 'column norms of [P;A] feed the column work vector, row norms of A the row work vector')
        R6.check(calls == ['col_norms_sym(arg1, arg3)', 'col_norms_no_reset(arg2, arg3)', 'row_norms(arg2, arg4)'], 'kkt_col_norms-body' + tag, 'kkt_col_norms performs %s' % calls, kc.loc())

    R.guard(body)


def run(ctx, rep, tier):
    for cfg in CONFIGS:
        F = ctx.facts(cfg)
        tag = '' if cfg == 'default' else '[%s]' % cfg
        structure(rep, F, tag)
        rectification(rep, F, tag)
        identity_init(rep, F, tag)
    from . import units_rules
    units_rules.c10(ctx, rep)
    from . import primitives
    primitives.vector_primitives(rep, ctx.facts('default'), ctx.eff('default'), '', 'C10.R7')
    # "the internal data equal c*D*P*D, E*A*D entry for entry": the units invariant treats lrscale / lscale / rscale / scale as primitives;
    # their entry-wise meaning (v *= l[row] r[col] for every stored entry) is C16.R4, re-run here
    from . import c16, c04
    c16.scalings(c04._Ren(rep, 'C16.R4', 'C10.R9'), ctx.facts('default'), '')


