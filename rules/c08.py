"""C08 -- in-place data updates are equivalent to rebuilding the solver (structural clauses)"""
import re
from engine.mir import last_seg, show, AnchorError, strip_generics
from engine.preds import canon, Walker
from engine.effects import IDX, fmt_path
from .common import *

CONFIGS = ['default', 'full']
TECHNIQUE = 'dominance/decision tables (gate, no write before rejection), units abstract interpretation of every update form, who-may-write effects (KKT mirror discipline), sibling agreement, index-agreement rule on element stores (bound test, target and scaling entries share one index)'
EXPLANATION = (
    "Equality of the subsequent solves is numerical and NOT decided. Decided on the MIR of the current tree: (R1) "
    "check_data_update_allowed dominates every write in update_P/q/A/b and errs exactly when presolve / chordal "
    "decomposition is active; update_data is P,q,A,b with `?`; (R2) whole-vector and matrix forms write nothing on "
    "any path that returns an error or hits the empty no-op; index forms test the bound before each store; the "
    "sparsity check really compares both patterns; (R3, units engine) every form x target re-applies the stored "
    "equilibration; (R4) caches and mirrors follow the data: clear_normq/clear_normb (each clearing its own cache), "
    "kktsystem.update_P/A after the data write with the solver's own matrices; (R5) KKT mirror discipline: the KKT "
    "value array is written only through the paired update/scale helpers that also forward to the LDL engine, except "
    "the reviewed regularisation restore; P->map.P, A->map.A; QDLDL indexes through AtoPAPt; the LDL back ends (QDLDL, faer) agree on what update_values / scale_values / offset_values do to their own copy; (R6) equilibration "
    "happens once, at construction."
    " (R10) in every update form the bound test, the stored element and the equilibration entries use the same index (row/column of that entry for matrices); tuple forms without stores delegate unchanged; (R1, sdp) is_chordal_decomposed is true exactly when decomposition data exists."
    " R2 also: every returning path of the matrix form passes through the sparsity comparison; R4 also: the cached norms are initialised and recomputed with the same (infinity) norm."
    " (R11) index_to_coord, which gives the index forms the row and column of a stored entry, inverts colptr (C16.R7 re-run)."
    ' R1 also: the gate answers Ok only on a path that found is_presolved() (and, in sdp builds, is_chordal_decomposed()) false - it does not consult the mutable settings.'
    ' R10 also: every (index, value) pair of an index form is written (no pass of the loop moves on without a store).')
ASSUMPTIONS = ['rustc MIR construction and trait resolution are correct', 'algebra primitives have their documented meaning']

MUTATORS = {'copy_from_slice', 'lrscale', 'lscale', 'rscale', 'scale', 'hadamard', 'copy_from', 'fill', 'set', 'index_mut'}


def gate(rep, F, tag):
    R = rep.rule('C08.R1', 'update gate: allowed-check dominates every effect; errors exactly when presolved / decomposed')

    def body():
        chk = F.one(name='check_data_update_allowed')
        rows = []
        for val, ret, ev, tr in Walker(chk).leaves():
            out = None
            for b in tr:
                for st in chk.blocks[b]['s']:
                    if 'p' in st and 'rv' in st and st['p']['l'] == 0 and not st['p']['p']:
                        out = canon(chk.sym_rvalue(st['rv']))
            rows.append((val, out))
            pres = [k for k in val if k.startswith('is_presolved(')]
            ch = [k for k in val if k.startswith('is_chordal_decomposed(')]
            if pres and val[pres[0]] == 1:
                R.check(out is not None and 'PresolveIsActive' in out, 'err|presolved' + tag, 'presolved solver: check returns %s' % out, chk.loc())
            elif ch and val[ch[0]] == 1:
                R.check(out is not None and 'ChordalDecompositionIsActive' in out, 'err|decomposed' + tag, 'decomposed solver: check returns %s' % out, chk.loc())
            else:
                R.check(out is not None and 'Result::Ok' in out, 'ok' + tag, 'unreduced solver: check returns %s' % out, chk.loc())
                # Ok only on a path that has *seen* that the data is neither presolved nor decomposed: whether a reduction happened is a fact
                # about the data built at construction, not about the (public, mutable) settings of today
                R.check(bool(pres) and val[pres[0]] == 0 and (not tag or (bool(ch) and val[ch[0]] == 0)), 'ok-only-if-unreduced' + tag,
                        'the gate answers Ok on the path %s without having found is_presolved()%s false: a setting flipped after construction '
                        'opens the gate on reduced, re-indexed data' % ({k[:50]: v for k, v in val.items()}, ' and is_chordal_decomposed()' if tag else ''), chk.loc())
        R.check(any(k.startswith('is_presolved(') for v, o in rows for k in v), 'tests-presolve' + tag, 'the gate does not test is_presolved', chk.loc())
        ip = F.one(name='is_presolved', adt='DefaultProblemData')
        R.check(canon(ip.sym_local(0)) == 'is_some(self.presolver)', 'is_presolved' + tag, 'is_presolved returns %s' % canon(ip.sym_local(0)), ip.loc())
        if tag:
            # sdp build: any chordal decomposition (compact or standard form) re-indexes the rows of A and b, so the gate must close
            # whenever the decomposition data exists
            R.check(any(k.startswith('is_chordal_decomposed(') for v, o in rows for k in v), 'tests-decomposed' + tag, 'the gate does not test is_chordal_decomposed', chk.loc())
            icd = F.one(name='is_chordal_decomposed', adt='DefaultProblemData')
            n_ = 0
            for val, ret, ev, tr in Walker(icd).leaves():
                if ret[0] not in ('s', 'c'):
                    continue
                k = [x for x in val if x in ('discr(self.chordal_info)', 'is_some(self.chordal_info)')]
                n_ += 1
                want = bool(k) and val[k[0]] == 1
                got = str(ret[1]) in ('true', '1')
                R.check(bool(k) and got == want, 'is_chordal_decomposed|%s%s' % (int(want), tag),
                        'is_chordal_decomposed returns %s under %s: it must be true exactly when the decomposition data exists (compact decompositions '
                        're-index the rows too; an update in user numbering would land on the wrong internal rows)' % (ret[1], val), icd.loc())
            R.check(n_ >= 2, 'is_chordal_decomposed|paths' + tag, 'only %d paths' % n_, icd.loc())
        for nm in ('update_P', 'update_q', 'update_A', 'update_b'):
            f = [g for g in F.find(name=nm) if 'data_updating' in g.key]
            if len(f) != 1:
                raise AnchorError('%s: %d matches' % (nm, len(f)))
            f = f[0]
            g = one_call(f, 'check_data_update_allowed')
            for c in f.calls:
                if c.callee.name in ('update_matrix', 'update_vector', 'update_P', 'update_A', 'clear_normq', 'clear_normb'):
                    R.check(f.dominates(g.bb, c.bb) and g.bb != c.bb, 'gate-dominates|%s|%s%s' % (nm, c.callee.name, tag),
                            '%s: %s is not preceded by the allowed-check on every path' % (nm, c.callee.name), f.loc(c.sp))
            for val, ret, ev, tr in Walker(f).leaves():
                k = [x for x in val if x.startswith('discr(branch(check_data_update_allowed(')]
                if k and val[k[0]] == 1:
                    eff = [e[1] for e in ev if e[0] == 'call' and e[1] in ('update_matrix', 'update_vector', 'update_P', 'update_A', 'clear_normq', 'clear_normb')]
                    R.check(not eff, 'gate-err-stops|%s%s' % (nm, tag), '%s proceeds (%s) although the update is not allowed' % (nm, eff), f.loc())
        ud = [g for g in F.find(name='update_data') if 'data_updating' in g.key][0]
        seq = [c.callee.name for c in ud.calls if c.callee.name.startswith('update_')]
        R.check(seq == ['update_P', 'update_q', 'update_A', 'update_b'], 'update_data-seq' + tag, 'update_data performs %s' % seq, ud.loc())
        nbr = len([c for c in ud.calls if c.callee.name == 'branch'])
        R.check(nbr == 4, 'update_data-propagates' + tag, 'update_data propagates %d of 4 results' % nbr, ud.loc())

    R.guard(body)


def no_write_before_reject(rep, F, tag):
    R = rep.rule('C08.R2', 'rejected / empty updates leave the data untouched (whole-vector and matrix forms); index forms check the bound before each store')

    def body():
        forms = []
        for f in F.fns:
            if f.name in ('update_matrix', 'update_vector') and f.file.endswith('data_updating.rs') and f.dk == 'AssocFn':
                forms.append(f)
        R.check(len(forms) >= 11, 'forms' + tag, 'only %d update forms found' % len(forms))
        for f in forms:
            st = strip_generics(f.impl_self or '')
            leaves = Walker(f, cut_loops=True).leaves()
            if st == '[T]':
                # "empty updates are no-ops": emptiness is decided before any rejection (an empty Vec must not be refused for
                # its length), and the empty path returns Ok
                for val, ret, ev, tr in leaves:
                    if ret[0] != 's':
                        continue
                    emp = val.get('is_empty(self)')
                    r_ = str(ret[1])
                    if r_.startswith('Result::Err') or r_.startswith('from_residual('):
                        R.check(emp == 0, 'empty-is-noop|%s|%s%s' % (f.name, 'err', tag),
                                '%s for %s returns %s on a path where the update has not been found non-empty (%s): an empty update must be '
                                'a no-op, not an error' % (f.name, st, r_[:60], {k[:40]: v for k, v in val.items()}), f.loc())
                    if emp == 1:
                        R.check(r_.startswith('Result::Ok'), 'empty-is-noop|%s|%s%s' % (f.name, 'ok', tag), '%s for %s: the empty update returns %s' % (f.name, st, r_[:60]), f.loc())
            for val, ret, ev, tr in leaves:
                if ret[0] in ('diverge', 'cut'):
                    continue
                out = None
                for b in tr:
                    for s_ in f.blocks[b]['s']:
                        if 'p' in s_ and 'rv' in s_ and s_['p']['l'] == 0 and not s_['p']['p']:
                            out = canon(f.sym_rvalue(s_['rv']))
                    c = f.call_at.get(b)
                    if c is not None and not c.dest['p'] and c.dest['l'] == 0:
                        out = 'call:' + c.callee.name
                writes = [e for e in ev if (e[0] == 'store' and ('arg2' in e[1])) or (e[0] == 'call' and e[1] in MUTATORS and e[2].split('(', 1)[1].startswith(('arg2', 'deref_mut(arg2', 'index_mut(arg2')))]
                is_err = out is not None and ('Result::Err' in out or 'from_residual' in out)
                empty = [k for k in val if k.startswith('is_empty(') and val[k] == 1]
                if is_err and 'Zip' not in st:
                    R.check(not writes, 'no-write-on-err|%s|%s%s' % (f.name, st[:40], tag),
                            '%s for %s writes the target (%s) on a path that returns an error' % (f.name, st, [w[1] for w in writes][:3]), f.loc())
                if empty:
                    R.check(not writes and out is not None and 'Result::Ok' in out, 'empty-noop|%s|%s%s' % (f.name, st[:40], tag),
                            '%s for %s: empty update is not a no-op' % (f.name, st), f.loc())
            if 'Zip' in st:
                # element stores only on paths where idx >= len was tested false
                for val, ret, ev, tr in leaves:
                    stores = [e for e in ev if e[0] == 'store' and ('arg2' in e[1])]
                    if stores:
                        bk = [k for k in val if k.startswith('le(len(') or k.startswith('lt(') and 'len(' in k]
                        R.check(bool(bk) and all(val[k] == 0 for k in bk if k.startswith('le(len(')), 'bound-before-store|%s%s' % (f.name, tag),
                                '%s (index form) stores an element without a preceding in-range test (atoms %s)' % (f.name, sorted(val)), f.loc())
            if st.endswith('CscMatrix'):
                ce = calls_named(f, 'check_equal_sparsity')
                um = calls_named(f, 'update_matrix')
                R.check(len(ce) == 1 and len(um) == 1 and f.dominates(ce[0].bb, um[0].bb), 'sparsity-first' + tag, 'matrix form does not check the pattern first', f.loc())
                if ce:
                    a = [canon(f.sym_operand(x)) for x in ce[0].args]
                    R.check(a == ['self', 'arg2'], 'sparsity-args' + tag, 'check_equal_sparsity(%s)' % a, f.loc(ce[0].sp))
                # ... on *every* accepting path: no return other than the propagated pattern error may avoid the comparison
                for val, ret, ev, tr in leaves:
                    if ret[0] != 's':
                        continue
                    passed = any(e[0] == 'call' and e[1] == 'check_equal_sparsity' for e in ev)
                    R.check(passed, 'sparsity-on-every-path' + tag,
                            'the matrix form returns %s on a path (%s) that never compares the sparsity pattern: a matrix of another shape / pattern is accepted' % (
                                str(ret[1])[:50], {k[:40]: v for k, v in val.items()}), f.loc())
        # the pattern comparison itself
        ce = F.one(name='check_equal_sparsity', adt='CscMatrix')
        atoms = set()
        rows = []
        for val, ret, ev, tr in Walker(ce).leaves():
            atoms |= set(val)
            out = None
            for b in tr:
                for s_ in ce.blocks[b]['s']:
                    if 'p' in s_ and 'rv' in s_ and s_['p']['l'] == 0 and not s_['p']['p']:
                        out = canon(ce.sym_rvalue(s_['rv']))
            rows.append((val, out))
        for fld in ('colptr', 'rowval'):
            ks = [k for k in atoms if 'self.%s' % fld in k and 'arg2.%s' % fld in k]
            R.check(len(ks) == 1, 'pattern-compares|%s%s' % (fld, tag),
                    'check_equal_sparsity does not compare self.%s with other.%s (atoms: %s)' % (fld, fld, sorted(atoms)), ce.loc())
        ks = [k for k in atoms if 'size(self)' in k and 'size(arg2)' in k]
        R.check(len(ks) == 1, 'pattern-compares|size' + tag, 'check_equal_sparsity does not compare the dimensions', ce.loc())
        for val, out in rows:
            differs = any((k.startswith('ne(') and v == 1) or (k.startswith('eq(') and v == 0) for k, v in val.items())
            R.check((out is not None and 'Result::Err' in out) == differs, 'pattern-table|%s%s' % (sorted(val.values()), tag),
                    'check_equal_sparsity returns %s under %s' % (out, val), ce.loc())

    R.guard(body)


def caches_and_mirrors(rep, F, E, G, tag):
    R = rep.rule('C08.R4', 'caches and mirrors follow the data')

    def body():
        spec = {
            'update_P': ('update_matrix', 'self.data.P', ['self.data.equilibration.d', 'self.data.equilibration.d', 'Option::Some(self.data.equilibration.c)'], ('update_P', 'self.data.P')),
            'update_A': ('update_matrix', 'self.data.A', ['self.data.equilibration.e', 'self.data.equilibration.d', 'Option::None'], ('update_A', 'self.data.A')),
            'update_q': ('update_vector', 'self.data.q', ['self.data.equilibration.d', 'Option::Some(self.data.equilibration.c)'], ('clear_normq', None)),
            'update_b': ('update_vector', 'self.data.b', ['self.data.equilibration.e', 'Option::None'], ('clear_normb', None)),
        }
        for nm, (form, tgt, scales, (after, aarg)) in spec.items():
            f = [g for g in F.find(name=nm) if 'data_updating' in g.key][0]
            u = one_call(f, form)
            a = [canon(f.sym_operand(x)) for x in u.args]
            R.check(a[1] == tgt, 'target|%s%s' % (nm, tag), '%s writes %s, expected %s' % (nm, a[1], tgt), f.loc(u.sp))
            R.check(a[2:] == scales, 'scalings|%s%s' % (nm, tag), '%s re-applies %s, expected %s' % (nm, a[2:], scales), f.loc(u.sp))
            cs = [c for c in f.calls if c.callee.name == after and c is not u and 'data_updating' not in (c.callee.key or 'x')]
            cs = [c for c in f.calls if c.callee.name == after]
            if not R.check(len(cs) == 1, 'follow-up|%s%s' % (nm, tag), '%s does not call %s exactly once (%d)' % (nm, after, len(cs)), f.loc()):
                continue
            c = cs[0]
            # on every Ok path after the data write
            ok_all = True
            for val, ret, ev, tr in Walker(f).leaves():
                k1 = [x for x in val if x.startswith('discr(branch(check_data_update_allowed(')]
                k2 = [x for x in val if x.startswith('discr(branch(map_err(%s(' % form) or x.startswith('discr(branch(%s(' % form)]
                succeeded = k1 and val[k1[0]] == 0 and k2 and val[k2[0]] == 0
                called = any(e[0] == 'call' and e[1] == after and e[3] == c.bb for e in ev)
                if succeeded and not called:
                    ok_all = False
                if called and not succeeded:
                    ok_all = False
            R.check(ok_all and f.dominates(u.bb, c.bb), 'follow-up-on-ok|%s%s' % (nm, tag),
                    '%s: %s does not run exactly on the successful paths, after the data write' % (nm, after), f.loc(c.sp))
            if aarg:
                ca = [canon(f.sym_operand(x)) for x in c.args]
                R.check(ca == ['self.kktsystem', aarg], 'mirror-arg|%s%s' % (nm, tag), '%s(%s): expected the solver\'s own %s' % (after, ca, aarg), f.loc(c.sp))
        # each cache-clearing function clears its own cache
        for fn, fld in (('clear_normq', 'normq'), ('clear_normb', 'normb')):
            g = F.one(name=fn, adt='DefaultProblemData')
            st = {}
            for val, ret, ev, tr in Walker(g).leaves():
                for e in ev:
                    if e[0] == 'store':
                        st[e[1]] = e[2]
            R.check(list(st.keys()) == ['self.%s' % fld] and 'Option::None' in str(st.get('self.%s' % fld)), 'cache|%s%s' % (fn, tag),
                    '%s performs %s; it must reset exactly %s to None (otherwise the stale norm keeps normalising the residuals)' % (fn, st, fld), g.loc())
        for fn, fld in (('get_normq', 'normq'), ('get_normb', 'normb')):
            g = F.one(name=fn, adt='DefaultProblemData')
            keys = set()
            for val, ret, ev, tr in Walker(g).leaves():
                keys |= set(val)
            R.check(any(k.startswith('discr(self.%s)' % fld) for k in keys), 'cache-read|%s%s' % (fn, tag), '%s does not consult its cache %s: %s' % (fn, fld, sorted(keys)), g.loc())
        for fld in ('normq', 'normb'):
            for k, hits in E.direct_writers_of('DefaultProblemData', fld).items():
                g = F.by_key[k][0]
                R.check(g.name in ('get_' + fld, 'clear_' + fld, 'new'), 'cache-writer|%s|%s%s' % (fld, short(k), tag), '%s writes the %s cache' % (k, fld), g.loc(hits[0][1]))
        # DefaultKKTSystem::update_P/A forward to the kkt solver
        for nm in ('update_P', 'update_A'):
            g = F.one(name=nm, adt='DefaultKKTSystem')
            cs = [c for c in g.calls if c.callee.name == nm]
            R.check(len(cs) == 1 and canon(g.sym_operand(cs[0].args[1])) == 'arg2', 'kktsystem-forward|%s%s' % (nm, tag), 'DefaultKKTSystem::%s does not forward its matrix' % nm, g.loc())

        # the cached norms are filled at construction and lazily recomputed after an update: both must be the same norm (the residual
        # normalisers are documented with the infinity norm; a 2-norm in one of the two places changes r_prim / r_dual by up to sqrt(n))
        nw = F.one(name='new', adt='DefaultProblemData')
        kinds = {}
        for bi, si, st in nw.assignments():
            rv = st['rv']
            if rv['k'] == 'agg' and rv['ak']['a'] == 'adt' and last_seg(strip_generics(rv['ak']['adt'])) == 'DefaultProblemData':
                for fld in ('normq', 'normb'):
                    v = canon(nw.sym_operand(rv['ops'][rv['ak']['fields'].index(fld)]))
                    m = re.search(r'\b(norm_inf|norm_one|norm)(_scaled)?\(', v)
                    kinds[(fld, 'init')] = m.group(1) if m else v[:40]
        for fld, getter in (('normq', 'get_normq'), ('normb', 'get_normb')):
            g = F.one(name=getter, adt='DefaultProblemData')
            for val, ret, ev, tr in Walker(g).leaves():
                for e in ev:
                    if e[0] == 'store' and str(e[1]) == 'self.' + fld:
                        m = re.search(r'\b(norm_inf|norm_one|norm)(_scaled)?\(', str(e[2]))
                        kinds[(fld, 'recompute')] = m.group(1) if m else str(e[2])[:40]
        for fld in ('normq', 'normb'):
            a, b = kinds.get((fld, 'init')), kinds.get((fld, 'recompute'))
            R.check(a == 'norm_inf' and b == 'norm_inf', 'cache-same-norm|%s%s' % (fld, tag),
                    'the cached %s is initialised with %s and recomputed with %s: both must be the infinity norm of the residual normalisers' % (fld, a, b), nw.loc())

    R.guard(body)


def kkt_mirror(rep, F, E, G, tag):
    R = rep.rule('C08.R5', 'KKT mirror discipline: value writes only through the paired helpers; P->map.P, A->map.A; QDLDL indexes through AtoPAPt')

    def body():
        uk = F.one(name='_update_values_KKT')
        sk = F.one(name='_scale_values_KKT')
        uv = F.one(name='_update_values')
        sv = F.one(name='_scale_values')
        rr = F.one(name='regularize_and_refactor', adt='DirectLDLKKTSolver')
        # direct writers of the solver's KKT value array
        for f in F.fns:
            if not f.file.endswith('directldlkktsolver.rs'):
                continue
            hits = [h for h in E.direct_write_sites(f, 'CscMatrix', 'nzval')]
            if hits and f.key not in (uk.key, sk.key):
                # constructor-time assembly is in kkt_assembly.rs; anything here is a side door
                R.bad('side-door|%s%s' % (short(f.key), tag), '%s writes KKT values directly, bypassing the LDL engine mirror' % f.key, f.loc(hits[0][1]))
        cs = set(G.callers_of(uk.key))
        R.check(cs <= {uv.key, rr.key}, 'callers|_update_values_KKT' + tag,
                '_update_values_KKT (KKT copy only) is called from %s: the LDL engine\'s permuted copy is not updated there' % sorted(short(c) for c in cs - {uv.key, rr.key}), uk.loc())
        cs = set(G.callers_of(sk.key))
        R.check(cs <= {sv.key}, 'callers|_scale_values_KKT' + tag, '_scale_values_KKT is called from %s' % sorted(short(c) for c in cs - {sv.key}), sk.loc())
        for f, inner, ldl in ((uv, '_update_values_KKT', 'update_values'), (sv, '_scale_values_KKT', 'scale_values')):
            a = [c for c in f.calls if c.callee.name == inner]
            b = [c for c in f.calls if c.callee.name == ldl]
            ok = len(a) == 1 and len(b) == 1
            if ok:
                aa = [canon(f.sym_operand(x)) for x in a[0].args]
                bb = [canon(f.sym_operand(x)) for x in b[0].args]
                ok = aa == ['arg2', 'arg3', 'arg4'] and bb[1:] == ['arg3', 'arg4'] and bb[0].startswith('arg1')
            R.check(ok, 'paired|%s%s' % (f.name, tag), '%s does not forward the same (index, values) to both the KKT copy and the LDL engine' % f.name, f.loc())
        for nm, mp in (('update_P', 'P'), ('update_A', 'A')):
            f = F.one(name=nm, adt='DirectLDLKKTSolver')
            cs = [c for c in f.calls if c.callee.name in ('_update_values', '_update_values_KKT', '_scale_values')]
            ok = len(cs) == 1 and cs[0].callee.name == '_update_values'
            if ok:
                a = [canon(f.sym_operand(x)) for x in cs[0].args]
                ok = a == ['self.ldlsolver', 'self.KKT', 'self.map.%s' % mp, 'arg2.nzval']
            R.check(ok, 'wiring|%s%s' % (nm, tag),
                    'DirectLDLKKTSolver::%s must call _update_values(ldlsolver, KKT, map.%s, %s.nzval); found %s' % (
                        nm, mp, mp, [(c.callee.name, [canon(f.sym_operand(x)) for x in c.args]) for c in cs]), f.loc())
        # every LDL engine that keeps a permuted copy applies value updates through its entry map, with the same
        # semantics (sibling agreement between the backends): update = overwrite with values[i], scale = multiply by
        # the factor, offset = add +/- the offset according to the sign
        engines = [('QDLDLFactorisation', 'AtoPAPt')]
        if F.find(name='update_values', adt='FaerDirectLDLSolver'):
            engines.append(('FaerDirectLDLSolver', 'perm_map'))
        for adt, mapfld in engines:
            for nm in ('update_values', 'scale_values', 'offset_values'):
                f = F.one(name=nm, adt=adt)
                targets = []
                ops = []
                for val, ret, ev, tr in Walker(f, cut_loops=True).leaves():
                    for e in ev:
                        if e[0] == 'store' and 'nzval' in e[1]:
                            targets.append(e[1])
                            ops.append(('store', str(e[2])))
                        if e[0] == 'call' and e[1] in ('mul_assign', 'add_assign', 'sub_assign') and 'nzval' in e[2]:
                            targets.append(e[2])
                            ops.append((e[1], split_args(e[2])[1]))
                R.check(bool(targets) and all(mapfld in t for t in targets), 'engine-indirect|%s|%s%s' % (adt, nm, tag),
                        '%s::%s writes %s: every write to the permuted copy must be indexed through %s' % (adt, nm, [t[:80] for t in targets][:2], mapfld), f.loc())
                kinds = set(k for k, v in ops)
                if nm == 'update_values':
                    ok = kinds == {'store'} and all(v.startswith('index(arg3, ') or v.startswith('arg3[') for k, v in ops)
                    R.check(ok, 'engine-semantics|%s|%s%s' % (adt, nm, tag), '%s::update_values performs %s, expected an overwrite with values[i]' % (adt, ops[:2]), f.loc())
                elif nm == 'scale_values':
                    ok = kinds == {'mul_assign'} and all(v == 'arg3' for k, v in ops)
                    R.check(ok, 'engine-semantics|%s|%s%s' % (adt, nm, tag), '%s::scale_values performs %s, expected a multiplication by the scale factor' % (adt, ops[:2]), f.loc())
                else:
                    ok = kinds <= {'add_assign', 'sub_assign'} and 'add_assign' in kinds and all('arg3' in v for k, v in ops)
                    R.check(ok, 'engine-semantics|%s|%s%s' % (adt, nm, tag), '%s::offset_values performs %s, expected +/- offset by sign' % (adt, ops[:2]), f.loc())
        # the wrappers forward (index, values) unchanged
        for nm in ('update_values', 'scale_values', 'offset_values'):
            g = F.one(name=nm, adt='QDLDLDirectLDLSolver')
            cs = [c for c in g.calls if c.callee.name == nm]
            want = ['arg2', 'arg3'] + (['arg4'] if nm == 'offset_values' else [])
            R.check(len(cs) == 1 and [canon(g.sym_operand(x)) for x in cs[0].args][1:] == want, 'wrapper-forwards|%s%s' % (nm, tag),
                    'QDLDLDirectLDLSolver::%s does not forward its arguments unchanged' % nm, g.loc())

    R.guard(body)


def persistent_equilibration(rep, F, E, G, tag):
    R = rep.rule('C08.R6', 'equilibration is computed once, at construction')

    def body():
        eq = F.one(name='equilibrate', adt='DefaultProblemData')
        new = F.one(name='new', self_ty='solver::core::solver::Solver')
        cs = set(G.callers_of(eq.key))
        R.check(cs == {new.key}, 'callers|equilibrate' + tag, 'equilibrate is called from %s' % sorted(short(c) for c in cs), eq.loc())
        for fld in ('d', 'e', 'dinv', 'einv', 'c'):
            for k, hits in E.direct_writers_of('DefaultEquilibrationData', fld).items():
                g = F.by_key[k][0]
                R.check(g.name in ('equilibrate', 'new'), 'writer|%s|%s%s' % (fld, short(k), tag), '%s writes equilibration.%s after construction' % (k, fld), g.loc(hits[0][1]))
        for fld in ('nzval',):
            pass

    R.guard(body)


def element_store_indices(rep, F, tag):
    R = rep.rule('C08.R10', 'index forms: the bound test, the stored element and the scaling entries all use the same index; tuple forms delegate unchanged')

    def body():
        forms = [f for f in F.fns if f.name in ('update_matrix', 'update_vector') and f.file.endswith('data_updating.rs') and f.dk == 'AssocFn']
        R.check(len(forms) >= 11, 'forms' + tag, 'only %d update forms found' % len(forms))
        n_store = n_deleg = 0
        storing = set()
        for f in forms:
            st = strip_generics(f.impl_self or '')
            vec = f.name == 'update_vector'
            leaves = Walker(f, cut_loops=True).leaves()
            for val, ret, ev, tr in leaves:
                for e in ev:
                    if e[0] != 'store' or 'arg2' not in str(e[1]):
                        continue
                    t, v = str(e[1]), str(e[2])
                    m = re.fullmatch(r'arg2\[(.*)\]', t) if vec else re.fullmatch(r'index_mut\(arg2\.nzval, (.*)\)', t)
                    if m is None:
                        R.bad('store-target|%s|%s%s' % (f.name, st[:30], tag), '%s for %s stores into %s' % (f.name, st, t), f.loc())
                        continue
                    I = m.group(1)
                    n_store += 1
                    storing.add((f.name, st))
                    ln = 'len(arg2)' if vec else 'len(arg2.nzval)'
                    ok_b = val.get('le(%s, %s)' % (ln, I)) == 0 or val.get('lt(%s, %s)' % (I, ln)) == 1
                    R.check(ok_b, 'bound-same-index|%s|%s%s' % (f.name, st[:30], tag),
                            '%s for %s stores element %s on a path where %s < %s has not been established (tests: %s)' % (f.name, st, I, I, ln, sorted(val)), f.loc())
                    if vec:
                        js = _index_args(v, 'arg3')
                        R.check(js == [I], 'scale-same-index|%s|%s%s' % (f.name, st[:30], tag),
                                '%s for %s stores v[%s] scaled by vscale%s: the equilibration entry must be that of the target index' % (f.name, st, I, js), f.loc())
                    else:
                        jl, jr = _index_args(v, 'arg3'), _index_args(v, 'arg4')
                        R.check(jl == ['index_to_coord(arg2, %s).0' % I] and jr == ['index_to_coord(arg2, %s).1' % I], 'scale-same-index|%s|%s%s' % (f.name, st[:30], tag),
                                '%s for %s stores nzval[%s] scaled by lscale%s, rscale%s: expected the row / column of that entry' % (f.name, st, I, jl, jr), f.loc())
            has_store = any(e[0] == 'store' and 'arg2' in str(e[1]) for val, ret, ev, tr in leaves for e in ev)
            if has_store:
                # every pair handed in is written: a pass of the loop that goes on to the next pair without a store (say, for a zero value) leaves the
                # old equilibrated entry in place although the update was accepted
                for val, ret, ev, tr in leaves:
                    got_pair = any(k.startswith('discr(next(') and '@Some' not in k and v == 1 for k, v in val.items())
                    if ret[0] == 'cut' and got_pair:
                        wrote = any(e[0] == 'store' and 'arg2' in str(e[1]) for e in ev)
                        R.check(wrote, 'every-pair-written|%s|%s%s' % (f.name, st[:30], tag),
                                '%s for %s moves on to the next (index, value) pair without writing this one (path %s): an entry can then not be set to that value' % (
                                    f.name, st, {k[:50]: v for k, v in val.items() if not k.startswith('discr(next(')}), f.loc())
            if st.startswith('(') and not has_store:
                rets = [str(ret[1]) for val, ret, ev, tr in leaves if ret[0] == 's']
                want = '%s(zip(iter(self.0), iter(self.1)), arg2, arg3, arg4%s)' % (f.name, '' if vec else ', arg5')
                n_deleg += 1
                R.check(rets == [want], 'tuple-delegates|%s%s' % (f.name, tag), '%s for %s returns %s, expected %s' % (f.name, st, rets, want), f.loc())
        R.check(len(storing) >= 2 and n_store >= 2, 'count' + tag, 'only %d element stores in %d index forms analysed (matrix and vector index form expected)' % (n_store, len(storing)))

    R.guard(body)


def _index_args(v, base):
    """index expressions J of every occurrence base[J] in the canonical text v (balanced brackets)"""
    out = []
    i = 0
    key = base + '['
    while True:
        i = v.find(key, i)
        if i < 0:
            return out
        if i > 0 and (v[i - 1].isalnum() or v[i - 1] in '._'):
            i += 1
            continue
        j = i + len(key)
        d = 1
        while j < len(v) and d:
            d += v[j] == '['
            d -= v[j] == ']'
            j += 1
        out.append(v[i + len(key):j - 1])
        i = j


def run(ctx, rep, tier):
    for cfg in CONFIGS:
        F = ctx.facts(cfg)
        E = ctx.eff(cfg)
        G = ctx.cg(cfg)
        tag = '' if cfg == 'default' else '[%s]' % cfg
        gate(rep, F, tag)
        no_write_before_reject(rep, F, tag)
        caches_and_mirrors(rep, F, E, G, tag)
        kkt_mirror(rep, F, E, G, tag)
        persistent_equilibration(rep, F, E, G, tag)
        element_store_indices(rep, F, tag)
    # an updated solver must behave like a rebuilt one: every solve starts from scratch (C05.R6 re-run)
    from . import c05, c04
    for cfg in CONFIGS:
        c05.fresh_start(c04._Ren(rep, 'C05.R6', 'C08.R9'), ctx.facts(cfg), ctx.eff(cfg), ctx.cg(cfg), '' if cfg == 'default' else '[%s]' % cfg)
    from . import units_rules
    units_rules.c08(ctx, rep)
    # the index forms find the row / column of a stored entry with index_to_coord (C16.R7 re-run)
    from . import c16
    c16.triangle(rep, ctx.facts('default'), '', 'C08.R11')
    if tier == 'thorough':
        from . import witness
        witness.run(rep, 'C08.R7', ['update_needs_mut'])
    from . import primitives
    primitives.vector_primitives(rep, ctx.facts('default'), ctx.eff('default'), '', 'C08.R8')


