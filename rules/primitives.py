"""Meaning of the vector primitives (impl VectorMath for [T]) that every units / linear-form / polynomial rule
assumes: each primitive's body is interpreted over polynomials and compared with its definition.  This turns the
assumption "the algebra primitives mean what their names say" into a checked fact for the vector side (the sparse
matrix primitives - index loops over colptr/rowval - remain assumed: C16)."""
import re
from fractions import Fraction
from engine.mir import last_seg, AnchorError, strip_generics
from engine.preds import canon, Walker
from engine.linform import (LFSplit, P_atom, P_const, P_add, P_mul, P_neg, P_inv, P_fmt, P_key)
from .common import *

ACC, X, Y = P_atom('acc'), P_atom('x'), P_atom('y')


def _abs(p):
    return P_atom(('abs', P_key(p)))


def _mm(op, a, b):
    ks = sorted([P_key(a), P_key(b)], key=str)
    return P_atom((op, ks[0], ks[1]))


# name -> (source iterator, init, outer, expected closure result)
FOLDS = {
    'dot': ('zip(self, arg2)', 'zero()', None, P_add(ACC, P_mul(X, Y))),
    'sum': ('iter(self)', 'zero()', None, P_add(ACC, X)),
    'norm_one': ('iter(self)', 'zero()', None, P_add(ACC, _abs(X))),
    'norm_scaled': ('zip(self, arg2)', 'zero()', 'sqrt', P_add(ACC, P_mul(P_mul(X, Y), P_mul(X, Y)))),
    'norm_inf_scaled': ('zip(self, arg2)', 'zero()', None, _mm('max', ACC, _abs(P_mul(X, Y)))),
    'norm_one_scaled': ('zip(self, arg2)', 'zero()', None, P_add(ACC, _abs(P_mul(X, Y)))),
    'minimum': ('iter(self)', 'infinity()', None, _mm('min', ACC, X)),
    'maximum': ('iter(self)', 'neg(infinity())', None, _mm('max', ACC, X)),
}
# name -> expected element map x -> .  (C = captured scalar)
C = P_atom('c')
MAPS = {
    'translate': P_add(X, C),
    'set': C,
    'scale': P_mul(X, C),
    'negate': P_neg(X),
}


def _closure_atoms(f_parent, two):
    """atoms for a closure body: arg2 = accumulator / element, arg3(.0/.1) = element(s); upvars by parent parameter"""
    pnames = {}
    for i in range(1, 8):
        try:
            n = f_parent.local_name(i)
        except Exception:
            n = None
        if n:
            pnames[n] = i

    def atoms(k, s_):
        if two:
            if k == 'arg2':
                return ('S', ACC)
            if k in ('arg3', 'arg3.0'):
                return ('S', X)
            if k == 'arg3.1':
                return ('S', Y)
        else:
            if k in ('arg2', 'arg2.0'):
                return ('S', X)
            if k == 'arg2.1':
                return ('S', Y)
        m = re.fullmatch(r'arg1\._ref__(\w+)', k) or re.fullmatch(r'arg1\.(\w+)', k)
        if m:
            return ('S', P_atom('up:' + m.group(1)))
        return None
    return atoms


def _eval_closure(F, E, g, f_parent, two):
    reg = {}
    I = LFSplit(F, E, g, _closure_atoms(f_parent, two), reg)
    out = []
    for val, ret, st in I.run({}):
        out.append((I.ev(st, g.sym_local(0)), st))
    return out


def vector_primitives(rep, F, E, tag, rid):
    R = rep.rule(rid, 'vector primitives (impl VectorMath for [T]) compute their definitions: dot, norms, min/max, element maps, hadamard, axpby, waxpby')

    def body():
        def prim(nm):
            fs = [f for f in F.find(name=nm) if f.impl_trait and f.impl_trait.endswith('VectorMath') and (f.impl_self or '').startswith('[')]
            if len(fs) != 1:
                raise AnchorError('VectorMath::%s for [T] matched %d functions' % (nm, len(fs)))
            return fs[0]
        n = 0
        for nm, (src, init, outer, want) in FOLDS.items():
            f = prim(nm)
            r = canon(f.sym_local(0))
            shape = '%sfold(%s, %s, closure())%s' % ((outer + '(') if outer else '', src, init, ')' if outer else '')
            R.check(r == shape, 'shape|%s%s' % (nm, tag), '%s is %s, expected %s' % (nm, r, shape), f.loc())
            cl = F.closures_of.get(f.key, [])
            if len(cl) != 1:
                R.bad('closure|%s%s' % (nm, tag), '%s has %d closures' % (nm, len(cl)), f.loc())
                continue
            res = _eval_closure(F, E, cl[0], f, True)
            ok = len(res) == 1 and res[0][0] is not None and res[0][0][0] == 'S' and res[0][0][1] == want
            n += 1
            R.check(ok, 'fold|%s%s' % (nm, tag), '%s folds with %s, expected %s' % (
                nm, P_fmt(res[0][0][1]) if res and res[0][0] is not None and res[0][0][0] == 'S' else [x[0] for x in res], P_fmt(want)), cl[0].loc())
        for nm, want in MAPS.items():
            f = prim(nm)
            r = canon(f.sym_local(0))
            R.check(r.startswith('scalarop(self, closure('), 'shape|%s%s' % (nm, tag), '%s is %s, expected scalarop(self, <closure>)' % (nm, r), f.loc())
            cl = F.closures_of.get(f.key, [])
            if len(cl) != 1:
                R.bad('closure|%s%s' % (nm, tag), '%s has %d closures' % (nm, len(cl)), f.loc())
                continue
            res = _eval_closure(F, E, cl[0], f, False)
            got = res[0][0] if len(res) == 1 else None
            if got is not None and got[0] == 'S':
                # the captured scalar, whatever its name
                g1 = {tuple((('c' if (isinstance(a, str) and a.startswith('up:')) else a), e) for a, e in m): c for m, c in got[1].items()}
                g1 = {tuple(sorted(m, key=lambda x: str(x[0]))): c for m, c in g1.items()}
                w1 = {tuple(sorted(m, key=lambda x: str(x[0]))): c for m, c in want.items()}
                ok = g1 == w1
            else:
                ok = False
            n += 1
            R.check(ok, 'map|%s%s' % (nm, tag), '%s maps x to %s, expected %s' % (nm, P_fmt(got[1]) if got is not None and got[0] == 'S' else got, P_fmt(want)), cl[0].loc())
        for nm, tail in (('recip', '::recip)'), ('sqrt', '::sqrt)')):
            f = prim(nm)
            r = canon(f.sym_local(0))
            R.check(r.startswith('scalarop(self, ') and r.endswith(tail), 'map|%s%s' % (nm, tag), '%s is %s' % (nm, r), f.loc())
            n += 1
        f = prim('rsqrt')
        cl = F.closures_of.get(f.key, [])
        R.check(len(cl) == 1 and canon(cl[0].sym_local(0)) == 'recip(sqrt(arg2))' and canon(f.sym_local(0)).startswith('scalarop(self, closure('), 'map|rsqrt' + tag,
                'rsqrt maps x to %s' % [canon(c.sym_local(0)) for c in cl], f.loc())
        f = prim('sumsq')
        R.check(canon(f.sym_local(0)) == 'dot(self, self)', 'sumsq' + tag, 'sumsq is %s' % canon(f.sym_local(0)), f.loc())
        f = prim('norm')
        R.check(canon(f.sym_local(0)) == 'sqrt(sumsq(self))', 'norm' + tag, 'norm is %s' % canon(f.sym_local(0)), f.loc())
        n += 3
        # hadamard / axpby: for_each over zip(self, other) with an element store
        f = prim('hadamard')
        cl = F.closures_of.get(f.key, [])
        fe = [c for c in f.calls if c.callee.name == 'for_each']
        ok = len(cl) == 1 and len(fe) == 1 and canon(f.sym_operand(fe[0].args[0])) == 'zip(self, arg2)' and canon(cl[0].sym_local(0)) in ('mul_assign(arg2.0, arg2.1)',)
        R.check(ok, 'hadamard' + tag, 'hadamard is for_each(%s, %s)' % ([canon(f.sym_operand(c.args[0])) for c in fe], [canon(c.sym_local(0)) for c in cl]), f.loc())
        f = prim('axpby')
        cl = F.closures_of.get(f.key, [])
        fe = [c for c in f.calls if c.callee.name == 'for_each']
        ok = False
        got = None
        if len(cl) == 1 and len(fe) == 1 and canon(f.sym_operand(fe[0].args[0])) == 'zip(self, arg3)':
            names = {f.local_name(i): i for i in range(1, 5)}
            I = LFSplit(F, E, cl[0], _closure_atoms(f, False), {})
            for val, ret, st in I.run({}):
                got = st.get('arg2.0')
            a_nm = [k for k, v in names.items() if v == 2]
            b_nm = [k for k, v in names.items() if v == 4]
            if got is not None and got[0] == 'S' and a_nm and b_nm:
                want = P_add(P_mul(P_atom('up:' + a_nm[0]), Y), P_mul(P_atom('up:' + b_nm[0]), X))
                ok = got[1] == want
        R.check(ok, 'axpby' + tag, 'axpby(a, x, b) stores y = %s, expected a*x + b*y over zip(self, x)' % (P_fmt(got[1]) if got is not None and got[0] == 'S' else got), f.loc())
        n += 2
        # loop-based primitives
        f = prim('waxpby')
        stores = []
        for val, ret, ev, tr in Walker(f, cut_loops=True).leaves():
            for e in ev:
                if e[0] == 'store':
                    stores.append((e[1], str(e[2])))
        it = 'next(into_iter(zip(self, zip(arg3, arg5))))@Some.0'
        want = ('%s.0' % it, {'add(mul(arg2, %s.1.0), mul(arg4, %s.1.1))' % (it, it), 'add(mul(arg4, %s.1.1), mul(arg2, %s.1.0))' % (it, it)})
        R.check(any(t == want[0] and v in want[1] for t, v in stores), 'waxpby' + tag, 'waxpby(a, x, b, y) stores %s, expected w = a*x + b*y over zip(self, zip(x, y))' % stores[:2], f.loc())
        f = prim('norm_inf')
        ok = False
        seen = []
        for val, ret, ev, tr in Walker(f, cut_loops=True).leaves():
            for e in ev:
                if e[0] == 'assign' and e[1] == 'out' and isinstance(e[4], dict):
                    seen.append(canon(f.sym_rvalue(e[4]['rv'])))
                if e[0] == 'assign' and e[1] == 'out' and not isinstance(e[4], dict):
                    seen.append(str(e[2]))
        el = 'next(into_iter(self))@Some.0'
        ok = any(s_ in ('max(var:out, abs(%s))' % el, 'max(abs(%s), var:out)' % el) for s_ in seen) and any(s_ == 'zero()' for s_ in seen)
        R.check(ok, 'norm_inf' + tag, 'norm_inf accumulates %s, expected out = max(out, |v|) from zero' % seen, f.loc())
        f = prim('scalarop_from')
        stores = []
        for val, ret, ev, tr in Walker(f, cut_loops=True).leaves():
            for e in ev:
                if e[0] == 'store':
                    stores.append((e[1], str(e[2])))
        it = 'next(into_iter(zip(self, arg3)))@Some.0'
        R.check(any(t == it + '.0' and v.endswith('(arg2, %s.1)' % it) for t, v in stores) or any(t == it + '.0' and ('%s.1' % it) in v and 'arg2' in v for t, v in stores),
                'scalarop_from' + tag, 'scalarop_from(op, v) stores %s, expected x = op(v) over zip(self, v)' % stores[:2], f.loc())
        f = prim('scalarop')
        stores = []
        for val, ret, ev, tr in Walker(f, cut_loops=True).leaves():
            for e in ev:
                if e[0] == 'store':
                    stores.append((e[1], str(e[2])))
        it = 'next(into_iter(self))@Some.0'
        R.check(any(t == it and it in v and 'arg2' in v for t, v in stores), 'scalarop' + tag, 'scalarop(op) stores %s, expected x = op(x) over self' % stores[:2], f.loc())
        n += 4
        R.check(n >= 23, 'count' + tag, 'only %d primitives analysed' % n)

    R.guard(body)
