"""min-lattice dataflow: step lengths returned by the cones are bounded by their alpha_max
argument (shared by C07.R2 and C15.R1/R2/R3/R4)"""
import re
from engine.mir import last_seg, show, AnchorError, strip_generics
from engine.preds import canon, Walker
from .common import *

CONE_TYPES = ['ZeroCone', 'NonnegativeCone', 'SecondOrderCone', 'ExponentialCone', 'PowerCone', 'GenPowerCone',
              'PSDTriangleCone', 'CompositeCone', 'SupportedCone']
# factors in [0,1] by documented meaning (settings are not validated by the crate: assumption)
CONTRACTIONS = ('linesearch_backtrack_step', 'max_step_fraction', 'step')


class Bounded:
    """is a value provably <= the designated bound parameters (given bound >= 0)?"""

    def __init__(self, F, E):
        self.F = F
        self.E = E
        self.memo = {}
        self.assumptions = set()
        self.why = []

    def ret_shape(self, key, bparams, stack=()):
        """shape of the return value of fn `key`: True/False, or tuple of shapes"""
        mk = (key, frozenset(bparams))
        if mk in self.memo:
            return self.memo[mk]
        if mk in stack:
            return True  # coinductive: recursion returns what it is proving
        fs = self.F.by_key.get(key)
        if not fs:
            return False
        f = fs[0]
        r = self.shape_local(f, 0, bparams, stack + (mk,), frozenset())
        self.memo[mk] = r
        return r

    def shape_local(self, f, l, bp, stack, seen):
        if (f.key, l) in seen:
            return True  # loop-carried: inductive hypothesis
        if f.is_param(l) and l not in f.defs:
            return l in bp
        vals = self.E.var_values(f, l)
        if not vals:
            return False
        if l in f.mut_borrowed:
            if not self.mut_uses_ok(f, l, bp, stack, seen | {(f.key, l)}):
                self.why.append('%s: local %s is mutated through a reference in an unrecognised way' % (f.key, f.local_name(l)))
                return False
        shapes = [self.shape(f, v, bp, stack, seen | {(f.key, l)}) for v in vals]
        return self.meet(shapes)

    @staticmethod
    def meet(shapes):
        if not shapes:
            return False
        if all(isinstance(s, tuple) for s in shapes):
            n = min(len(s) for s in shapes)
            return tuple(Bounded.meet([s[i] for s in shapes]) for i in range(n))
        return all(s is True or (isinstance(s, tuple) and all(x is True for x in s)) for s in shapes)

    def mut_uses_ok(self, f, l, bp, stack, seen):
        ok = True
        for c in f.calls:
            for i, a in enumerate(c.args):
                s = f.sym_operand(a)
                if s[0] == 'ref' and s[2] in ('mut',) and s[1][0] == 'var' and s[1][1] == l:
                    nm = c.callee.name
                    if nm == 'mul_assign' and i == 0:
                        other = canon(f.sym_operand(c.args[1]))
                        if any(x in other for x in CONTRACTIONS) or other.startswith('arg'):
                            self.assumptions.add('%s: factor %s is in [0,1]' % (short(f.key), other))
                            continue
                    ok = False
        return ok

    def shape(self, f, s, bp, stack, seen):
        t = s[0]
        if t == 'param':
            return s[1] in bp
        if t == 'var':
            return self.shape_local(f, s[1], bp, stack, seen)
        if t in ('ref', 'deref', 'cast'):
            return self.shape(f, s[1], bp, stack, seen)
        if t == 'const':
            return False
        if t == 'agg':
            if s[1][0] == 'tuple':
                return tuple(self.shape(f, o, bp, stack, seen) for o in s[2])
            return False
        if t == 'field':
            b = self.shape(f, s[1], bp, stack, seen)
            if isinstance(b, tuple) and s[2].isdigit() and int(s[2]) < len(b):
                return b[int(s[2])]
            return False
        if t == 'call':
            key = s[1]
            nm = last_seg(key.split('#')[0])
            args = s[2]
            if nm == 'zero' and not args:
                return True
            if nm == 'min' and len(args) == 2:
                return any(self.shape(f, a, bp, stack, seen) is True for a in args)
            if nm in ('clone', 'into', 'from', 'deref', 'unwrap') and len(args) == 1:
                return self.shape(f, args[0], bp, stack, seen)
            if nm == 'mul' and len(args) == 2:
                a, b = canon(args[0]), canon(args[1])
                for x, y, ya in ((a, b, args[1]), (b, a, args[0])):
                    if any(c in x for c in CONTRACTIONS):
                        if self.shape(f, ya, bp, stack, seen) is True:
                            self.assumptions.add('%s: factor %s is in [0,1]' % (short(f.key), x))
                            return True
                return False
            if key in self.F.by_key:
                callee = self.F.by_key[key][0]
                targs = list(args)
                if callee.dk == 'Closure' and len(args) == 2:
                    a1 = args[1]
                    while a1[0] in ('ref', 'deref'):
                        a1 = a1[1]
                    if a1[0] == 'agg' and a1[1][0] == 'tuple':
                        targs = [args[0]] + list(a1[2])
                cb = set()
                for i, a in enumerate(targs):
                    if self.shape(f, a, bp, stack, seen) is True:
                        cb.add(i + 1)
                return self.ret_shape(key, cb, stack)
            return False
        return False


def cone_step_lengths(rep, F, E, tag, rid):
    R = rep.rule(rid, 'every Cone::step_length returns values bounded by its alpha_max argument '
                      '(min-lattice dataflow through helpers, closures and enum dispatch)')

    def body():
        B = Bounded(F, E)
        n = 0
        for K in CONE_TYPES:
            fs = F.find(name='step_length', adt=K, trait='Cone')
            if not fs:
                continue
            f = fs[0]
            n += 1
            B.why = []
            sh = B.ret_shape(f.key, {7})
            ok = isinstance(sh, tuple) and len(sh) == 2 and sh[0] is True and sh[1] is True
            R.check(ok, 'bounded|%s%s' % (K, tag),
                    '%s::step_length can return a value that is not bounded by its alpha_max argument '
                    '(derived shape %s%s)' % (K, sh, ('; ' + '; '.join(B.why[:2])) if B.why else ''), f.loc())
        R.check(n >= 8, 'cone-impls' + tag, 'only %d Cone::step_length implementations analysed' % n)
        for a in sorted(B.assumptions):
            R.note('assumption: ' + a)
        rep.assumptions.extend(sorted(B.assumptions - set(rep.assumptions)))

    R.guard(body)


def composite_order(rep, F, tag, rid):
    """Either pass order satisfies the property (the result is the minimum over all cones and the cap only shortens),
    and the code on the pinned tree runs the *nonsymmetric* cones first, contrary to its own comment - so no order is
    demanded: what must hold is that the two passes are complementary (every cone examined exactly once) and that
    the max_step_fraction cap is applied exactly when some cone is nonsymmetric."""
    R = rep.rule(rid, 'CompositeCone::step_length: two complementary passes cover every cone once; the max_step_fraction cap is '
                      'applied iff some cone is nonsymmetric')

    def body():
        f = F.one(name='step_length', adt='CompositeCone', trait='Cone')
        clos = F.closures_of.get(f.key, [])
        if len(clos) != 1:
            raise AnchorError('expected one inner closure in CompositeCone::step_length, found %d' % len(clos))
        ck = clos[0].key
        calls = [c for c in f.calls if c.callee.target_key == ck]
        R.check(len(calls) == 2, 'two-passes' + tag, 'inner pass is invoked %d times, expected 2' % len(calls), f.loc())
        if len(calls) != 2:
            return
        flags = []
        for c in calls:
            a = f.sym_operand(c.args[1])
            while a[0] in ('ref', 'deref'):
                a = a[1]
            flags.append(canon(a[2][1]) if a[0] == 'agg' else '?')
        pd = f.postdominators()
        R.check(sorted(flags) == ['false', 'true'] and all(c.bb in pd.get(0, set()) for c in calls), 'pass-order' + tag,
                'the two passes are invoked with symcond=%s: they must be complementary (true and false) and both run on every path, '
                'otherwise some cones never limit the step' % flags, f.loc(calls[0].sp))
        # in the closure: a cone is skipped on a comparison of cone.is_symmetric() with symcond
        g = clos[0]
        sk = [canon(('bin', st['rv']['op'], g.sym_operand(st['rv']['a']), g.sym_operand(st['rv']['b'])))
              for bi, si, st in g.assignments() if st['rv']['k'] == 'bin' and st['rv']['op'] in ('Eq', 'Ne')]
        R.check(any('is_symmetric(' in x and 'arg3' in x and x.startswith(('eq(', 'ne(')) for x in sk), 'skip-test' + tag,
                'the inner pass does not select cones by comparing is_symmetric() with symcond (tests: %s)' % sk, g.loc())
        # the cap
        mins = [c for c in f.calls if c.callee.name == 'min']
        caps = [c for c in mins if 'max_step_fraction' in canon(f.sym_operand(c.args[0])) + canon(f.sym_operand(c.args[1]))]
        R.check(len(caps) == 1, 'cap-present' + tag, 'min(max_step_fraction, alpha) appears %d times' % len(caps), f.loc())
        if len(caps) == 1:
            cap = caps[0]
            # the cap shortens the step found so far: its other operand is the running alpha (result of the first pass), not the
            # requested maximum - min(max_step_fraction, alpha_max) would discard the limit the first pass found
            other = [canon(f.sym_operand(a)) for a in cap.args if 'max_step_fraction' not in canon(f.sym_operand(a))]
            R.check(len(other) == 1 and not re.fullmatch(r'arg\d+', other[0]) and ('call(' in other[0] or 'var:' in other[0]), 'cap-operand' + tag,
                    'the cap is min(max_step_fraction, %s): it must be applied to the step length found by the first pass, otherwise that pass\'s limit is overwritten' % (other[:1] or ['?'])[0][:60], f.loc(cap.sp))
            for val, ret, ev, tr in Walker(f).leaves():
                k = [x for x in val if 'is_symmetric(' in x]
                if not k:
                    R.bad('cap-guard' + tag, 'cap is not guarded by all_symmetric', f.loc(cap.sp))
                    break
                applied = cap.bb in tr
                allsym = val[k[0]]
                R.check(applied == (not allsym), 'cap-iff-nonsymmetric|%s%s' % (allsym, tag),
                        'cap %s when all_symmetric=%s' % ('applied' if applied else 'skipped', allsym), f.loc(cap.sp))

    R.guard(body)


def soc_dead_panic(rep, F, tag, rid):
    R = rep.rule(rid, 'second-order cone step length: the panic is dead by the definition c = max(0, .)')

    def body():
        f = F.one(name='_step_length_soc_component')
        nd = 0
        for val, ret, ev, tr in Walker(f).leaves():
            if ret[0] == 'diverge' and ret[1] not in ('index', 'index_mut'):
                # bounds-check panics diverge through Assert terminators, not calls; this is an explicit panic
                nd += 1
                ks = [k for k in val if k.startswith('lt(max(zero(), ') and k.endswith(', zero())') and val[k] == 1]
                R.check(bool(ks), 'panic-guard' + tag,
                        'the explicit panic in _step_length_soc_component is reachable under %s, not only under '
                        'max(0, .) < 0' % {k: v for k, v in list(val.items())[-3:]}, f.loc())
        R.ok('panic-sites' + tag, {'diverging_leaves': nd})

    R.guard(body)


def backtrack_pairing(rep, F, tag, rid):
    R = rep.rule(rid, 'nonsymmetric cones: dual predicate for (dz, z), primal predicate for (ds, s); the three '
                      'implementations pass the same settings to backtrack_search (sibling agreement)')

    def body():
        sig = {}
        for K in ('ExponentialCone', 'PowerCone', 'GenPowerCone'):
            f = F.one(name='step_length', adt=K, trait='Cone')
            cs = calls_named(f, 'backtrack_search')
            R.check(len(cs) == 2, 'two-searches|%s%s' % (K, tag), '%s::step_length performs %d backtracking searches' % (K, len(cs)), f.loc())
            sigs = []
            for c in cs:
                a = [f.sym_operand(x) for x in c.args]
                dq, q = canon(a[0]), canon(a[1])
                clo = a[5]
                while clo[0] in ('ref', 'deref'):
                    clo = clo[1]
                pred = '?'
                if clo[0] == 'agg' and clo[1][0] == 'closure':
                    g = F.by_key[clo[1][1]][0]
                    names = [x.callee.name for x in g.calls]
                    pred = 'dual' if 'is_dual_feasible' in names else ('primal' if 'is_primal_feasible' in names else '?')
                want = {('arg2', 'arg4'): 'dual', ('arg3', 'arg5'): 'primal'}.get((dq, q))
                R.check(want is not None and pred == want, 'pairing|%s|%s%s' % (K, dq, tag),
                        '%s::step_length searches along (%s, %s) with the %s-cone membership test (expected %s)' % (
                            K, dq, q, pred, want), f.loc(c.sp))
                sigs.append((canon(a[2]), canon(a[3]), canon(a[4])))
            sig[K] = tuple(sigs)
        vals = list(sig.values())
        for K, s in sig.items():
            same = sum(1 for v in vals if v == s)
            R.check(same == len(vals) or same > len(vals) // 2, 'sibling|%s%s' % (K, tag),
                    '%s::step_length passes (alpha_init, alpha_min, step) = %s to backtrack_search while its '
                    'siblings pass %s' % (K, s, [v for v in vals if v != s][:1]), F.one(name='step_length', adt=K, trait='Cone').loc())
        for K, s in sig.items():
            for (ai, amin, st) in s:
                R.check(ai == 'arg7', 'alpha-init|%s%s' % (K, tag), '%s starts the search from %s, expected alpha_max' % (K, ai))

    R.guard(body)


def backtrack_validated(rep, F, tag, rid):
    """backtrack_search may hand back only a step it has itself tested: every return is either zero (the floor was passed) or the
    trial alpha whose point q + alpha*dq has just been found inside the cone; a loop exit that returns an untested trial
    (a bounded trial budget running out) leaves the cone."""
    R = rep.rule(rid, 'backtrack_search returns zero or the alpha whose trial point was just tested to be in the cone (no untested exit)')

    def body():
        f = F.one(name='backtrack_search')
        n = 0
        for val, ret, ev, tr in Walker(f, cut_loops=True).leaves():
            if ret[0] != 's':
                continue
            n += 1
            r = str(ret[1])
            if r == 'zero()':
                fl = [k for k, v in val.items() if k.startswith('lt(') and k.endswith(', arg4)') and v == 1] + [k for k, v in val.items() if k.startswith('le(arg4, ') and v == 0]
                R.check(bool(fl), 'zero-only-below-floor' + tag, 'backtrack_search returns zero on a path where alpha < alpha_min was not found (%s)' % val, f.loc())
                failed = [e for e in ev if e[0] == 'call' and e[1] == 'call' and str(e[2]).startswith('call(arg6, ') and val.get(str(e[2])) == 0]
                R.check(bool(failed), 'zero-only-after-failed-trial' + tag,
                        'backtrack_search gives up (returns zero) on a path that has not tested any trial point: the requested step itself must be tried first, whatever its size - '
                        'a feasible small step is otherwise needlessly refused', f.loc())
                continue
            tests = [i for i, e in enumerate(ev) if e[0] == 'call' and e[1] == 'call' and str(e[2]).startswith('call(arg6, ')]
            if not tests:
                R.bad('untested-return' + tag, 'backtrack_search returns %s on a path that never evaluates the membership test: the step is not known to stay in the cone' % r, f.loc())
                continue
            i = tests[-1]
            ok = val.get(str(ev[i][2])) == 1
            later = [e for e in ev[i + 1:] if (e[0] == 'call' and e[1] in ('mul_assign', 'waxpby')) or (e[0] == 'assign' and e[1] == 'α')]
            R.check(ok and not later, 'untested-return' + tag,
                    'backtrack_search returns %s after the membership test gave %s and then %s: the returned step is not the one tested' % (r, val.get(str(ev[i][2])), [e[1] for e in later]), f.loc())
            w = [e for e in ev[:i] if e[0] == 'call' and e[1] == 'waxpby']
            R.check(bool(w) and split_args(str(w[-1][2])) [0:3] == ['arg7', 'one()', 'arg2'] and split_args(str(w[-1][2]))[4] == 'arg1' and str(ev[i][2]) == 'call(arg6, tuple(arg7))', 'trial-point' + tag,
                    'the tested point is %s via %s, expected work = q + alpha*dq' % (ev[i][2], w[-1][2] if w else None), f.loc())
            if w:
                a = split_args(str(w[-1][2]))[3]
                R.check(a in (r, 'var:α') or r in ('var:α',), 'tested-alpha-returned' + tag, 'the trial uses alpha = %s but %s is returned' % (a, r), f.loc())
        R.check(n >= 2, 'returns' + tag, 'only %d returning paths of backtrack_search analysed' % n)

    R.guard(body)


def nn_ratio_test(rep, F, tag, rid):
    """The nonnegative cone's step length is the exact ratio test: component i limits the step iff its direction is negative - compared
    with zero, not with a tolerance (the test is scale invariant: z_i = 1e-17, dz_i = -1e-16 limits the step to 0.1) - and then by
    -z_i/dz_i; `<=` would divide by zero."""
    R = rep.rule(rid, 'nonnegative cone: component i limits the step iff dz_i < 0 (exactly zero as threshold), by -z_i/dz_i; same for s')

    def body():
        f = F.one(name='step_length', adt='NonnegativeCone', trait='Cone')
        n = 0
        for val, ret, ev, tr in Walker(f, cut_loops=True, local_stores=True).leaves():
            if ret[0] != 'cut':
                continue
            it = [k for k in val if k.startswith('discr(next(into_iter(Range::Range(0_usize, len(')]
            if not it or val[it[0]] != 1:
                continue
            I = it[0][len('discr('):-1] + '@Some.0'
            n += 1
            for d, q, a in (('arg2', 'arg4', 'αz'), ('arg3', 'arg5', 'αs')):
                tests = {k: v for k, v in val.items() if ('%s[%s]' % (d, I)) in k and k[:3] in ('lt(', 'le(')}
                want_k = 'lt(%s[%s], zero())' % (d, I)
                R.check(list(tests) == [want_k], 'guard|%s%s' % (a, tag),
                        'the ratio test of %s is guarded by %s, expected exactly %s[i] < 0: a tolerance skips tiny components of a badly scaled iterate (the step '
                        'then leaves the cone), <= divides by zero' % (a, sorted(k.replace(I, 'i') for k in tests), 'dz' if d == 'arg2' else 'ds'), f.loc())
                ups = [canon(f.sym_rvalue(e[4]['rv'])) for e in ev if e[0] == 'assign' and e[1] == a and isinstance(e[4], dict)]
                ups = [u for u in ups if u not in ('arg7',)]
                neg = tests.get(want_k)
                ratio = 'div(neg(%s[%s]), %s[%s])' % (q, I, d, I)
                if neg == 1:
                    R.check(ups in (['min(var:%s, %s)' % (a, ratio)], ['min(%s, var:%s)' % (ratio, a)]), 'ratio|%s%s' % (a, tag),
                            'with a negative direction %s is updated by %s, expected min(%s, -%s_i/d%s_i)' % (a, [u.replace(I, 'i') for u in ups], a, 'z' if q == 'arg4' else 's', 'z' if q == 'arg4' else 's'), f.loc())
                elif neg == 0:
                    R.check(not ups, 'no-limit|%s%s' % (a, tag), '%s is updated (%s) although the direction is not negative' % (a, [u.replace(I, 'i') for u in ups]), f.loc())
        R.check(n >= 4, 'paths' + tag, 'only %d iteration paths of NonnegativeCone::step_length analysed' % n, f.loc())
        r0 = [str(ret[1]) for val, ret, ev, tr in Walker(f, cut_loops=True).leaves() if ret[0] == 's']
        R.check(r0 == ['tuple(var:αz, var:αs)'], 'returns' + tag, 'NonnegativeCone::step_length returns %s' % r0, f.loc())

    R.guard(body)


def soc_stable_root(rep, F, tag, rid):
    """The limiting root of a x^2 + b x + c is formed as t = -b -/+ sqrt(d), r1 = 2c/t, r2 = t/(2a).  Only the variant in which -b and
    the square root have the *same sign* is free of cancellation: with the other pairing the root is rounded away whenever
    4ac << b^2 (a direction almost on the boundary of -K) and the step overshoots the cone.  An ordering property, like the two-stage shift."""
    R = rep.rule(rid, 'second-order cone: the quadratic root is formed without cancellation (t = -b - sqrt(d) iff b >= 0, -b + sqrt(d) otherwise)')

    def body():
        f = F.one(name='_step_length_soc_component')
        n = 0
        for val, ret, ev, tr in Walker(f, local_stores=True).leaves():
            ts = [str(e[2]) for e in ev if e[0] == 'assign' and e[1] == 't' and e[2] is not None]
            for t in ts:
                # -b - sqrt(d):  sub(neg(b), sqrt(d)) | neg(add(b, sqrt(d))) | neg(add(sqrt(d), b));   -b + sqrt(d):  add(neg(b), sqrt(d)) | add(sqrt(d), neg(b)) | sub(sqrt(d), b)
                op = B = None
                a_ = split_args(t) if '(' in t else []
                head = t[:t.index('(')] if '(' in t else ''
                sq = lambda x: x.startswith('sqrt(')
                ng = lambda x: x[4:-1] if x.startswith('neg(') and x.endswith(')') else None
                if head in ('sub', 'add') and len(a_) == 2:
                    if ng(a_[0]) is not None and sq(a_[1]):
                        op, B = head, ng(a_[0])
                    elif head == 'add' and sq(a_[0]) and ng(a_[1]) is not None:
                        op, B = 'add', ng(a_[1])
                    elif head == 'sub' and sq(a_[0]) and not sq(a_[1]):
                        op, B = 'add', a_[1]
                elif head == 'neg' and len(a_) == 1 and a_[0].startswith('add('):
                    b_ = split_args(a_[0])
                    if len(b_) == 2 and sq(b_[1]) and not sq(b_[0]):
                        op, B = 'sub', b_[0]
                    elif len(b_) == 2 and sq(b_[0]) and not sq(b_[1]):
                        op, B = 'sub', b_[1]
                if not R.check(op is not None, 'root-shape' + tag, 'the root helper t is %s, expected -b -/+ sqrt(d)' % t[:100], f.loc()):
                    continue
                sgn = None
                for k, v in val.items():
                    if k in ('le(zero(), %s)' % B, 'lt(zero(), %s)' % B):
                        sgn = 'nonneg' if v == 1 else 'neg'
                    if k in ('le(%s, zero())' % B, 'lt(%s, zero())' % B):
                        sgn = 'neg' if v == 1 else 'nonneg'
                n += 1
                R.check(sgn is not None and (op == 'sub') == (sgn == 'nonneg'), 'no-cancellation|%s%s' % (op, tag),
                        'on a path where b is %s the root helper is -b %s sqrt(d): -b and the square root then have opposite signs and cancel (the limiting root loses all '
                        'digits when 4ac << b^2); choose the sign that adds magnitudes' % ({'nonneg': '>= 0', 'neg': '< 0', None: 'of undecided sign'}[sgn], '-' if op == 'sub' else '+'), f.loc())
        R.check(n >= 2, 'paths' + tag, 'only %d root computations analysed' % n)

    R.guard(body)


def interior_shift(rep, F, tag, rid):
    """Initial shift into the cone interior.  In floating point z + (target - m) with a hugely negative margin m
    rounds (target - m) to -m and leaves the worst component exactly on the boundary; (z + target) - m loses the
    target the same way.  Only 'first cancel the margin, then add the target' is sign-exact after stage one
    (fl(z_i - m) >= 0 by monotone rounding) and strictly positive after stage two."""
    R = rep.rule(rid, 'shift into the cone interior: margin cancelled first, then target >= 1 added, as two separate '
                      'shifts; composite margin is the minimum over cones and the shift is forwarded unchanged')

    def body():
        f = F.one(name='_shift_to_cone_interior')
        leaves = [l for l in Walker(f, cut_loops=True).leaves() if l[1][0] != 'diverge']
        seen = set()
        for val, ret, ev, tr in leaves:
            calls = [split_args(e[2]) for e in ev if e[0] == 'call' and e[1] == 'scaled_unit_shift']
            mc = [e[2] for e in ev if e[0] == 'call' and e[1] == 'margins']
            if len(mc) != 1:
                R.bad('margins-call' + tag, 'margins is called %d times on a path' % len(mc), f.loc())
                continue
            MIN, POS = mc[0] + '.0', mc[0] + '.1'
            R.check(split_args(mc[0]) == ['arg2', 'arg1', 'arg3'], 'margins-args' + tag, 'margins(%s), expected (cones, z, pd)' % mc[0], f.loc())
            outside = [v for k, v in val.items() if k in ('le(%s, zero())' % MIN, 'lt(%s, zero())' % MIN)]
            if len(outside) != 1:
                R.bad('outside-test' + tag, 'no test of the minimum margin against zero on this path: %s' % list(val), f.loc())
                continue
            for a in calls:
                R.check(a[0] == 'arg2' and a[1] == 'arg1' and a[3] == 'arg3', 'shift-target' + tag,
                        'scaled_unit_shift(%s), expected (cones, z, ., pd)' % ', '.join(a), f.loc())
            amounts = [a[2] for a in calls]
            if outside[0]:
                seen.add('outside')
                ok = len(amounts) == 2 and amounts[0] == 'neg(%s)' % MIN and (amounts[1].startswith('max(one(), ') or amounts[1].endswith(', one())') and amounts[1].startswith('max('))
                R.check(ok, 'two-stage' + tag,
                        'with some component outside its cone the shifts are %s; required: first -min_margin (sign-exact), then '
                        'target = max(1, .) as a separate shift - a merged or reversed shift rounds the worst component onto the boundary' % amounts, f.loc())
                if ok:
                    TARGET = amounts[1]
            else:
                small = [(k, v) for k, v in val.items() if k.startswith('lt(%s, ' % MIN) and not k.endswith(', zero())')]
                if len(small) != 1:
                    R.bad('small-test' + tag, 'no test of the margin against the target on this path: %s' % list(val), f.loc())
                    continue
                tgt = small[0][0][len('lt(%s, ' % MIN):-1]
                R.check(tgt.startswith('max(one(), ') or (tgt.startswith('max(') and tgt.endswith(', one())')), 'target>=1' + tag,
                        'the target margin is %s, expected max(1, .)' % tgt, f.loc())
                if small[0][1]:
                    seen.add('small')
                    R.check(amounts == ['sub(%s, %s)' % (tgt, MIN)], 'small-margin' + tag, 'with 0 < margin < target the shifts are %s, expected target - margin' % amounts, f.loc())
                else:
                    seen.add('good')
                    R.check(amounts == ['zero()'], 'good-margin' + tag,
                            'with margin >= target the shifts are %s, expected one shift by zero (forces zero-cone entries to zero)' % amounts, f.loc())
        R.check(seen == {'outside', 'small', 'good'}, 'cases' + tag, 'cases analysed: %s' % sorted(seen), f.loc())
        # callers: s with the primal, z with the dual cone
        init = F.one(name='symmetric_initialization', adt='DefaultVariables')
        cs = calls_named(init, '_shift_to_cone_interior')
        got = sorted((canon(init.sym_operand(c.args[0])), const_variant(init.sym_operand(c.args[2])) or canon(init.sym_operand(c.args[2]))) for c in cs)
        R.check(got == [('self.s', 'PrimalCone'), ('self.z', 'DualCone')], 'callers' + tag, 'symmetric_initialization shifts %s, expected s in the primal and z in the dual cone' % got, init.loc())
        # composite: margin = min over cones from max_value; shift forwarded unchanged
        m = F.one(name='margins', adt='CompositeCone', trait='Cone')
        mins = [c for c in m.calls if c.callee.name == 'min']
        init_ok = any(c.callee.name == 'max_value' for c in m.calls)
        ok = len(mins) == 1 and init_ok
        if ok:
            a = [canon(m.sym_operand(x)) for x in mins[0].args]
            ok = any('margins(' in x and x.endswith('.0') for x in a)
        R.check(ok, 'composite-min' + tag, 'CompositeCone::margins does not fold the per-cone minimum margins with min from max_value', m.loc())
        for bi, si, st in m.assignments():
            pass
        sh = F.one(name='scaled_unit_shift', adt='CompositeCone', trait='Cone')
        inner = [c for c in sh.calls if c.callee.name == 'scaled_unit_shift']
        ok = len(inner) == 1
        if ok:
            a = [canon(sh.sym_operand(x)) for x in inner[0].args]
            ok = a[2] == 'arg3' and a[3] == 'arg4' and 'arg2' in a[1]
        R.check(ok, 'composite-forward' + tag, 'CompositeCone::scaled_unit_shift does not forward (alpha, pd) unchanged to every cone', sh.loc())

    R.guard(body)


def soc_scalar_cap(rep, F, tag, rid):
    """_step_length_soc_component: the step may not take the scalar part x0 + alpha*y0 below zero.  The quadratic
    root computation has three early exits that return alpha_max unchanged (complex roots, a == 0, c == 0): they are
    safe only because alpha_max was capped by -x0/y0 beforehand.  Every returning path must have decided the guard
    (x0 >= 0 and y0 < 0) and, when it holds, have applied the cap before it returns."""
    R = rep.rule(rid, 'second-order cone step length: the scalar-part cap min(alpha_max, -x0/y0) is applied before every return')

    def body():
        f = F.one(name='_step_length_soc_component')
        n = capped = 0
        for val, ret, ev, tr in Walker(f, cut_loops=True).leaves():
            if ret[0] == 'diverge':
                continue
            n += 1
            g1 = [v for k, v in val.items() if k in ('le(zero(), arg1[0_usize])', 'lt(zero(), arg1[0_usize])')]
            g2 = [v for k, v in val.items() if k in ('lt(arg2[0_usize], zero())',)]
            if not g1 and not g2:
                R.bad('guard-decided|%s%s' % (ret[1][:24], tag), 'a path returns %s without having tested whether the scalar part limits the step' % (ret[1],), f.loc())
                continue
            if g1 and g1[0] and g2 and g2[0]:
                CAP = 'div(neg(arg1[0_usize]), arg2[0_usize])'
                caps = [e for e in ev if e[0] == 'call' and e[1] == 'min' and CAP in e[2]]
                holders = set('var:' + e[1] for e in ev if e[0] == 'assign' and e[2] and CAP in str(e[2]))
                for e in ev:
                    if e[0] == 'assign' and isinstance(e[4], dict) and e[1]:
                        # a plain copy of the capped temporary into a named variable
                        v_ = canon(f.sym_rvalue(e[4]['rv']))
                        if CAP in v_:
                            holders.add('var:' + e[1])
                capped += 1
                r = str(ret[1])
                uses = CAP in r or r == 'zero()' or any(h_ in r for h_ in holders)
                R.check(len(caps) >= 1 and uses, 'cap-applied|%s%s' % (r[:24], tag),
                        'with x0 >= 0 and y0 < 0 a path returns %s, which does not derive from min(alpha_max, -x0/y0) (cap %s): the step can leave the '
                        'cone through its scalar part' % (r, 'computed but not used' if caps else 'missing'), f.loc())
        R.check(n >= 10 and capped >= 3, 'paths' + tag, 'only %d returning paths (%d with an active scalar cap) analysed' % (n, capped), f.loc())

    R.guard(body)


def soc_linear_case(rep, F, tag, rid):
    """_step_length_soc_component solves a alpha^2 + b alpha + c = 0 (c > 0 at an interior point).  When a == 0 the
    equation is linear: for b < 0 its root -c/b is positive and limits the step (direction on the boundary of -K),
    for b >= 0 there is no positive root.  A path that returns alpha_max under a == 0 without having decided the
    sign of b lets the step leave the cone (x = (1,0,0), y = (-1,1,0): boundary at 0.5, alpha_max = 1)."""
    R = rep.rule(rid, 'second-order cone step length: the degenerate case a == 0 is limited by the single root -c/b when b < 0')

    def body():
        f = F.one(name='_step_length_soc_component')
        n = 0
        for val, ret, ev, tr in Walker(f, cut_loops=True).leaves():
            if ret[0] == 'diverge':
                continue
            a0 = [v for k, v in val.items() if k in ('eq(_soc_residual(arg2), zero())', 'eq(var:a, zero())')]
            if not a0 or not a0[0]:
                continue
            n += 1
            bneg = [(k, v) for k, v in val.items() if _re_b.fullmatch(k)]
            key = 'linear|%s|%s' % (ret[1][:28], ','.join('%d' % v for k, v in bneg))
            if not bneg:
                R.bad('b-sign-decided|%s%s' % (ret[1][:28], tag),
                      'under a == 0 a path returns %s without testing the sign of b: for b < 0 the step must be limited by the root -c/b '
                      '(direction on the boundary of -K), e.g. x = (1,0,0), y = (-1,1,0) returns 1 where the boundary is at 1/2' % (ret[1],), f.loc())
                continue
            k, v = bneg[0]
            isneg = bool(v) if k.startswith('lt(') else (not bool(v))
            if isneg:
                caps = [e for e in ev if e[0] == 'call' and e[1] == 'min' and _re_root.search(e[2])]
                R.check(len(caps) >= 1 and ret[1] != 'arg3', key + tag,
                        'under a == 0 and b < 0 the path returns %s, expected min(alpha_max, -c/b)' % (ret[1],), f.loc())
            else:
                R.ok(key + tag, {'returns': ret[1]})
        R.check(n >= 1, 'a==0-paths' + tag, 'no returning path with a == 0 found (anchor drift)', f.loc())

    R.guard(body)


import re as _re_mod
_B = r'mul\(2f64, sub\(mul\(arg1\[0_usize\], arg2\[0_usize\]\), dot\(index\(arg1, RangeFrom::RangeFrom\(1_usize\)\), index\(arg2, RangeFrom::RangeFrom\(1_usize\)\)\)\)\)'
_re_b = _re_mod.compile(r'(lt\((%s|var:b), zero\(\)\)|le\(zero\(\), (%s|var:b)\))' % (_B, _B))
_re_root = _re_mod.compile(r'(div\(neg\(.*\), .*\)|neg\(div\(.*\)\)|div\(.*, neg\(.*\)\))')


def margins_definitions(rep, F, E, tag, rid):
    """margins(z) = (distance of z from the boundary, positive part) drives the shift into the interior: for the second-order
    cone it is z0 - |z1| over the *whole* tail (evaluated as a polynomial with a norm atom: an index slip z[2..] or a
    quotient form that is 0/0 at the origin is not this function), for the nonnegative cone min(z) and the sum of the
    positive parts, for the zero cone (max_value, 0)."""
    from engine.linform import LFSplit, P_atom, P_add, P_fmt, L_atom, L_dot, L_key, P_key
    R = rep.rule(rid, 'cone margins are the documented functions: SOC z0 - |z[1..]|, NN (min z, sum of positive parts), zero cone (max_value, 0)')

    def body():
        f = F.one(name='margins', adt='SecondOrderCone', trait='Cone')
        I = LFSplit(F, E, f, lambda k, s: None, {})
        st = None
        for val, ret, st_ in I.run({'arg2': ('P', P_atom('z0'), L_atom('Z1'))}):
            st = st_
        ret = canon(f.sym_local(0))
        parts = split_args(ret) if ret.startswith('tuple(') else []
        a = I.ev(st, f.sym_local(0)) if st is not None else None
        # evaluate the two components through the named temporaries or the tuple operands
        al = None
        if st is not None:
            for k, v in st.items():
                if k.startswith('var:') and v is not None and v[0] == 'S':
                    pass
        norm_atom = P_atom(('norm', L_key(L_atom('Z1'))))
        want = P_add(P_atom('z0'), norm_atom, -1)
        got = None
        if len(parts) == 2 and st is not None:
            cands = [v for k, v in st.items() if v is not None and v[0] == 'S' and v[1] == want]
            got = want if cands else None
        R.check(got is not None and len(parts) == 2 and parts[1] in ('max(zero(), %s)' % parts[0], 'max(%s, zero())' % parts[0]), 'soc' + tag,
                'SecondOrderCone::margins returns %s: expected (z0 - |z[1..]|, max(0, .)) - the minimum margin decides how far the start point is '
                'shifted into the cone' % ret[:160], f.loc())
        # ... and the norm is the Euclidean one (the linear-form domain writes every vector norm as one atom): with the infinity norm the margin
        # is over-estimated by |tail|_2 - |tail|_inf and the shifted point can stay outside the cone
        other = sorted(set(c.callee.name for c in f.calls if c.callee.name in ('norm_inf', 'norm_one', 'norm_1', 'norm_inf_scaled', 'norm_scaled', 'maximum', 'sum', 'sumsq_scaled')))
        R.check(not other, 'soc-euclidean' + tag, 'SecondOrderCone::margins measures the tail with %s: the distance to the boundary of the second-order cone is '
                'z0 minus the Euclidean norm of the tail' % other, f.loc())
        g = F.one(name='margins', adt='NonnegativeCone', trait='Cone')
        r = canon(g.sym_local(0))
        cl = [canon(c.sym_local(0)) for c in F.closures_of.get(g.key, [])]
        R.check(r == 'tuple(minimum(arg2), fold(iter(arg2), zero(), closure()))' and cl in (['add(arg2, max(arg3, zero()))'], ['add(arg2, max(zero(), arg3))'], ['add(max(arg3, zero()), arg2)'], ['add(max(zero(), arg3), arg2)']),
                'nn' + tag, 'NonnegativeCone::margins returns %s with fold %s: expected (min z, sum max(z_i, 0))' % (r, cl), g.loc())
        h = F.one(name='margins', adt='ZeroCone', trait='Cone')
        R.check(canon(h.sym_local(0)) == 'tuple(max_value(), zero())', 'zero' + tag, 'ZeroCone::margins returns %s, expected (max_value, 0)' % canon(h.sym_local(0)), h.loc())

    R.guard(body)


def barrier_trial_points(rep, F, tag, rid):
    """compute_barrier(z, s, dz, ds, alpha) evaluates the barrier at the trial point (z + alpha dz, s + alpha ds).  A component that pairs a point with
    the other direction (s[2] + alpha dz[2]) evaluates the barrier somewhere else: the centrality line search accepts or rejects the wrong steps, and the
    exponential cone's primal barrier is handed arguments outside the domain of its Wright-omega evaluation, which panics."""
    from .c14 import _txt_eval, _NoDerivative
    from engine.linform import RatF, P_atom, P_const
    R = rep.rule(rid, 'compute_barrier evaluates the barrier at (z + alpha dz, s + alpha ds): every component pairs a point with its own direction')

    def body():
        A = lambda n_: RatF(P_atom(n_))
        vecs = {'arg%d' % k: [A('v%d_%d' % (k, i)) for i in range(3)] for k in (2, 3, 4, 5)}
        scal = {'arg6': A('alpha')}
        PAIR = {'dual': ('arg2', 'arg4'), 'primal': ('arg3', 'arg5')}

        def comp_ok(txt, which, i):
            b, d = PAIR[which]
            try:
                got = _txt_eval(txt, scal, vecs)
            except _NoDerivative:
                return False
            want = vecs[b][i] + A('alpha') * vecs[d][i]
            return (got + want * RatF(P_const(-1))).is_zero()
        n = 0
        for K in ('ExponentialCone', 'PowerCone'):
            f = F.one(name='compute_barrier', adt=K)
            for val, ret, ev, tr in Walker(f, cut_loops=True, local_stores=True).leaves():
                if ret[0] == 'diverge':
                    continue
                seen = set()
                for e in ev:
                    if e[0] == 'call' and e[1] in ('barrier_dual', 'barrier_primal'):
                        which = e[1][len('barrier_'):]
                        seen.add(which)
                        a = split_args(str(e[2]))
                        comps = split_args(a[1]) if a[1].startswith('array(') else []
                        ok = len(comps) == 3 and all(comp_ok(c_, which, i) for i, c_ in enumerate(comps))
                        n += 1
                        R.check(ok, 'trial|%s|%s%s' % (K, which, tag), '%s::compute_barrier hands barrier_%s the point %s, expected %s[i] + alpha * %s[i] in every component' % (
                            K, which, [c_[:50] for c_ in comps] or a[1][:80], PAIR[which][0], PAIR[which][1]), f.loc())
                R.check(seen == {'dual', 'primal'}, 'both|%s%s' % (K, tag), '%s::compute_barrier evaluates %s' % (K, sorted(seen)), f.loc())
        f = F.one(name='compute_barrier', adt='GenPowerCone')
        for val, ret, ev, tr in Walker(f, cut_loops=True, local_stores=True).leaves():
            if ret[0] == 'diverge':
                continue
            last = None
            seen = set()
            for e in ev:
                if e[0] != 'call':
                    continue
                if e[1] == 'waxpby':
                    last = split_args(str(e[2]))
                elif e[1] in ('barrier_dual', 'barrier_primal'):
                    which = e[1][len('barrier_'):]
                    seen.add(which)
                    b, d = PAIR[which]
                    n += 1
                    ok = last is not None and last[1:] in ([ 'one()', b, 'arg6', d], ['arg6', d, 'one()', b]) and split_args(str(e[2]))[1] == last[0]
                    R.check(ok, 'trial|GenPowerCone|%s%s' % (which, tag), 'GenPowerCone::compute_barrier evaluates barrier_%s after waxpby(%s), expected work = %s + alpha * %s' % (
                        which, ', '.join(x[:20] for x in (last or [])), b, d), f.loc())
            R.check(seen == {'dual', 'primal'}, 'both|GenPowerCone' + tag, 'GenPowerCone::compute_barrier evaluates %s' % sorted(seen), f.loc())
        f = F.one(name='compute_barrier', adt='SecondOrderCone')
        rs = set()
        for val, ret, ev, tr in Walker(f, cut_loops=True).leaves():
            for e in ev:
                if e[0] == 'call' and 'soc_residual_shifted' in e[1]:
                    rs.add(tuple(split_args(str(e[2]))))
        n += len(rs)
        R.check(rs == {('arg2', 'arg4', 'arg6'), ('arg3', 'arg5', 'arg6')}, 'trial|SecondOrderCone' + tag,
                'SecondOrderCone::compute_barrier takes the shifted residuals of %s, expected (z, dz, alpha) and (s, ds, alpha)' % sorted(rs), f.loc())
        R.check(n >= 8, 'count' + tag, 'only %d trial points analysed' % n)

    R.guard(body)
