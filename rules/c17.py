"""C17 -- chordal analysis yields a valid clique tree (claimed in part: union-find / spanning-tree discipline and determinism)"""
import re
from engine.mir import last_seg, AnchorError, strip_generics
from engine.preds import canon, Walker
from .common import *

CONFIGS = ['full']
CONFIGS_THOROUGH = ['full', 'sdp']
TECHNIQUE = ('decision tables and store discipline of the union-find structure (MIR path rules), call-sequence rule on the Kruskal '
             'spanning-tree loop, call-graph rule for hash-order-dependent iteration')
EXPLANATION = (
    "Partial claim. Validity of the clique tree as a whole - every structural nonzero covered, separators = intersections with the parent, "
    "running-intersection property, block sizes, termination and panic-freedom of the supernode / merge code - is a graph-theoretic "
    "post-condition over runtime sets and is NOT decided. Decided on the MIR of the sdp/full configuration are necessary conditions of the "
    "clique-graph merge producing a spanning *tree*: (R1) DisjointSetUnion::root returns a fixed point of the parent array - the loop is left "
    "only when parent == parents[parent] for the moving variable, and path compression re-links a node only to one of its own ancestors "
    "(finding F9, fixed: the exit test and the compression were taken at the argument, so root() returned the grandparent); (R2) union links "
    "a root under a root (never an inner node), in either direction, and raises a rank only on equal ranks and only for the new root; "
    "in_same_set compares roots; (R3) Kruskal visits the edges in the order of the reversed weight sort, marks an edge exactly when its end "
    "points are in different sets and unites them, and stops after num_cliques - 1 edges; (R4) no hash-order-dependent iteration is "
    "reachable in the chordal module (C05.R2 re-run), so the tree is a function of the pattern.")
ASSUMPTIONS = ['rustc MIR construction and trait resolution are correct',
               'sortperm_rev / permute / findnz mean what their names say (C16 territory)']


def union_find(rep, F, tag):
    R = rep.rule('C17.R1', 'union-find: root() returns a fixed point of the parent array; compression re-links a node only to its own ancestor')

    def body():
        f = F.one(name='root', adt='DisjointSetUnion')
        ret = canon(f.sym_local(0))
        R.check(ret.startswith('var:'), 'returns-moving-variable' + tag, 'root returns %s, expected the moving variable of the loop' % ret, f.loc())
        mv = ret
        exits, stores, moves = [], [], []
        for val, rt, ev, tr in Walker(f, cut_loops=True).leaves():
            for k, v in val.items():
                if k.startswith(('ne(', 'eq(')):
                    (exits if rt[0] in ('s', 'c') else moves).append((k, v))
            for e in ev:
                if e[0] == 'store':
                    stores.append((str(e[1]), str(e[2])))
        # exit condition: the returned variable equals parents[<that variable>]
        want_exit = {('ne(index(self.parents, %s), %s)' % (mv, mv), 0), ('ne(%s, index(self.parents, %s))' % (mv, mv), 0),
                     ('eq(index(self.parents, %s), %s)' % (mv, mv), 1), ('eq(%s, index(self.parents, %s))' % (mv, mv), 1)}
        R.check(bool(exits) and all(x in want_exit for x in exits), 'fixed-point-exit' + tag,
                'root() leaves its loop under %s: the returned value must satisfy parents[r] == r, i.e. the test must index the parent array with '
                'the moving variable %s itself (testing parents[x] for the argument returns the grandparent of a node of depth >= 3: elements '
                'of one set are then reported as separate and Kruskal closes a cycle)' % (exits, mv), f.loc())
        for t, v in stores:
            m = re.fullmatch(r'index_mut\(self\.parents, (.*)\)', t)
            ok = m is not None and v == 'index(self.parents, index(self.parents, %s))' % m.group(1)
            R.check(ok, 'compression-to-ancestor' + tag, 'path compression stores %s into %s: a node may only be re-linked to its own grandparent' % (v, t), f.loc())

    R.guard(body)
    R2 = rep.rule('C17.R2', 'union links a root under a root and raises a rank only on equal ranks, for the new root; in_same_set compares roots')

    def body2():
        u = F.one(name='union', adt='DisjointSetUnion')
        rx, ry = 'root(self, arg2)', 'root(self, arg3)'
        n = 0
        for val, rt, ev, tr in Walker(u, cut_loops=True).leaves():
            if rt[0] == 'diverge':
                continue
            same = [v for k, v in val.items() if k in ('eq(%s, %s)' % (rx, ry), 'eq(%s, %s)' % (ry, rx))]
            st = [(str(e[1]), str(e[2])) for e in ev if e[0] == 'store']
            if same and same[0] == 1:
                R2.check(not st, 'same-set-no-op' + tag, 'union of two elements of one set writes %s' % st, u.loc())
                continue
            n += 1
            links = [(t, v) for t, v in st if t.startswith('index_mut(self.parents, ')]
            ok = len(links) == 1 and links[0] in (('index_mut(self.parents, %s)' % rx, ry), ('index_mut(self.parents, %s)' % ry, rx))
            R2.check(ok, 'links-roots|%d%s' % (n, tag), 'union links %s: exactly one root must be put under the other root' % links, u.loc())
            ranks = [(t, v) for t, v in st if t.startswith('index_mut(self.ranks, ')]
            if ranks:
                newroot = links[0][1] if links else None
                okr = len(ranks) == 1 and ranks[0][0] == 'index_mut(self.ranks, %s)' % newroot and any(k.startswith('discr(cmp(') and v == 0 for k, v in val.items())
                R2.check(okr, 'rank-discipline|%d%s' % (n, tag), 'union changes ranks %s under %s' % (ranks, {k[:30]: v for k, v in val.items()}), u.loc())
        R2.check(n == 3, 'union-cases' + tag, '%d linking cases of union analysed, expected 3 (greater / less / equal rank)' % n, u.loc())
        s = F.one(name='in_same_set', adt='DisjointSetUnion')
        r = canon(s.sym_local(0))
        R2.check(r in ('eq(%s, %s)' % (rx, ry), 'eq(%s, %s)' % (ry, rx)), 'in_same_set' + tag, 'in_same_set returns %s' % r, s.loc())

    R2.guard(body2)


def kruskal(rep, F, tag):
    R = rep.rule('C17.R3', 'Kruskal: edges in reversed weight order; an edge is marked iff its end points are in different sets, which are then united; stops after n-1 edges')

    def body():
        f = F.one(name='kruskal')
        sp = calls_named(f, 'sortperm_rev')
        pm = calls_named(f, 'permute')
        R.check(len(sp) == 1 and len(pm) == 2, 'sorted-edges' + tag, 'kruskal sorts with %d sortperm_rev and permutes %d index vectors' % (len(sp), len(pm)), f.loc())
        if len(sp) == 1 and len(pm) == 2:
            perm = canon(f.sym_operand(sp[0].args[0]))
            R.check(all(canon(f.sym_operand(c.args[2])) == perm for c in pm), 'same-permutation' + tag, 'row and column indices are not permuted with the weight ordering', f.loc())
            R.check(all(f.dominates(sp[0].bb, c.bb) for c in pm), 'sort-before-permute' + tag, 'the permutation is used before it is computed', f.loc())
        n = 0
        for val, rt, ev, tr in Walker(f, cut_loops=True).leaves():
            if rt[0] not in ('cut', 's'):
                continue
            ins = [(k, v) for k, v in val.items() if k.startswith('in_same_set(')]
            if not ins:
                continue
            n += 1
            k, v = ins[0]
            names = [e[1] for e in ev if e[0] == 'call']
            marked = any(e[0] == 'store' and ('nzval' in str(e[1]) or 'index_mut(arg1' in str(e[1])) and str(e[2]) in ('-1', '-1_isize', '18446744073709551615', 'neg(1_isize)') for e in ev)
            united = 'union' in names
            R.check((v == 0) == marked and (v == 0) == united, 'edge-rule|%d%s' % (v, tag),
                    'with in_same_set = %d the edge is %smarked and the sets are %sunited' % (v, '' if marked else 'not ', '' if united else 'not '), f.loc())
            if united:
                a = [e[2] for e in ev if e[0] == 'call' and e[1] == 'union'][0]
                b = [e[2] for e in ev if e[0] == 'call' and e[1] == 'in_same_set'][0]
                R.check(split_args(a)[1:] == split_args(b)[1:], 'same-endpoints' + tag, 'union%s vs in_same_set%s' % (split_args(a)[1:], split_args(b)[1:]), f.loc())
        R.check(n >= 2, 'edge-paths' + tag, 'only %d edge paths analysed' % n, f.loc())
        stops = set()
        for val, rt, ev, tr in Walker(f, cut_loops=True).leaves():
            for k, v in val.items():
                if 'num_edges_found' in k or ('sub(arg2, 1_usize)' in k.replace('withoverflow', '').replace(').0', ')')):
                    stops.add(k.replace('withoverflow', '').replace(').0', ')'))
        R.check(any(re.fullmatch(r'le\(sub\(arg2, 1_usize\), .*\)', k) for k in stops), 'stops-at-n-1' + tag, 'no stop test against num_cliques - 1 found (%s)' % sorted(stops), f.loc())

    R.guard(body)


def run(ctx, rep, tier):
    for cfg in (CONFIGS_THOROUGH if tier == 'thorough' else CONFIGS):
        F = ctx.facts(cfg)
        tag = '[%s]' % cfg
        union_find(rep, F, tag)
        kruskal(rep, F, tag)
    from . import c05, c04
    for cfg in CONFIGS:
        c05.hash_order(c04._Ren(rep, 'C05.R2', 'C17.R4'), ctx.facts(cfg), ctx.cg(cfg), '[%s]' % cfg)
