"""C17 -- chordal analysis yields a valid clique tree (claimed in part: union-find / spanning-tree discipline and determinism)"""
import re
from engine.mir import last_seg, AnchorError, strip_generics
from engine.preds import canon, Walker
from .common import *

CONFIGS = ['full']
CONFIGS_THOROUGH = ['full', 'sdp']
TECHNIQUE = ('decision tables and store discipline of the union-find structure (MIR path rules), call-sequence rule on the Kruskal '
             'spanning-tree loop, call-graph rule for hash-order-dependent iteration, path rule on connect_graph (structural entry inserted with a nonzero constant)')
EXPLANATION = (
    "Partial claim. Validity of the clique tree as a whole - every structural nonzero covered, separators = intersections with the parent, "
    "running-intersection property, block sizes, termination and panic-freedom of the supernode / merge code - is a graph-theoretic "
    "post-condition over runtime sets and is NOT decided. Decided on the MIR of the sdp/full configuration are necessary conditions of the "
    "clique-graph merge producing a spanning *tree*: (R1) DisjointSetUnion::root returns a fixed point of the parent array - the loop is left "
    "only when parent == parents[parent] for the moving variable, and path compression re-links a node only to one of its own ancestors "
    "(finding F9, fixed: the exit test and the compression were taken at the argument, so root() returned the grandparent); (R2) union links "
    "a root under a root (never an inner node), in either direction, and raises a rank only on equal ranks and only for the new root; "
    "in_same_set compares roots; (R3) Kruskal visits the edges in the order of the reversed weight sort, marks an edge exactly when its end "
    "points are in different sets and unites them, and stops after num_cliques - 1 edges; (R4) no hash-order-dependent iteration is "
    "reachable in the chordal module (C05.R2 re-run), so the tree is a function of the pattern."
    " (R5) connect_graph links every column without sub-diagonal entry to its successor with a nonzero structural entry (set_entry discards new zeros), for columns 0..n-1, and find_graph returns the connected pattern."
    " (R6) clique-graph merge: the removed clique is deleted from the adjacency table and purged from every remaining adjacency set; (R7) every test that decodes the signed supernode array of pothen_sun is `< 0` (0 is a valid representative), the unassigned test is `== -1`; (R8) clique_tree_from_graph recomputes the edge weights as intersection sizes unconditionally before Kruskal, then parents, post-order, split."
    " (R9) the generic merge loop stops when one clique is left, whatever the strategy; connect_graph takes no copy of the index arrays it mutates."
    " R9 also: merge_cliques calls post_process_merge on every return. (R10) set_entry keeps columns sorted (insertion at the partition point), which get_entry's binary search on the clique-graph edge matrix relies on (C16.R14 re-run)."
    ' (R11) merge_two_cliques: the survivor receives the union and only sets of the absorbed clique are emptied; (R12) sortperm is called with a permutation slice cut to the current number of edges (the workspace is sized once, the edge set shrinks).')
ASSUMPTIONS = ['rustc MIR construction and trait resolution are correct',
               'sortperm_rev / permute / findnz mean what their names say (C16 territory)']


def union_find(rep, F, tag):
    R = rep.rule('C17.R1', 'union-find: root() returns a fixed point of the parent array; compression re-links a node only to its own ancestor')

    def body():
        f = F.one(name='root', adt='DisjointSetUnion')
        ret = canon(f.sym_local(0))
        R.check(ret.startswith('var:'), 'returns-moving-variable' + tag, 'root returns %s, expected the moving variable of the loop' % ret, f.loc())
        mv = ret
        exits, stores, moves = [], [], []
        for val, rt, ev, tr in Walker(f, cut_loops=True).leaves():
            for k, v in val.items():
                if k.startswith(('ne(', 'eq(')):
                    (exits if rt[0] in ('s', 'c') else moves).append((k, v))
            for e in ev:
                if e[0] == 'store':
                    stores.append((str(e[1]), str(e[2])))
        # exit condition: the returned variable equals parents[<that variable>]
        want_exit = {('ne(index(self.parents, %s), %s)' % (mv, mv), 0), ('ne(%s, index(self.parents, %s))' % (mv, mv), 0),
                     ('eq(index(self.parents, %s), %s)' % (mv, mv), 1), ('eq(%s, index(self.parents, %s))' % (mv, mv), 1)}
        R.check(bool(exits) and all(x in want_exit for x in exits), 'fixed-point-exit' + tag,
                'root() leaves its loop under %s: the returned value must satisfy parents[r] == r, i.e. the test must index the parent array with '
                'the moving variable %s itself (testing parents[x] for the argument returns the grandparent of a node of depth >= 3: elements '
                'of one set are then reported as separate and Kruskal closes a cycle)' % (exits, mv), f.loc())
        for t, v in stores:
            m = re.fullmatch(r'index_mut\(self\.parents, (.*)\)', t)
            ok = m is not None and v == 'index(self.parents, index(self.parents, %s))' % m.group(1)
            R.check(ok, 'compression-to-ancestor' + tag, 'path compression stores %s into %s: a node may only be re-linked to its own grandparent' % (v, t), f.loc())

    R.guard(body)
    R2 = rep.rule('C17.R2', 'union links a root under a root and raises a rank only on equal ranks, for the new root; in_same_set compares roots')

    def body2():
        u = F.one(name='union', adt='DisjointSetUnion')
        rx, ry = 'root(self, arg2)', 'root(self, arg3)'
        n = 0
        for val, rt, ev, tr in Walker(u, cut_loops=True).leaves():
            if rt[0] == 'diverge':
                continue
            same = [v for k, v in val.items() if k in ('eq(%s, %s)' % (rx, ry), 'eq(%s, %s)' % (ry, rx))]
            st = [(str(e[1]), str(e[2])) for e in ev if e[0] == 'store']
            if same and same[0] == 1:
                R2.check(not st, 'same-set-no-op' + tag, 'union of two elements of one set writes %s' % st, u.loc())
                continue
            n += 1
            links = [(t, v) for t, v in st if t.startswith('index_mut(self.parents, ')]
            ok = len(links) == 1 and links[0] in (('index_mut(self.parents, %s)' % rx, ry), ('index_mut(self.parents, %s)' % ry, rx))
            R2.check(ok, 'links-roots|%d%s' % (n, tag), 'union links %s: exactly one root must be put under the other root' % links, u.loc())
            ranks = [(t, v) for t, v in st if t.startswith('index_mut(self.ranks, ')]
            if ranks:
                newroot = links[0][1] if links else None
                okr = len(ranks) == 1 and ranks[0][0] == 'index_mut(self.ranks, %s)' % newroot and any(k.startswith('discr(cmp(') and v == 0 for k, v in val.items())
                R2.check(okr, 'rank-discipline|%d%s' % (n, tag), 'union changes ranks %s under %s' % (ranks, {k[:30]: v for k, v in val.items()}), u.loc())
        R2.check(n == 3, 'union-cases' + tag, '%d linking cases of union analysed, expected 3 (greater / less / equal rank)' % n, u.loc())
        s = F.one(name='in_same_set', adt='DisjointSetUnion')
        r = canon(s.sym_local(0))
        R2.check(r in ('eq(%s, %s)' % (rx, ry), 'eq(%s, %s)' % (ry, rx)), 'in_same_set' + tag, 'in_same_set returns %s' % r, s.loc())

    R2.guard(body2)


def kruskal(rep, F, tag):
    R = rep.rule('C17.R3', 'Kruskal: edges in reversed weight order; an edge is marked iff its end points are in different sets, which are then united; stops after n-1 edges')

    def body():
        f = F.one(name='kruskal')
        sp = calls_named(f, 'sortperm_rev')
        pm = calls_named(f, 'permute')
        R.check(len(sp) == 1 and len(pm) == 2, 'sorted-edges' + tag, 'kruskal sorts with %d sortperm_rev and permutes %d index vectors' % (len(sp), len(pm)), f.loc())
        if len(sp) == 1 and len(pm) == 2:
            perm = canon(f.sym_operand(sp[0].args[0]))
            R.check(all(canon(f.sym_operand(c.args[2])) == perm for c in pm), 'same-permutation' + tag, 'row and column indices are not permuted with the weight ordering', f.loc())
            R.check(all(f.dominates(sp[0].bb, c.bb) for c in pm), 'sort-before-permute' + tag, 'the permutation is used before it is computed', f.loc())
        n = 0
        for val, rt, ev, tr in Walker(f, cut_loops=True).leaves():
            if rt[0] not in ('cut', 's'):
                continue
            ins = [(k, v) for k, v in val.items() if k.startswith('in_same_set(')]
            if not ins:
                continue
            n += 1
            k, v = ins[0]
            names = [e[1] for e in ev if e[0] == 'call']
            marked = any(e[0] == 'store' and ('nzval' in str(e[1]) or 'index_mut(arg1' in str(e[1])) and str(e[2]) in ('-1', '-1_isize', '18446744073709551615', 'neg(1_isize)') for e in ev)
            united = 'union' in names
            R.check((v == 0) == marked and (v == 0) == united, 'edge-rule|%d%s' % (v, tag),
                    'with in_same_set = %d the edge is %smarked and the sets are %sunited' % (v, '' if marked else 'not ', '' if united else 'not '), f.loc())
            if united:
                a = [e[2] for e in ev if e[0] == 'call' and e[1] == 'union'][0]
                b = [e[2] for e in ev if e[0] == 'call' and e[1] == 'in_same_set'][0]
                R.check(split_args(a)[1:] == split_args(b)[1:], 'same-endpoints' + tag, 'union%s vs in_same_set%s' % (split_args(a)[1:], split_args(b)[1:]), f.loc())
        R.check(n >= 2, 'edge-paths' + tag, 'only %d edge paths analysed' % n, f.loc())
        stops = set()
        for val, rt, ev, tr in Walker(f, cut_loops=True).leaves():
            for k, v in val.items():
                if 'num_edges_found' in k or ('sub(arg2, 1_usize)' in k.replace('withoverflow', '').replace(').0', ')')):
                    stops.add(k.replace('withoverflow', '').replace(').0', ')'))
        R.check(any(re.fullmatch(r'le\(sub\(arg2, 1_usize\), .*\)', k) for k in stops), 'stops-at-n-1' + tag, 'no stop test against num_cliques - 1 found (%s)' % sorted(stops), f.loc())

    R.guard(body)


def connected_pattern(rep, F, tag):
    """The supernodal elimination tree is computed from the filled pattern L; it is a tree (one root) only if L's graph is connected.
    connect_graph guarantees that by inserting a sub-diagonal entry (j+1, j) into every column that has no entry below its diagonal.
    The entry is structural, but CscMatrix::set_entry discards a *new* entry whose value is zero - so the inserted value must be a
    nonzero constant, it must go to (j+1, j), exactly in the columns found unconnected, for every column but the last."""
    R = rep.rule('C17.R5', 'connect_graph links every column without a sub-diagonal entry to its successor with a nonzero structural entry; find_graph returns the connected pattern')

    def body():
        f = F.one(name='connect_graph')
        se = F.one(name='set_entry', adt='CscMatrix')
        drops_zero = any(k.startswith('eq(arg3, zero())') or k.startswith('ne(arg3, zero())') for val, ret, ev, tr in Walker(se, cut_loops=True).leaves() for k in val)
        OUT = 'discr(next(into_iter(Range::Range(0_usize, subwithoverflow(ncols(arg1), 1_usize).0))))'
        J = OUT[len('discr('):-1] + '@Some.0'
        n_ins = n_skip = 0
        for val, ret, ev, tr in Walker(f, cut_loops=True).leaves():
            if ret[0] == 'diverge':
                continue
            outer = [k for k in val if k.startswith('discr(next(into_iter(Range::Range(')]
            R.check(all(k == OUT for k in outer), 'all-but-last-column' + tag, 'connect_graph loops over %s, expected columns 0 .. n-1' % [k[5:80] for k in outer], f.loc())
            if not outer or val[outer[0]] != 1:
                continue
            inner = [k for k in val if k.startswith('discr(next(into_iter(index(arg1.rowval, Range::Range(index(arg1.colptr, %s)' % J)]
            below = [k for k in val if k.startswith('lt(%s, ' % J) and 'arg1.rowval' in k]
            calls = [split_args(str(e[2])) for e in ev if e[0] == 'call' and e[1] == 'set_entry']
            found = any(val[k] == 1 for k in below)
            exhausted = bool(inner) and val[inner[0]] == 0
            if found:
                n_skip += 1
                R.check(not calls, 'insert-only-if-unconnected' + tag, 'an entry is inserted into a column that already has a sub-diagonal entry', f.loc())
            elif exhausted:
                n_ins += 1
                want_pos = 'tuple(addwithoverflow(%s, 1_usize).0, %s)' % (J, J)
                ok = len(calls) == 1 and calls[0][0] == 'arg1' and calls[0][1] == want_pos
                R.check(ok, 'insert-subdiagonal' + tag, 'a column without sub-diagonal entry gets %s, expected set_entry(L, (j+1, j), .)' % [c[1][:100] for c in calls], f.loc())
                if len(calls) == 1:
                    v = calls[0][2]
                    nonzero = v == 'one()' or (_re_num(v) is not None and _re_num(v) != 0.0)
                    R.check(nonzero or not drops_zero, 'insert-nonzero' + tag,
                            'the linking entry is inserted with the value %s, but CscMatrix::set_entry discards new entries that compare equal to zero: nothing is '
                            'inserted, the pattern stays disconnected and the supernode tree has several roots' % v, f.loc())
        R.check(n_ins >= 1 and n_skip >= 1, 'paths' + tag, 'connect_graph: %d inserting / %d skipping column paths analysed' % (n_ins, n_skip), f.loc())
        R.check(any('rowval' in k and 'colptr' in k for val, ret, ev, tr in Walker(f, cut_loops=True).leaves() for k in val), 'scans-column' + tag, 'connect_graph does not scan the stored rows of column j', f.loc())
        g = F.one(name='find_graph')
        cs = calls_named(g, 'connect_graph')
        R.check(len(cs) == 1 and all(g.dominates(cs[0].bb, r) for r in g.returns), 'called' + tag, 'find_graph does not call connect_graph on every path to its return', g.loc())
        if cs:
            a = canon(g.sym_operand(cs[0].args[0]))
            r0 = canon(g.sym_local(0))
            R.check(r0.startswith('tuple(%s, ' % a), 'returns-connected' + tag, 'find_graph connects %s but returns %s' % (a, r0[:80]), g.loc())

    R.guard(body)


def _re_num(v):
    m = re.fullmatch(r'(-?\d+(\.\d+)?)(f64|f32|_\w+)?', v)
    return float(m.group(1)) if m else None


def representative_encoding(rep, F, tag):
    """pothen_sun encodes supernode membership in one signed array: snode_index[v] < 0 marks v as the representative of its supernode
    (the magnitude counts members), a value >= 0 is the *index of the representative* - and 0 is a valid vertex (the one eliminated
    first).  Every place that decodes the array must therefore test `< 0`; `<= 0` (or `< 1`) treats "member of supernode 0" as
    "representative", and supernode 0 then never receives its tree parent.  Belief-contradiction rule: all decoding sites agree."""
    R = rep.rule('C17.R7', 'pothen_sun: every test that decodes snode_index compares with `< 0` (0 is a valid representative); the unassigned test is `== -1`')

    def body():
        f = F.one(name='pothen_sun')
        INIT = 'from_elem(-1_isize, len(arg1))'
        sites = set()
        for val, ret, ev, tr in Walker(f, cut_loops=True).leaves():
            for k in val:
                if ('index(%s, ' % INIT) in k and k[:3] in ('lt(', 'le(', 'eq(', 'ne('):
                    sites.add(k)
        for g in F.closures_of.get(f.key, []):
            c0 = canon(g.sym_local(0))
            if 'isize' in c0:
                sites.add('closure:' + c0)
        dec = 0
        for k in sorted(sites):
            if k.startswith('closure:'):
                ok = k == 'closure:lt(arg2, 0_isize)'
                dec += 1
            elif k.startswith(('eq(', 'ne(')):
                ok = re.fullmatch(r'(eq|ne)\(-1_isize, index\(.*\)\)|(eq|ne)\(index\(.*\), -1_isize\)', k) is not None
            else:
                ok = re.fullmatch(r'lt\(index\(.*\), 0_isize\)', k) is not None
                dec += 1
            R.check(ok, 'decode|%s%s' % (re.sub(r'index\(from_elem\(-1_isize, len\(arg1\)\), ', 'snode_index[', k)[:70], tag),
                    'pothen_sun decodes the signed supernode array with %s: representatives are the entries < 0 and 0 is a valid representative index, so the only '
                    'admissible tests are `< 0` (and `== -1` for "not yet assigned")' % k.replace(INIT, 'snode_index')[:160], f.loc())
        R.check(dec >= 3, 'decode-sites' + tag, 'only %d decoding tests of snode_index found in pothen_sun' % dec, f.loc())

    R.guard(body)


def merge_bookkeeping(rep, F, tag):
    """After two cliques are merged in the clique-graph strategy the removed clique must disappear from the adjacency structure
    completely: its own row is removed and it is deleted from *every* remaining adjacency set.  Purging only a subset (e.g. the
    survivor's neighbours) leaves a stale id behind that resurfaces when the survivor is absorbed later (lookup of a missing key)."""
    R = rep.rule('C17.R6', 'clique-graph merge: the removed clique is deleted from the adjacency table and purged from every remaining adjacency set')

    def body():
        us = [x for x in F.find(name='update_strategy') if 'CliqueGraph' in (x.impl_self or '') + (x.impl_adt or '')]
        if len(us) != 1:
            raise AnchorError('CliqueGraphMergeStrategy::update_strategy matched %d functions' % len(us))
        u = us[0]
        removed = purge = None
        others = []
        for val, ret, ev, tr in Walker(u, cut_loops=True).leaves():
            for e in ev:
                if e[0] == 'call' and e[1] == 'remove' and str(e[2]).startswith('remove(self.adjacency_table, '):
                    removed = split_args(str(e[2]))[1]
                if e[0] == 'call' and e[1] in ('shift_remove', 'swap_remove', 'remove'):
                    a = split_args(str(e[2]))
                    if re.fullmatch(r'next\(into_iter\((values_mut|iter_mut)\(self\.adjacency_table\)\)\)@Some\.0(\.1)?', a[0]):
                        purge = a[1]
                    elif 'adjacency_table' in a[0] and a[0] != 'self.adjacency_table':
                        others.append((a[0][:80], a[1][:40]))
        R.check(removed is not None, 'row-removed' + tag, 'update_strategy does not remove the merged clique\'s row from the adjacency table', u.loc())
        R.check(purge is not None and purge == removed, 'purged-everywhere' + tag,
                'the removed clique %s is purged from %s: it must be deleted from every remaining adjacency set (a loop over all values of the table), otherwise a stale '
                'id survives in the sets that were skipped and is looked up after a later merge' % (removed, 'all sets: ' + str(purge) if purge else 'only %s' % others[:3]), u.loc())

    R.guard(body)


def tree_from_graph(rep, F, tag):
    """A clique tree is a maximum-weight spanning tree of the clique graph *when the weights are the intersection sizes*.  During merging the
    edges carry the merge scores; clique_tree_from_graph must rewrite them (clique_intersections over the current cliques) on every
    path before Kruskal runs, then derive parents, post-order and the supernode / separator split, in that order."""
    R = rep.rule('C17.R8', 'clique_tree_from_graph: edge weights are recomputed as intersection sizes unconditionally before Kruskal; then parents, post-order, split')

    def body():
        f = F.one(name='clique_tree_from_graph')
        order = ['clique_intersections', 'kruskal', 'determine_parent_cliques', 'post_order', 'split_cliques']
        cs = {nm: calls_named(f, nm) for nm in order}
        for nm in order:
            R.check(len(cs[nm]) == 1, 'step|%s%s' % (nm, tag), 'clique_tree_from_graph calls %s %d times' % (nm, len(cs[nm])), f.loc())
        if not all(len(cs[nm]) == 1 for nm in order):
            return
        pd = f.postdominators()
        for a, b in zip(order, order[1:]):
            ca, cb = cs[a][0], cs[b][0]
            R.check(f.dominates(ca.bb, cb.bb) and ca.bb != cb.bb, 'before|%s|%s%s' % (a, b, tag),
                    '%s does not precede %s on every path%s' % (a, b, ': Kruskal would maximise the merge scores left on the edges, and the spanning tree need not be a clique tree' if a == 'clique_intersections' else ''), f.loc(cb.sp))
        for nm in order:
            R.check(cs[nm][0].bb in pd.get(0, set()) or cs[nm][0].bb == 0, 'unconditional|%s%s' % (nm, tag), '%s is skipped on some path through clique_tree_from_graph' % nm, f.loc(cs[nm][0].sp))
        a = [canon(f.sym_operand(x)) for x in cs['clique_intersections'][0].args]
        k = [canon(f.sym_operand(x)) for x in cs['kruskal'][0].args]
        R.check(a == ['self.edges', 'arg2.snode'] and k == ['self.edges', 'arg2.n_cliques'], 'arguments' + tag, 'clique_intersections(%s), kruskal(%s)' % (a, k), f.loc())

    R.guard(body)


def merge_loop(rep, F, tag):
    """The generic merge loop must stop as soon as a single clique is left, for every strategy: traverse() of the clique-graph strategy
    takes the maximum over an edge set that is empty by then (findmax(..).unwrap()).  The stop belongs to the loop itself (a stop
    delegated to update_strategy has to be mirrored in every strategy); and connect_graph must not read L's index arrays through a
    copy taken before it starts inserting entries."""
    R = rep.rule('C17.R9', 'merge_cliques leaves its loop when one clique is left, whatever the strategy; connect_graph reads the live column pointers')

    def body():
        f = F.one(name='merge_cliques')
        n = 0
        for val, ret, ev, tr in Walker(f, cut_loops=True).leaves():
            calls = [e[1] for e in ev if e[0] == 'call']
            if 'update_strategy' not in calls:
                continue
            n += 1
            one = [v for k, v in val.items() if k in ('eq(1_usize, arg2.n_cliques)', 'eq(arg2.n_cliques, 1_usize)')] + [1 - v for k, v in val.items() if k in ('ne(1_usize, arg2.n_cliques)', 'lt(1_usize, arg2.n_cliques)')]
            if not R.check(bool(one), 'single-clique-test' + tag,
                           'a pass of the merge loop ends without testing n_cliques == 1: the next pass calls traverse() on a tree with a single clique (empty edge set: '
                           'unwrap on None in the clique-graph strategy)', f.loc()):
                continue
            R.check((ret[0] == 's') == (one[0] == 1), 'single-clique-stops|%d%s' % (one[0], tag), 'with n_cliques == 1 being %s the loop %s' % (bool(one[0]), 'continues' if ret[0] == 'cut' else 'stops'), f.loc())
        R.check(n >= 2, 'passes' + tag, 'only %d merge-loop passes analysed' % n, f.loc())
        # whichever way the loop is left, the strategy's post-processing runs (for the clique-graph strategy it is what rebuilds the tree)
        for val, ret, ev, tr in Walker(f, cut_loops=True).leaves():
            if ret[0] == 's':
                R.check(any(e[0] == 'call' and e[1] == 'post_process_merge' for e in ev), 'post-process-on-every-exit' + tag,
                        'merge_cliques returns under %s without calling post_process_merge' % {k[:40]: v for k, v in val.items()}, f.loc())
        g = F.one(name='connect_graph')
        snap = [canon(g.sym_operand(c.args[0])) for c in g.calls if c.callee.name in ('clone', 'to_vec', 'to_owned', 'clone_from') and c.args and canon(g.sym_operand(c.args[0])) in ('arg1.colptr', 'arg1.rowval')]
        R.check(not snap, 'no-stale-snapshot' + tag,
                'connect_graph copies %s and then inserts entries into L (set_entry shifts every later column pointer): later columns are scanned through a stale window' % snap, g.loc())

    R.guard(body)


def merge_roles(rep, F, tag):
    """A merge has a survivor and an absorbed clique.  The survivor receives the union of the vertex sets; what is emptied afterwards - vertex
    set, separator, child list - belongs to the absorbed clique only.  Clearing a set of the survivor (its separator, say) removes the
    vertices it shares with its own parent: entries of the sparsity pattern end up in no clique."""
    R = rep.rule('C17.R11', 'merge_two_cliques: the survivor gets the union, and only sets of the absorbed clique are emptied')

    def body():
        n = 0
        for f in F.find(name='merge_two_cliques'):
            if 'NoMerge' in (f.impl_self or ''):
                continue
            leaves = [l for l in Walker(f, cut_loops=True, local_stores=True).leaves() if l[1][0] != 'diverge']
            un = set()
            for val, ret, ev, tr in leaves:
                for e in ev:
                    if e[0] == 'call' and e[1] == 'set_union_into_indexed' and str(e[2]).startswith('set_union_into_indexed(arg2.snode, '):
                        un.add(tuple(split_args(str(e[2]))[1:]))
            if not R.check(len(un) == 1, 'one-union|%s%s' % (f.impl_self, tag), 'the vertex sets are united %s times' % len(un), f.loc()):
                continue
            S, A = list(un)[0]
            n += 1
            R.check(S != A, 'distinct|%s%s' % (f.impl_self, tag), 'survivor and absorbed clique are the same expression %s' % S, f.loc())
            cleared = set()
            for val, ret, ev, tr in leaves:
                for e in ev:
                    if e[0] == 'call' and e[1] == 'clear':
                        m = re.fullmatch(r'clear\(index_mut\(arg2\.(\w+), (.*)\)\)', str(e[2]))
                        if not R.check(m is not None, 'clear-form|%s%s' % (f.impl_self, tag), 'unrecognised clear: %s' % str(e[2])[:120], f.loc()):
                            continue
                        cleared.add(m.group(1))
                        R.check(m.group(2) == A, 'clears-absorbed|%s|%s%s' % (m.group(1), f.impl_self, tag),
                                'merge_two_cliques empties %s[%s], which is not the absorbed clique %s: the surviving clique loses vertices it shares with its parent '
                                '(entries of the pattern are then covered by no clique)' % (m.group(1), m.group(2)[:60], A[:60]), f.loc())
                    if e[0] == 'call' and e[1] == 'set_union_into_indexed':
                        a = split_args(str(e[2]))
                        R.check(a[1:] == [S, A], 'union-direction|%s%s' % (f.impl_self, tag), '%s is united as (%s <- %s), the vertex sets as (%s <- %s)' % (a[0], a[1][:40], a[2][:40], S[:40], A[:40]), f.loc())
            need = {'snode'} | ({'separators', 'snode_children'} if 'ParentChild' in (f.impl_self or '') else set())
            R.check(need <= cleared, 'absorbed-emptied|%s%s' % (f.impl_self, tag), 'the absorbed clique keeps %s' % sorted(need - cleared), f.loc())
        R.check(n >= 2, 'strategies' + tag, 'only %d merging strategies analysed' % n)

    R.guard(body)


def workspace_lengths(rep, F, tag):
    """sortperm* require p and v of equal length (they assert it).  The clique-graph strategy keeps a permutation workspace sized for the
    initial edge set, and the edge set shrinks with every merge: the workspace must be cut to the current number of edges at the call."""
    R = rep.rule('C17.R12', 'sortperm is called with a permutation slice cut to the length of the values it sorts')

    def body():
        n = 0
        for f in F.fns:
            if 'src/solver/chordal/' not in f.file:
                continue
            for c in f.calls:
                if c.callee.name not in ('sortperm', 'sortperm_rev', 'sortperm_by'):
                    continue
                n += 1
                p_ = canon(f.sym_operand(c.args[0]))
                v_ = canon(f.sym_operand(c.args[1]))
                m = re.fullmatch(r'index_mut\((.*), Range::Range\(0_usize, len\((.*)\)\)\)', p_)
                ok = (m is not None and m.group(2) == v_) or re.fullmatch(r'from_elem\(.*, len\(%s\)\)' % re.escape(v_), p_) is not None
                R.check(ok, 'cut-to-length|%s%s' % (f.name, tag),
                        '%s sorts %s through the permutation %s, whose length is not tied to it: the workspace was sized for the initial edge set, so after the first merge '
                        'the length assertion of sortperm fails (the analysis panics)' % (f.name, v_[:60], p_[:80]), f.loc(c.sp))
        R.check(n >= 1, 'instances' + tag, 'no sortperm call found under src/solver/chordal')

    R.guard(body)


def edge_matrix_lower(rep, F, tag):
    """The clique-graph strategy keeps its weighted edges in the *lower* triangle of a sparse matrix: every writer and reader addresses (row, col) with
    row > col.  An edge written at (c1, n) with n > c1 is invisible to assign_children, which looks it up at (max, min): the subtree below it gets no
    parent and the analysis panics."""
    R = rep.rule('C17.R13', 'clique-graph edge matrix: every set_entry / get_entry addresses the lower triangle ((max, min), or an index range that implies it)')

    def body():
        n = 0
        nz = lambda t: t.replace('withoverflow', '').replace(').0', ')')
        for f in F.fns:
            if 'chordal/merge/clique_graph' not in f.file and 'chordal/supernode_tree' not in f.file:
                continue
            for c in f.calls:
                if c.callee.name not in ('set_entry', 'get_entry') or len(c.args) < 2:
                    continue
                t = nz(canon(f.sym_operand(c.args[1])))
                if not t.startswith('tuple('):
                    continue
                a = split_args(t)
                if len(a) != 2:
                    continue
                n += 1
                r_, c_ = a
                ok = False
                m1, m2 = re.fullmatch(r'max\((.*)\)', r_), re.fullmatch(r'min\((.*)\)', c_)
                if m1 and m2 and sorted(split_args(r_)) == sorted(split_args(c_)):
                    ok = True
                # row runs over a range that starts above the column index
                m = re.fullmatch(r'next\(into_iter\(Range::Range\(add\((.*), 1_usize\), .*\)\)\)@Some\.0', r_)
                if m and m.group(1) == c_:
                    ok = True
                # column runs over a range that ends below the row index
                m = re.fullmatch(r'next\(into_iter\(Range::Range\(0_usize, (.*)\)\)\)@Some\.0', c_)
                if m and m.group(1) == r_:
                    ok = True
                # the candidate pair handed over by traverse() is the (row, col) of a stored entry
                if f.name == 'evaluate' and (r_, c_) == ('arg3.0', 'arg3.1'):
                    ok = True
                R.check(ok, 'lower|%s|%s%s' % (f.name, c.callee.name, tag),
                        '%s calls %s at (%s, %s): the edge matrix is lower triangular, the pair must be (max, min) of the two cliques (or come from an index range that implies '
                        'row > col) - an edge stored in the upper triangle is never found again' % (f.name, c.callee.name, r_[:60], c_[:60]), f.loc(c.sp))
        R.check(n >= 6, 'sites' + tag, 'only %d edge-matrix accesses found' % n)

    R.guard(body)


def analysis_gate(rep, F, tag):
    """"a pattern is left undecomposed only when it is dense or merges to a single clique": before the analysis runs, try_chordal_info may give up only
    because decomposition is switched off or because *no* PSD cone is larger than the small-cone threshold (3).  A gate that closes because *some* cone is
    small skips the analysis of every other cone of the problem."""
    R = rep.rule('C17.R14', 'try_chordal_info skips the analysis only if decomposition is disabled or no PSD cone exceeds the small-cone threshold; afterwards only if nothing was decomposed')

    def body():
        f = F.one(name='try_chordal_info')
        cls = F.closures_of.get(f.key, [])
        if not R.check(len(cls) == 1, 'one-predicate' + tag, 'try_chordal_info has %d closures' % len(cls), f.loc()):
            return
        g = cls[0]
        psd = [int(v['discr']) if v['discr'] is not None else i for i, v in enumerate(F.adt('SupportedConeT')['variants']) if v['n'] == 'PSDTriangleConeT']
        if not psd:
            raise AnchorError('SupportedConeT has no PSDTriangleConeT variant in this configuration')
        for val, ret, ev, tr in Walker(g).leaves():
            if ret[0] != 'c':
                R.bad('predicate-shape' + tag, 'the cone predicate returns %s' % (ret,), g.loc())
                continue
            d = val.get('discr(arg2)')
            big = None          # does the path know dim > K for some K <= 3 ?
            for k, v in val.items():
                m = re.fullmatch(r'(lt|le|gt|ge)\((.*), (.*)\)', k)
                if not m:
                    continue
                op, x, y = m.groups()
                num = lambda t: int(t.split('_')[0]) if re.fullmatch(r'\d+_usize', t) else None
                if num(x) is not None and 'PSDTriangleConeT.0' in y:        # K op dim
                    K = num(x)
                    holds = {'lt': v == 1, 'le': v == 1, 'gt': v == 0, 'ge': v == 0}[op]
                    thr = K + (0 if op in ('lt', 'ge') else -1)             # dim > thr
                    big = (holds, thr)
                elif num(y) is not None and 'PSDTriangleConeT.0' in x:      # dim op K
                    K = num(y)
                    holds = {'gt': v == 1, 'ge': v == 1, 'lt': v == 0, 'le': v == 0}[op]
                    thr = K + (0 if op in ('gt', 'le') else -1)
                    big = (holds, thr)
            if ret[1] == 1:
                R.check(d in psd and big is not None and big[0], 'counts-only-large-psd' + tag, 'the predicate counts a cone under %s' % val, g.loc())
            else:
                R.check(d not in psd or (big is not None and not big[0] and big[1] <= 3), 'every-large-psd-counts' + tag,
                        'the predicate ignores a PSD cone under %s: every PSD cone of dimension > 3 must keep the analysis alive' % val, g.loc())
        for val, ret, ev, tr in Walker(f).leaves():
            if ret[0] != 's':
                continue
            en = val.get('arg4.chordal_decomposition_enable')
            anyk = [v for k, v in val.items() if k.startswith('any(iter(arg3)')] + [1 - v for k, v in val.items() if k.startswith('all(iter(arg3)')]
            dec = [v for k, v in val.items() if k.startswith('is_decomposed(')]
            if str(ret[1]) == 'Option::None':
                why = (en == 0) or (anyk and anyk[0] == 0 and not dec) or (dec and dec[0] == 0)
                R.check(bool(why), 'skip-reason' + tag, 'try_chordal_info returns None under %s: allowed are disabled, no PSD cone above the threshold, nothing decomposed' % val, f.loc())
            else:
                R.check(en == 1 and anyk and anyk[0] == 1 and dec and dec[0] == 1, 'some-reason' + tag, 'try_chordal_info returns the decomposition under %s' % val, f.loc())

    R.guard(body)


def run(ctx, rep, tier):
    for cfg in (CONFIGS_THOROUGH if tier == 'thorough' else CONFIGS):
        F = ctx.facts(cfg)
        tag = '[%s]' % cfg
        union_find(rep, F, tag)
        kruskal(rep, F, tag)
        connected_pattern(rep, F, tag)
        merge_bookkeeping(rep, F, tag)
        representative_encoding(rep, F, tag)
        tree_from_graph(rep, F, tag)
        merge_loop(rep, F, tag)
        merge_roles(rep, F, tag)
        workspace_lengths(rep, F, tag)
        edge_matrix_lower(rep, F, tag)
        analysis_gate(rep, F, tag)
        # the clique-graph edge matrix is edited with set_entry and queried with get_entry (binary search): columns must stay sorted (C16.R14 re-run)
        from . import c16
        c16.entry_access(rep, F, tag, 'C17.R10')
    from . import c05, c04
    for cfg in CONFIGS:
        c05.hash_order(c04._Ren(rep, 'C05.R2', 'C17.R4'), ctx.facts(cfg), ctx.cg(cfg), '[%s]' % cfg)
