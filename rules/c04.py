"""C04 -- every solve terminates cleanly within its limits (structural clauses)"""
import re
from engine.mir import last_seg, show, AnchorError, strip_generics
from engine.preds import canon, Walker, ShapeError
from engine.effects import IDX, fmt_path
from .common import *
from . import shared

CONFIGS = ['default', 'full']
TECHNIQUE = 'MIR path rules (ranking function of the main loop, typestate of the timer stack), decision tables of the limit tests, call-graph dead-code guards, may-return variant sets of callees for panicking match arms'
EXPLANATION = (
    "Decides on the MIR of the current tree, for all inputs: (R1) every cycle of the main loop either increments "
    "the iteration counter or switches the scaling strategy PrimalDual->Dual (which can happen once), i.e. a "
    "lexicographic ranking function, and after such a switch (status reset to Unsolved) the limits are re-tested before the counter moves on; (R2) in check_termination every path that leaves the status Unsolved tests "
    "max_iter against iterations with a comparison that is true at equality and then time_limit, and stores "
    "MaxIterations/MaxTime; the result is status != Unsolved; (R3) every cycle folds elapsed time into the root "
    "timer (Timers::suspend) so solve_time advances; (R4) the timer stack is balanced on every path; (R5) the "
    "auxiliary loops are counter-bounded; (R6) dimension checks dominate construction and each relation diverges "
    "when violated; (R7) the unreachable!() cone methods are dead: guarded by is_symmetric, or unreachable from the API roots; (R7b) settings validator and dispatcher accept the same option strings; (R9) P is reduced to its upper triangle and the cone list collapsed before use; (R10) the progress printer reaches _exp_str_reformat (which unwraps find('e')) only on the true edge of is_finite(value); (R11) the QDLDL wrapper unwraps refactor() only while the engine's pivot regularisation is unconditionally on; (R12) who-may-write the status (re-run of the status provenance rule: a rollback or helper that resets it to Unsolved on a terminating path returns a non-terminal status); (R13) every index in the printing module is bounded by the indexed collection's own length. NOT decided: absence "
    "of all panics (bounds checks, arithmetic, BLAS failures), termination of data-dependent inner loops."
    " (R14) match arms that panic (unreachable!) on a variant of a crate function's result are dead: the callee never constructs that variant."
    " (R15) no panicking std conversion (Duration::from_secs_f64/f32) is applied to a settings field; (R16) the cone clean-up keeps a cone only after the type-independent test nvars() != 0."
    " (R17) every checkpoint path returning Fail has set a terminal status or runs under status == InsufficientProgress."
    " (R18) compute_barrier of every cone evaluates the barrier at (z + alpha dz, s + alpha ds), each component pairing a point with its own direction (a crossed component drives the exponential cone's Wright-omega evaluation out of its domain: panic); (R19) every scratch vector taken out of self with mem::take is stored back on every returning path."
    " (R20) the tolerance of the generalised power cone's exponent-sum check is positive for 1, 2, 3, 7 exponents (evaluated with integer semantics for usize operands).")
ASSUMPTIONS = [
    'rustc MIR construction and trait resolution are correct',
    'iteration counter does not overflow u32 (max_iter is u32 and the loop stops at equality)',
    '0 <= linesearch_backtrack_step < 1 and min step lengths > 0 (settings values are not validated by the crate)',
    'std Range / slice iterators are finite',
]


def _loop_cycles_avoiding(f, h, body, avoid):
    """is there a cycle h ->+ h inside `body` avoiding blocks in `avoid`?"""
    av = set(avoid)
    seen = set()
    st = [s for s in f.succ[h] if s in body and s not in av]
    while st:
        x = st.pop()
        if x == h:
            return True
        if x in seen:
            continue
        seen.add(x)
        for s in f.succ[x]:
            if s == h:
                return True
            if s in body and s not in av:
                st.append(s)
    return False


def ranking(rep, F, tag):
    R = rep.rule('C04.R1', 'main loop ranking function: every cycle increments iter or performs the one-way '
                           'scaling switch')

    def body():
        f = shared.solve_fn(F)
        h, lbody = shared.main_loop(f)
        ct = one_call(f, 'check_termination')
        it_op = ct.args[3]
        it_sym = f.sym_operand(it_op)
        # the operand is a copy of the user variable `iter`
        src = it_sym
        if src[0] != 'var':
            raise AnchorError('iteration counter passed to check_termination is not a mutable local: %s' % show(src))
        itl = src[1]
        defs = f.defs.get(itl, [])
        incs = []
        inits = []
        for d in defs:
            if d[0] != 's':
                raise AnchorError('iteration counter assigned from a call')
            st = f.blocks[d[1]]['s'][d[2]]
            v = f.sym_rvalue(st['rv'])
            c = canon(v)
            if d[1] in lbody:
                incs.append((d[1], c, st['sp']))
            else:
                inits.append((d[1], c, st['sp']))
        R.check(len(inits) == 1 and inits[0][1].startswith('0'), 'iter-init' + tag,
                'iteration counter is not initialised once to 0 before the loop: %s' % inits, f.loc())
        for bb, c, sp in incs:
            okinc = c in ('addwithoverflow(var:iter, 1_u32).0', 'add(var:iter, 1_u32)') or (
                c.startswith('addwithoverflow(var:') and c.endswith(', 1_u32).0'))
            R.check(okinc, 'iter-inc|%s%s' % (c, tag), 'assignment to the iteration counter inside the loop is not +1: %s' % c,
                    f.loc(sp))
        R.check(len(incs) == 1, 'iter-inc-unique' + tag, '%d assignments to the iteration counter inside the loop' % len(incs),
                f.loc())
        inc_blocks = set(b for b, _, _ in incs)
        # scaling local: 4th argument of scale_cones
        sc = one_call(f, 'scale_cones')
        ssym = f.sym_operand(sc.args[3])
        if ssym[0] != 'var':
            raise AnchorError('scaling strategy is not a mutable local')
        sl = ssym[1]
        sw_blocks = set()
        for d in f.defs.get(sl, []):
            if d[0] != 's':
                raise AnchorError('scaling strategy assigned from a call')
            st = f.blocks[d[1]]['s'][d[2]]
            if d[1] not in lbody:
                continue
            v = f.sym_rvalue(st['rv'])
            c = canon(v)
            ok = c.startswith('strategy_checkpoint_') and c.endswith('@Update.0')
            R.check(ok, 'scaling-assign|%s%s' % (c.split('(')[0], tag),
                    'scaling is assigned inside the loop from %s, expected the payload of a StrategyCheckpoint::Update' % c,
                    f.loc(st['sp']))
            if ok:
                sw_blocks.add(d[1])
        R.check(len(sw_blocks) >= 1, 'scaling-switch-sites' + tag, 'no strategy switch site found (anchor drift)')
        cyc = _loop_cycles_avoiding(f, h, lbody, inc_blocks | sw_blocks)
        R.check(not cyc, 'every-cycle-ranked' + tag,
                'there is a cycle of the main loop that neither increments the iteration counter nor switches '
                'the scaling strategy', f.loc())
        # check_termination on every cycle before the increment
        for b in inc_blocks:
            R.check(f.dominates(ct.bb, b), 'ct-before-inc' + tag,
                    'check_termination does not precede the increment of the iteration counter', f.loc())
        R.check(not _loop_cycles_avoiding(f, h, lbody, {ct.bb}), 'ct-every-cycle' + tag,
                'there is a cycle of the main loop that does not pass check_termination', f.loc())
        # a strategy switch resets the status to Unsolved: the limits must be re-tested for the current iteration
        # count before the counter moves on (check_termination compares max_iter with equality)
        for sb in sorted(sw_blocks):
            for b in inc_blocks:
                R.check(not f.paths_exist_avoiding(sb, b, [ct.bb]), 'retest-after-switch|%d%s' % (sorted(sw_blocks).index(sb), tag),
                        'after a scaling-strategy switch (status reset to Unsolved) the iteration counter can be incremented without '
                        'passing check_termination again: a switch on the pass where iterations == max_iter skips the limit for good',
                        f.loc())
        # a true result of check_termination reaches break or the one Update continuation
        # (checked structurally: the only continue after isdone is a scaling switch block)
        # every Update constructor in the crate carries Dual and is guarded by scaling == PrimalDual
        n = 0
        for g in F.fns:
            for bi, si, st in g.assignments():
                rv = st['rv']
                if rv['k'] == 'agg' and rv['ak']['a'] == 'adt' and last_seg(strip_generics(rv['ak']['adt'])) == 'StrategyCheckpoint' \
                        and rv['ak']['variant'] == 'Update':
                    n += 1
                    payload = g.sym_operand(rv['ops'][0])
                    R.check(const_variant(payload) == 'Dual', 'update-payload|%s%s' % (short(g.key), tag),
                            'StrategyCheckpoint::Update(%s) in %s: only a switch to ScalingStrategy::Dual keeps the '
                            'ranking argument' % (show(payload), g.key), g.loc(st['sp']))
                    # guard: on every path through this block scaling == PrimalDual was tested true
                    ok = True
                    found = False
                    for val, ret, ev, tr in Walker(g).leaves():
                        if bi in tr:
                            found = True
                            ks = [k for k in val if 'ScalingStrategy::PrimalDual' in k and k.startswith('eq(')]
                            if not ks or not all(val[k] == 1 for k in ks):
                                ok = False
                    R.check(found and ok, 'update-guard|%s%s' % (short(g.key), tag),
                            'StrategyCheckpoint::Update in %s is not guarded by scaling == PrimalDual' % g.key,
                            g.loc(st['sp']))
        R.check(n >= 3, 'update-sites' + tag, 'only %d StrategyCheckpoint::Update constructors found, expected 3' % n)

    R.guard(body)


def limits(rep, F, tag):
    R = rep.rule('C04.R2', 'iteration / time limit tests: evaluated on every still-Unsolved path, true at the '
                           'boundary, store the right status')

    def body():
        f = shared.info_fn(F, 'check_termination')
        leaves = Walker(f).leaves()
        UNS = 'SolverStatus::Unsolved'
        nmi = nmt = 0
        for val, ret, ev, tr in leaves:
            stores = [(e[2]) for e in ev if e[0] == 'store' and e[1] == 'self.status']
            # latest knowledge about status
            last_store = stores[-1] if stores else None
            # find the max_iter atom on this path
            mi = [k for k in val if 'max_iter' in k and 'self.iterations' in k]
            tl = [k for k in val if 'time_limit' in k and 'solve_time' in k]
            status_atoms = [k for k in val if k.startswith('eq(%s, self.status)' % UNS)]
            # does the path know status != Unsolved at the point of the limit section?
            pre_stores = [s for s in stores if s not in ('SolverStatus::MaxIterations', 'SolverStatus::MaxTime')]
            known_terminal = bool(pre_stores) and pre_stores[-1] != UNS
            latest_atom = None
            if status_atoms:
                latest_atom = max(status_atoms, key=lambda k: int(k.rsplit('#', 1)[1]) if '#' in k else 0)
            if not pre_stores and latest_atom is not None and val[latest_atom] == 0:
                known_terminal = True
            if pre_stores and latest_atom is not None and '#%d' % len(pre_stores) in latest_atom and val[latest_atom] == 0:
                known_terminal = True
            if known_terminal:
                # a terminal status must not be overwritten by a limit status
                R.check(not any(s in ('SolverStatus::MaxIterations', 'SolverStatus::MaxTime') for s in stores),
                        'no-overwrite|%s%s' % (stores, tag),
                        'a limit status overwrites an earlier verdict on some path: stores %s' % stores, f.loc())
                continue
            # status is (possibly) still Unsolved: the limit test must be evaluated
            if not mi:
                R.bad('limit-skipped|%s%s' % (sorted(k for k in val if 'lt(1_u32' in k or 'prev_res' in k)[:3], tag),
                      'there is a path through check_termination that leaves the status Unsolved without '
                      'testing max_iter (valuation %s)' % {k: v for k, v in val.items()}, f.loc())
                continue
            k = mi[0]
            # orientation-free reading of the two limit tests: hit = "iterations has reached max_iter", over = "solve_time is beyond time_limit"
            def reading(key, v, small, big, strict_ok):
                """key compares small with big; returns 1/0 for `big has reached small` or None for an unusable shape"""
                kk = re.sub(r'#\d+$', '', key.split('@')[0])
                forms = {'eq(%s, %s)' % (small, big): v, 'eq(%s, %s)' % (big, small): v, 'ne(%s, %s)' % (small, big): 1 - v, 'ne(%s, %s)' % (big, small): 1 - v,
                         'le(%s, %s)' % (small, big): v, 'ge(%s, %s)' % (big, small): v, 'lt(%s, %s)' % (big, small): 1 - v, 'gt(%s, %s)' % (small, big): 1 - v}
                if strict_ok:
                    forms = {'lt(%s, %s)' % (small, big): v, 'gt(%s, %s)' % (big, small): v, 'le(%s, %s)' % (big, small): 1 - v, 'ge(%s, %s)' % (small, big): 1 - v,
                             'le(%s, %s)' % (small, big): v, 'ge(%s, %s)' % (big, small): v, 'lt(%s, %s)' % (big, small): 1 - v, 'gt(%s, %s)' % (small, big): 1 - v}
                return forms.get(kk)
            hit = reading(k, val[k], 'arg3.max_iter', 'self.iterations', False)
            R.check(hit is not None, 'max_iter-shape|%s%s' % (k.split('@')[0], tag),
                    'the iteration limit is tested with %s, which is not true exactly when iterations reaches '
                    'max_iter (accepted: ==, >=, in either orientation)' % k, f.loc())
            if hit is None:
                continue
            if hit == 1:
                nmi += 1
                R.check(last_store == 'SolverStatus::MaxIterations', 'max_iter-store%s' % tag,
                        'max_iter reached but the stored status is %s' % last_store, f.loc())
            else:
                if not tl:
                    R.bad('time-limit-skipped' + tag, 'path with iterations != max_iter does not test time_limit',
                          f.loc())
                    continue
                t = tl[0]
                over = reading(t, val[t], 'arg3.time_limit', 'self.solve_time', True)
                R.check(over is not None, 'time-shape|%s%s' % (t.split('@')[0], tag),
                        'the time limit is tested with %s (expected solve_time > time_limit)' % t, f.loc())
                if over is None:
                    continue
                if over == 1:
                    nmt += 1
                    R.check(last_store == 'SolverStatus::MaxTime', 'time-store' + tag,
                            'time limit exceeded but the stored status is %s' % last_store, f.loc())
                else:
                    R.check(last_store is None or last_store == UNS, 'no-limit-no-store' + tag,
                            'no limit reached but status %s stored' % last_store, f.loc())
            # return value
        for val, ret, ev, tr in leaves:
            if ret[0] == 's' and (ret[1].startswith('ne(%s, self.status)' % UNS) or ret[1].startswith('ne(self.status, %s)' % UNS)):
                continue
            # a constant answer (e.g. from `!matches!(self.status, Unsolved)`) is right if it agrees with what the path knows about the status
            stores = [(e[2]) for e in ev if e[0] == 'store' and e[1] == 'self.status']
            ds = [k_ for k_ in val if k_.startswith('discr(self.status)')]
            known = None
            if ds:
                latest = max(ds, key=lambda k_: int(k_.rsplit('#', 1)[1]) if '#' in k_ else 0)
                known = 0 if val[latest] == 0 else 1        # discriminant 0 is Unsolved
            ok_ = ret[0] == 'c' and known is not None and ret[1] == known
            R.check(ok_, 'returns-ne-unsolved' + tag,
                    'check_termination returns %s, expected status != Unsolved' % (ret,), f.loc())
        R.check(nmi > 0 and nmt > 0, 'limit-leaves' + tag, 'no path stores MaxIterations/MaxTime (%d/%d)' % (nmi, nmt))
        # solve: a true result of check_termination reaches break or a scaling switch; save_scalars and
        # check_termination use the same counter
        s = shared.solve_fn(F)
        h, lbody = shared.main_loop(s)
        ct = one_call(s, 'check_termination')
        ss = [c for c in s.calls if c.callee.name == 'save_scalars' and c.bb in lbody]
        R.check(len(ss) == 1 and canon(s.sym_operand(ss[0].args[4])) == canon(s.sym_operand(ct.args[3])),
                'same-counter' + tag, 'save_scalars and check_termination do not receive the same iteration counter',
                s.loc(ct.sp))
        # who writes DefaultInfo.iterations
        return leaves

    R.guard(body)


def clock(rep, F, E, tag):
    R = rep.rule('C04.R3', 'the clock advances: every cycle folds elapsed time into the root timer and '
                           'info.update reads it')

    def body():
        f = shared.solve_fn(F)
        h, lbody = shared.main_loop(f)
        sus = [c.bb for c in f.calls if c.callee.name == 'suspend' and 'Timers' in (c.callee.key or '') and c.bb in lbody]
        R.check(len(sus) >= 1, 'suspend-in-loop' + tag, 'no Timers::suspend inside the main loop', f.loc())
        R.check(not _loop_cycles_avoiding(f, h, lbody, set(sus)), 'suspend-every-cycle' + tag,
                'there is a cycle of the main loop without Timers::suspend: the root timer never accumulates, '
                'solve_time stays constant and MaxTime cannot fire', f.loc())
        upd = F.one(name='update', adt='DefaultInfo')
        tt = calls_named(upd, 'total_time')
        R.check(len(tt) >= 1, 'update-reads-total_time' + tag, 'Info::update does not read Timers::total_time', upd.loc())
        wr = E.direct_write_sites(upd, 'DefaultInfo', 'solve_time')
        R.check(len(wr) >= 1, 'update-writes-solve_time' + tag, 'Info::update does not store solve_time', upd.loc())
        # ... and what it stores is the elapsed time with its fractional part: whole seconds never exceed a sub-second limit
        vals = [canon(upd.sym_rvalue(st['rv'])) for bi, si, st in upd.assignments() if st['p']['p'] and canon(upd.sym_place(st['p'])) == 'self.solve_time']
        R.check(bool(vals) and all(re.fullmatch(r'as_secs_f(64|32)\(total_time\(arg\d\)\)', v) for v in vals), 'solve_time-fractional' + tag,
                'Info::update stores solve_time = %s: the value compared with time_limit must be total_time().as_secs_f64() (a truncation to whole '
                'seconds makes every sub-second or fractional limit fire late or never)' % vals, upd.loc())
        # InnerTimer::suspend accumulates elapsed when started; Timers::suspend reaches it
        it = F.one(name='suspend', adt='InnerTimer')
        w = E.direct_write_sites(it, 'InnerTimer', 'elapsed')
        R.check(len(w) >= 1, 'innertimer-suspend-accumulates' + tag, 'InnerTimer::suspend no longer adds to elapsed',
                it.loc())
        ts = F.one(name='suspend', adt='Timers')
        G = E.G
        R.check(it.key in G.reachable([ts.key]), 'timers-suspend-reaches-inner' + tag,
                'Timers::suspend does not reach InnerTimer::suspend', ts.loc())
        tot = F.one(name='total_time', adt='SubTimersMap')
        R.check(any(c.callee.name == 'elapsed' for g in [tot] + F.closures_of.get(tot.key, []) for c in g.calls),
                'total_time-sums-elapsed' + tag, 'total_time does not read InnerTimer::elapsed', tot.loc())

    R.guard(body)


def timer_stack(rep, F, tag):
    R = rep.rule('C04.R4', 'timer stack typestate: start_as_current/stop_current balanced on every path, '
                           'suspend/resume alternate')

    def one(f):
        depth = {0: 0}
        susp = {0: 0}
        order = f._rpo(0, f.succ)
        work = list(order)
        ok = True
        for _ in range(4):
            for b in order:
                if b not in depth:
                    continue
                d, s = depth[b], susp[b]
                c = f.call_at.get(b)
                if c is not None and 'Timers' in (c.callee.key or ''):
                    if c.callee.name == 'start_as_current':
                        d += 1
                    elif c.callee.name == 'stop_current':
                        d -= 1
                        if d < 0:
                            R.bad('stack-underflow|%s%s' % (short(f.key), tag),
                                  'stop_current on an empty timer stack (would unwrap None)', f.loc(c.sp))
                            ok = False
                    elif c.callee.name == 'suspend':
                        if s == 1:
                            R.bad('double-suspend|%s%s' % (short(f.key), tag), 'suspend while suspended', f.loc(c.sp))
                            ok = False
                        s = 1
                    elif c.callee.name == 'resume':
                        if s == 0:
                            R.bad('resume-without-suspend|%s%s' % (short(f.key), tag), 'resume while not suspended',
                                  f.loc(c.sp))
                            ok = False
                        s = 0
                for nx in f.succ[b]:
                    if nx in depth:
                        if depth[nx] != d or susp[nx] != s:
                            R.bad('unbalanced-merge|%s%s' % (short(f.key), tag),
                                  'paths reach block %d with different timer depths (%d vs %d) or suspension state' % (
                                      nx, depth[nx], d), f.loc(f.blocks[nx]['tsp']))
                            ok = False
                    else:
                        depth[nx] = d
                        susp[nx] = s
        for r in f.returns:
            if r in depth:
                if depth[r] != 0 or susp[r] != 0:
                    R.bad('unbalanced-return|%s%s' % (short(f.key), tag),
                          'function returns with timer depth %d / suspended=%d' % (depth[r], susp[r]), f.loc())
                    ok = False
        if ok:
            R.ok('balanced|%s%s' % (short(f.key), tag), {'blocks': len(depth)})

    def body():
        one(shared.solve_fn(F))
        one(F.one(name='new', self_ty='solver::core::solver::Solver'))

    R.guard(body)


def bounded_loops(rep, F, tag):
    R = rep.rule('C04.R5', 'auxiliary loops are counter-bounded (Range iterator with constant / settings bound)')

    def loop_kind(f, h, body):
        """classify by the exit test of the loop"""
        # a for-loop: header block calls Iterator::next on an iterator local and the exit edge is on None
        kinds = []
        for b in body:
            c = f.call_at.get(b)
            if c is not None and c.callee.name == 'next' and (c.callee.trait or '').endswith('Iterator'):
                it = f.sym_operand(c.args[0])
                kinds.append(canon(it))
        return kinds

    def body():
        targets = [
            ('backtrack_step_to_barrier', dict(trait='IPSolverInternals'), None),
        ]
        for nm, kw, _ in targets:
            fs = F.find(name=nm, **kw)
            if len(fs) != 1:
                raise AnchorError('%s: %d matches' % (nm, len(fs)))
            f = fs[0]
            loops = f.loops()
            R.check(len(loops) >= 1, 'has-loop|%s%s' % (nm, tag), '%s has no loop (anchor drift)' % nm, f.loc())
            for h, lb in loops.items():
                ks = loop_kind(f, h, lb)
                isrange = any('Range' in k or 'into_iter(' in k for k in ks)
                # range bounds
                rng = None
                for bi, si, st in f.assignments():
                    rv = st['rv']
                    if rv['k'] == 'agg' and rv['ak']['a'] == 'adt' and last_seg(strip_generics(rv['ak']['adt'])) == 'Range':
                        rng = [canon(f.sym_operand(o)) for o in rv['ops']]
                R.check(bool(ks) and rng is not None, 'counter-bounded|%s%s' % (nm, tag),
                        'loop in %s is not driven by a Range iterator (exit tests: %s)' % (nm, ks), f.loc(),
                        detail={'range': rng})
                if rng is not None:
                    isconst = all(x.split('_')[0].isdigit() for x in rng)
                    R.check(isconst, 'constant-bound|%s%s' % (nm, tag), 'range bounds %s of the loop in %s are not constants' % (rng, nm),
                            f.loc(), detail={'range': rng})
        # while iter < CONST { iter += 1; ... }
        f = F.one(name='newton_raphson_onesided')
        loops = f.loops()
        R.check(len(loops) == 1, 'has-loop|newton_raphson_onesided' + tag, 'newton_raphson_onesided: %d loops' % len(loops), f.loc())
        for h, lb in loops.items():
            # exit test: a switch in the loop on lt(var, const)
            tests = []
            for b in lb:
                t = f.blocks[b]['t']
                if t['k'] == 'switch' and any(x not in lb for x in f.succ[b]):
                    tests.append((b, canon(f.sym_operand(t['d']))))
            cnt = [(b, k) for b, k in tests if k.startswith('lt(var:') and k.split(', ')[1].rstrip(')').split('_')[0].isdigit()]
            if not R.check(len(cnt) >= 1, 'counter-test|newton_raphson_onesided' + tag,
                           'no counter < constant exit test in newton_raphson_onesided (exit tests %s)' % tests, f.loc()):
                continue
            var = cnt[0][1][len('lt(var:'):].split(',')[0]
            ls = f.local_by_name(var)
            incb = set()
            for l in ls:
                for d in f.defs.get(l, []):
                    if d[0] == 's' and d[1] in lb:
                        st = f.blocks[d[1]]['s'][d[2]]
                        c = canon(f.sym_rvalue(st['rv']))
                        R.check(c.startswith('addwithoverflow(var:%s, 1_' % var) or c.startswith('add(var:%s, 1_' % var),
                                'counter-inc|newton_raphson_onesided' + tag, 'loop counter updated by %s' % c, f.loc(st['sp']))
                        incb.add(d[1])
            R.check(bool(incb) and not _loop_cycles_avoiding(f, h, lb, incb), 'counter-every-cycle|newton_raphson_onesided' + tag,
                    'a cycle of the Newton-Raphson loop does not increment its counter', f.loc())
            # the counter test must be on every cycle too
            R.check(cnt[0][0] == h or f.dominates(cnt[0][0], h) or not _loop_cycles_avoiding(f, h, lb, {cnt[0][0]}), 'test-every-cycle|newton_raphson_onesided' + tag,
                    'a cycle of the Newton-Raphson loop bypasses the counter test', f.loc())
        # iterative refinement: bounded by settings.iterative_refinement_max_iter
        fs = F.find(name='iterative_refinement')
        R.check(len(fs) >= 1, 'iterative_refinement-anchor' + tag, 'iterative_refinement not found')
        for f in fs:
            loops = f.loops()
            for h, lb in loops.items():
                ks = loop_kind(f, h, lb)
                rng = None
                for bi, si, st in f.assignments():
                    rv = st['rv']
                    if rv['k'] == 'agg' and rv['ak']['a'] == 'adt' and last_seg(strip_generics(rv['ak']['adt'])) == 'Range':
                        rng = [canon(f.sym_operand(o)) for o in rv['ops']]
                if rng is None:
                    # vector loops inside (zip etc.) are finite iterators
                    continue
                import re as _re
                R.check(rng[0].startswith('0') and _re.fullmatch(r'(arg\d+(\.\w+)+|\d+_\w+)', rng[1]) is not None,
                        'refine-bound|%s%s' % (short(f.key), tag),
                        'iterative refinement loop bounds are %s, expected 0..<settings field or constant>' % rng,
                        f.loc(), detail={'range': rng})

    R.guard(body)


def construction_checks(rep, F, tag):
    R = rep.rule('C04.R6', 'inconsistent dimensions are rejected at construction: _check_dimensions is the first '
                           'thing DefaultSolver::new does and each relation diverges when violated')

    def body():
        new = F.one(name='new', self_ty='solver::core::solver::Solver')
        cd = one_call(new, '_check_dimensions')
        for c in new.calls:
            if c is cd:
                continue
            R.check(new.dominates(cd.bb, c.bb) and c.bb != cd.bb, 'dominates|%s' % c.callee.name + tag,
                    'call to %s in DefaultSolver::new is not preceded by _check_dimensions on every path' % c.callee.name,
                    new.loc(c.sp)) if c.callee.name in ('new', 'equilibrate') else None
        R.check(cd.bb == 0 or all(new.call_at.get(b) is None for b in range(cd.bb) if new.dominates(b, cd.bb) and b != cd.bb),
                'first-call' + tag, '_check_dimensions is not the first call of DefaultSolver::new', new.loc(cd.sp))
        args = [canon(new.sym_operand(a)) for a in cd.args]
        R.check(args == ['arg1', 'arg2', 'arg3', 'arg4', 'arg5'], 'args' + tag,
                '_check_dimensions receives %s, expected (P, q, A, b, cones)' % args, new.loc(cd.sp))
        f = F.one(name='_check_dimensions')
        leaves = Walker(f).leaves()
        atoms = set()
        for val, ret, ev, tr in leaves:
            atoms |= set(val)
        want = {
            'b~A.rows': lambda k: 'len(arg4)' in k and 'nrows(arg3)' in k,
            'cones~b': lambda k: 'fold(' in k and 'len(arg4)' in k,
            'q~A.cols': lambda k: 'len(arg2)' in k and 'ncols(arg3)' in k,
            'q~P.cols': lambda k: 'len(arg2)' in k and 'ncols(arg1)' in k,
            'P.square': lambda k: 'is_square(arg1)' in k,
        }
        for nm, pred in want.items():
            ks = [k for k in atoms if pred(k)]
            if not R.check(len(ks) == 1, 'atom|%s%s' % (nm, tag),
                           '_check_dimensions does not test the relation %s (atoms: %s)' % (nm, sorted(atoms)), f.loc()):
                continue
            k = ks[0]
            for val, ret, ev, tr in leaves:
                if k in val:
                    holds = (val[k] == 1)
                    if not holds:
                        R.check(ret[0] == 'diverge', 'diverges|%s%s' % (nm, tag),
                                'violating %s does not panic in _check_dimensions' % nm, f.loc())

    R.guard(body)


NONSYM_PANIC_METHODS = ('margins', 'scaled_unit_shift', 'set_identity_scaling')


def dead_panics(rep, F, G, tag):
    R = rep.rule('C04.R7', 'unreachable!()/unimplemented!() bodies are dead: guarded by is_symmetric, or '
                           'unreachable in the call graph from the API roots')

    def never_returns(f):
        live = f.reach_live()
        return not any(r in live for r in f.returns)

    def body():
        roots = api_roots(F)
        reach = G.reachable(roots)
        nr = [f for f in F.fns if not (f.from_expansion or f.impl_exp) and never_returns(f) and f.dk != 'Closure']
        R.check(len(nr) >= 10, 'never-returning-fns' + tag, 'only %d never-returning functions found (anchor drift)' % len(nr))
        cone_types = set()
        for f in nr:
            nm = f.name
            if f.impl_trait and last_seg(strip_generics(f.impl_trait)) == 'Cone' and nm in NONSYM_PANIC_METHODS:
                adt = last_seg(strip_generics(f.impl_adt))
                cone_types.add(adt)
                # (a) that type's is_symmetric is the constant false
                isf = F.one(name='is_symmetric', adt=adt, trait='Cone')
                rs = canon(isf.sym_local(0))
                R.check(rs == 'false', 'is_symmetric-false|%s|%s%s' % (adt, nm, tag),
                        '%s::%s panics unconditionally but %s::is_symmetric returns %s: default_start would reach the panic' % (
                            adt, nm, adt, rs), isf.loc())
            elif f.key in reach:
                if 'chordal' in f.key:
                    # NoMergeStrategy: guarded by is_done() == true, see below
                    continue
                pth = G.path(roots, f.key)
                R.bad('reachable-panic|%s%s' % (short(f.key), tag),
                      '%s never returns (unconditional panic) and is reachable from the API: %s' % (
                          f.key, ' -> '.join(short(x) for x in pth)), f.loc())
            else:
                R.ok('unreachable|%s%s' % (short(f.key), tag))
        # (b) CompositeCone::is_symmetric returns the cached conjunction
        cis = F.one(name='is_symmetric', adt='CompositeCone', trait='Cone')
        R.check(canon(cis.sym_local(0)) == 'self._is_symmetric', 'composite-is_symmetric' + tag,
                'CompositeCone::is_symmetric returns %s' % canon(cis.sym_local(0)), cis.loc())
        cn = F.one(name='new', adt='CompositeCone')
        # the value stored in the _is_symmetric field: a local that starts true and is only ever
        # re-assigned  (itself && cone.is_symmetric())
        fld = None
        for bi, si, st in cn.assignments():
            rv = st['rv']
            if rv['k'] == 'agg' and rv['ak']['a'] == 'adt' and last_seg(strip_generics(rv['ak']['adt'])) == 'CompositeCone':
                i = rv['ak']['fields'].index('_is_symmetric')
                fld = cn.sym_operand(rv['ops'][i])
        if fld is None or fld[0] != 'var':
            raise AnchorError('_is_symmetric field initialiser not found in CompositeCone::new')

        def conj_ok(l, depth=0):
            vals = []
            for d in cn.defs.get(l, []):
                if d[0] == 's':
                    st = cn.blocks[d[1]]['s'][d[2]]
                    v = cn.sym_rvalue(st['rv'])
                else:
                    c = cn.call_at[d[1]]
                    v = ('call', c.callee.name, (), d[1])
                vals.append(v)
            for v in vals:
                c = canon(v) if v[0] != 'call' or len(v) < 4 or v[2] else v[1] + '()'
                if c in ('true', 'false'):
                    continue
                if v[0] == 'call' and last_seg(v[1]) == 'is_symmetric':
                    continue
                if v[0] == 'var' and depth < 3 and conj_ok(v[1], depth + 1):
                    continue
                return False
            return True
        R.check(conj_ok(fld[1]), 'composite-is_symmetric-conjunction' + tag,
                'CompositeCone::new: _is_symmetric is not (true && cone.is_symmetric() for every cone)', cn.loc())
        # (c) guarded call sites in default_start
        ds = F.one(name='default_start', trait='IPSolverInternals')
        leaves = Walker(ds).leaves()
        for val, ret, ev, tr in leaves:
            ks = [k for k in val if k.startswith('is_symmetric(self.cones')]
            called = [e[1] for e in ev if e[0] == 'call' and e[1] in ('set_identity_scaling', 'symmetric_initialization')]
            if called:
                R.check(bool(ks) and all(val[k] == 1 for k in ks), 'default_start-guard|%s%s' % (called[0], tag),
                        'default_start calls %s on a path where cones.is_symmetric() is not known to be true' % called,
                        ds.loc())
        R.check(any(True for val, ret, ev, tr in leaves if any(e[0] == 'call' and e[1] == 'set_identity_scaling' for e in ev)),
                'default_start-anchor' + tag, 'default_start no longer calls set_identity_scaling (anchor drift)')
        # the only callers of the panicking entry points
        def callers(name, adt, trait):
            f = F.one(name=name, adt=adt, trait=trait)
            return f, set(G.callers_of(f.key))
        f, cs = callers('set_identity_scaling', 'CompositeCone', 'Cone')
        R.check(cs <= {ds.key}, 'callers|CompositeCone::set_identity_scaling' + tag,
                'CompositeCone::set_identity_scaling is called from %s; only default_start (under is_symmetric) may' % sorted(
                    short(c) for c in cs - {ds.key}), f.loc())
        si = F.one(name='symmetric_initialization', adt='DefaultVariables')
        cs = set(G.callers_of(si.key))
        R.check(cs <= {ds.key}, 'callers|symmetric_initialization' + tag,
                'symmetric_initialization is called from %s' % sorted(short(c) for c in cs - {ds.key}), si.loc())
        sh = F.one(name='_shift_to_cone_interior')
        cs = set(G.callers_of(sh.key))
        R.check(cs <= {si.key}, 'callers|_shift_to_cone_interior' + tag,
                '_shift_to_cone_interior is called from %s' % sorted(short(c) for c in cs - {si.key}), sh.loc())
        for nm in ('margins', 'scaled_unit_shift'):
            f, cs = callers(nm, 'CompositeCone', 'Cone')
            R.check(cs <= {sh.key}, 'callers|CompositeCone::%s%s' % (nm, tag),
                    'CompositeCone::%s is called from %s; only _shift_to_cone_interior may' % (nm, sorted(short(c) for c in cs - {sh.key})),
                    f.loc())

    R.guard(body)


def api_roots(F):
    roots = [shared.solve_fn(F).key, F.one(name='new', self_ty='solver::core::solver::Solver').key]
    for nm in ('update_P', 'update_q', 'update_A', 'update_b', 'update_data', 'is_data_update_allowed'):
        for f in F.find(name=nm):
            if 'data_updating' in f.key:
                roots.append(f.key)
    for nm in ('save_to_file', 'load_from_file'):
        for f in F.find(name=nm):
            roots.append(f.key)
    return roots


def settings_strings(rep, F, tag):
    R = rep.rule('C04.R7b', 'validator and dispatcher accept the same option strings')

    def strs(f):
        out = set()
        for g in [f] + list(f.promoted):
            for c in g.calls:
                for a in c.args:
                    s = g.sym_operand(a)
                    t = canon(s)
                    if t.startswith('"') and t.endswith('"'):
                        out.add(t.strip('"'))
            for b in g.blocks:
                pass
        return out

    def body():
        v = F.one(name='validate_direct_solve_method')
        d = F.one(name='_get_ldlsolver_config') if F.find(name='_get_ldlsolver_config') else None
        if d is None:
            cands = [f for f in F.fns if 'ldlsolver' in f.name.lower() and 'config' in f.name.lower()]
            if len(cands) != 1:
                raise AnchorError('LDL solver dispatcher not found: %s' % [c.key for c in cands])
            d = cands[0]
        sv, sd = strs(v), strs(d)
        sv = {s for s in sv if s.isidentifier()}
        sd = {s for s in sd if s.isidentifier()}
        # both must compare the *same function* of the stored string: a validator that normalises case or trims while
        # the dispatcher compares verbatim accepts strings on which the dispatcher panics
        def compared(f):
            out = set()
            for c in f.calls:
                if c.callee.name in ('eq', 'ne') and len(c.args) == 2:
                    a = [canon(f.sym_operand(x)) for x in c.args]
                    lit = [x for x in a if x.startswith('"')]
                    oth = [x for x in a if not x.startswith('"')]
                    if len(lit) == 1 and len(oth) == 1:
                        t = re.sub(r'arg\d+(\.[A-Za-z_]\w*)*', 'INPUT', oth[0])
                        t = t.replace('as_str(INPUT)', 'INPUT').replace('deref(INPUT)', 'INPUT')
                        out.add(t)
            return out
        cv, cd = compared(v), compared(d)
        R.check(cv == cd and len(cv) == 1, 'direct_solve_method|same-normalisation' + tag,
                'validate_direct_solve_method compares %s with the option names but the dispatcher compares %s: the two must apply the same '
                'normalisation to the stored string' % (sorted(cv), sorted(cd)), v.loc())
        R.check(sv and sv <= sd, 'direct_solve_method' + tag,
                'validate_direct_solve_method accepts %s but the dispatcher handles only %s' % (sorted(sv), sorted(sd)),
                d.loc(), detail={'validator': sorted(sv), 'dispatcher': sorted(sd)})

    R.guard(body)


def exp_format_guard(rep, F, tag):
    """_exp_str_reformat unwraps find('e') on the formatted number: it may only see finite values (inf / NaN print without
    an exponent).  Every call must sit on the true edge of an is_finite test of the very value it formats."""
    R = rep.rule('C04.R10', 'status printing cannot panic on non-finite figures: _exp_str_reformat is reached only under is_finite(value) == true')

    def body():
        n = 0
        for f in F.fns:
            cs = [c for c in f.calls if c.callee.name == '_exp_str_reformat']
            if not cs:
                continue
            dom = f.dominators()
            for c in cs:
                n += 1
                ok = False
                why = 'no dominating is_finite test'
                for b in dom[c.bb]:
                    t = f.blocks[b]['t']
                    if t['k'] != 'switch':
                        continue
                    k = canon(f.sym_operand(t['d']))
                    neg = k.startswith('not(')
                    if 'is_finite(' not in k:
                        continue
                    zero_t = [tb for v_, tb in t['ts'] if int(v_) == 0]
                    true_succ = t['o'] if zero_t else None
                    false_succ = zero_t[0] if zero_t else None
                    if neg:
                        true_succ, false_succ = false_succ, true_succ
                    if true_succ is not None and true_succ != false_succ and true_succ in dom[c.bb]:
                        ok = True
                    else:
                        why = 'the call is not on the true edge of %s' % k
                R.check(ok, 'finite-guard|%s|%d%s' % (short(f.key), cs.index(c), tag),
                        '%s formats a figure with _exp_str_reformat (which unwraps find(\'e\')) although %s: an infinite residual / cost makes print_status panic' % (f.key, why), f.loc(c.sp))
        R.check(n >= 5, 'sites' + tag, 'only %d _exp_str_reformat call sites found (anchor drift)' % n)

    R.guard(body)


def qdldl_unwrap_guard(rep, F, tag, rid='C04.R11'):
    """QDLDLDirectLDLSolver::refactor unwraps the Result of the numeric factorisation.  ZeroPivot is unreachable only because the
    engine's own pivot regularisation is always on (regularize_enable(true) at construction); making that flag follow a user
    setting turns an exact zero pivot into a panic inside solve()."""
    R = rep.rule(rid, 'the QDLDL wrapper may unwrap refactor() only while the engine\'s pivot regularisation is unconditionally enabled')

    def body():
        rf = F.one(name='refactor', adt='QDLDLDirectLDLSolver')
        unw = [c for c in rf.calls if c.callee.name in ('unwrap', 'expect') and canon(rf.sym_operand(c.args[0])).startswith('refactor(')]
        nw = F.one(name='new', adt='QDLDLDirectLDLSolver')
        re_ = [c for c in nw.calls if c.callee.name == 'regularize_enable']
        val = canon(nw.sym_operand(re_[0].args[-1])) if len(re_) == 1 else None
        if unw:
            R.check(val == 'true', 'always-regularised' + tag,
                    'QDLDLDirectLDLSolver::refactor unwraps the factorisation result, but the engine is built with regularize_enable(%s): with the '
                    'pivot regularisation off an exact zero pivot returns ZeroPivot and solve() panics instead of ending in NumericalError' % val, nw.loc())
        else:
            R.ok('refactor-result-handled' + tag, {'regularize_enable': val})

    R.guard(body)


def print_index_bounds(rep, F, tag):
    """The configuration header is printed inside solve(); an index panic there aborts the solve.  Every index into a local
    collection in the printing module must be bounded by that collection itself: a constant 0 (under the non-empty guard that
    precedes it), len(v) - k of the same v, or a range ending at len(v) - k - not a count obtained elsewhere."""
    R = rep.rule('C04.R13', 'printing cannot panic on an index: every index in the printing module is bounded by the indexed collection itself')

    def body():
        n = 0
        for f in F.fns:
            if not f.file.endswith('info_print.rs') or f.from_expansion:
                continue
            for c in f.calls:
                if c.callee.name not in ('index', 'index_mut') or len(c.args) != 2:
                    continue
                n += 1
                v = canon(f.sym_operand(c.args[0]))
                i_ = canon(f.sym_operand(c.args[1])).replace('withoverflow', '').replace(').0', ')')
                lv = 'len(%s)' % v
                ok = (re.fullmatch(r'\d+_usize', i_) is not None
                      or re.fullmatch(r'sub\(%s, \d+_usize\)' % re.escape(lv), i_) is not None
                      or re.fullmatch(r'Range(To|From)?::Range(To|From)?\((\d+_usize, )?(sub\(%s, \d+_usize\)|%s|\d+_usize)\)' % (re.escape(lv), re.escape(lv)), i_) is not None)
                R.check(ok, 'self-bounded|%s|%s%s' % (short(f.key), i_[:40], tag),
                        '%s indexes %s with %s, which is not bounded by that collection\'s own length: if the two disagree the header panics inside '
                        'solve()' % (f.key, v[:60], i_[:80]), f.loc(c.sp))
        R.check(n >= 3, 'index-sites' + tag, 'only %d index sites found in the printing module' % n)

    R.guard(body)


def dead_match_arms(rep, F, G, tag):
    """`match f(..) { .., V(_) => unreachable!() }`: the arm is dead only while f never constructs variant V.  For every explicit panic that
    is the target of a switch on the discriminant of a crate function's result, the callee (all resolved targets) must not build that
    variant anywhere in its body (flow-insensitive may-return set: an over-approximation, so silence is sound)."""
    R = rep.rule('C04.R14', 'match arms that panic on a variant of a crate function\'s result are dead: the callee never constructs that variant')

    def body():
        n = 0
        for f in F.fns:
            if f.from_expansion or f.impl_exp:
                continue
            panics = {c.bb for c in f.calls if (c.callee.key or '').startswith('core::panicking::panic') and 'bounds' not in (c.callee.key or '') and 'misaligned' not in (c.callee.key or '') and 'null' not in (c.callee.key or '')}
            if not panics:
                continue
            for b, blk in enumerate(f.blocks):
                t = blk['t']
                if t.get('k') != 'switch':
                    continue
                hit = [(v, tb) for v, tb in t.get('ts', []) if tb in panics]
                if not hit:
                    continue
                d = t['d'].get('m') or t['d'].get('c')
                if d is None or d['p']:
                    continue
                src = None
                for st in blk['s']:
                    if 'rv' in st and st['rv'].get('k') == 'discr' and st['p']['l'] == d['l'] and not st['rv']['p']['p']:
                        src = st['rv']['p']['l']
                if src is None:
                    continue
                calls = [c for c in f.calls if not c.dest['p'] and c.dest['l'] == src]
                if len(calls) != 1:
                    continue
                c = calls[0]
                tks = [k for k in G.targets_of(f, c) if k in F.by_key]
                if not tks:
                    continue
                for v, tb in hit:
                    n += 1
                    for tk in tks:
                        g = F.by_key[tk][0]
                        built = set()
                        unknown = False
                        for bi, si, st in g.assignments():
                            rv = st['rv']
                            if rv['k'] == 'agg' and rv['ak']['a'] == 'adt' and 'vi' in rv['ak'] and not st['p']['p']:
                                rty = (g.local_ty(st['p']['l']) if hasattr(g, 'local_ty') else None)
                                built.add((rv['ak']['adt'], int(rv['ak']['vi']), rv['ak'].get('variant')))
                        # the result type's ADT: take it from the aggregates assigned to _0 or flowing there; compare by discriminant index
                        ret_adts = {a for a, vi, nm in built if any(st['p']['l'] == 0 and not st['p']['p'] and st['rv']['k'] == 'agg' and st['rv']['ak'].get('adt') == a for bi, si, st in g.assignments())}
                        if not ret_adts:
                            # value returned through a local / another call: fall back to the callee's declared return type name
                            m = re.search(r'->\s*([\w:]+)', g.fty or '') if hasattr(g, 'fty') else None
                            ret_adts = {a for a, vi, nm in built if m and a.endswith(m.group(1).split('::')[-1])}
                        bad = [(a, vi, nm) for a, vi, nm in built if a in ret_adts and str(vi) == str(v)]
                        R.check(not bad, 'dead-arm|%s|%s|%s%s' % (short(f.key), g.name, v, tag),
                                '%s panics (unreachable!) when %s returns %s, but %s constructs that variant: the solve aborts instead of terminating with a status' % (
                                    f.key, g.name, bad[0][2] if bad else v, g.key), f.loc(c.sp))
        R.check(n >= 1, 'sites' + tag, 'no match-arm panic on a call result found (expected the scaling checkpoint in solve)')

    R.guard(body)


def empty_cones_dropped(rep, F, tag):
    """Cone constructors assert a minimum dimension (a second-order cone needs dim >= 2): an empty cone of *any* type in the user's
    list must be removed by the clean-up pass, not only empty zero / nonnegative cones.  In new_collapsed every cone that is kept
    (pushed, or used to start a collapsed run) has been tested nvars() != 0, whatever its type."""
    R = rep.rule('C04.R16', 'cone clean-up: a cone is kept only after the type-independent test nvars() != 0 (an empty cone of any type is dropped before its constructor can assert)')

    def body():
        f = F.one(name='new_collapsed')
        n = 0
        for val, ret, ev, tr in Walker(f, cut_loops=True).leaves():
            kept = [e for e in ev if e[0] == 'call' and e[1] in ('push', 'collapse')]
            if not kept:
                continue
            n += 1
            nz = [v for k, v in val.items() if re.fullmatch(r'ne\((0_usize, nvars\(.*\)|nvars\(.*\), 0_usize)\)', k)] + \
                 [1 - v for k, v in val.items() if re.fullmatch(r'eq\((0_usize, nvars\(.*\)|nvars\(.*\), 0_usize)\)', k)] + \
                 [v for k, v in val.items() if re.fullmatch(r'lt\(0_usize, nvars\(.*\)\)', k)]
            R.check(bool(nz) and nz[0] == 1, 'kept-only-nonempty|%s%s' % (sorted(v for k, v in val.items() if k.startswith('discr(') and k.endswith('@Some.0)')), tag),
                    'new_collapsed keeps a cone (%s) on a path that has not established nvars() != 0 (tests: %s): an empty cone of that type reaches its constructor, '
                    'whose dimension assert aborts DefaultSolver::new' % (kept[0][1], sorted(k[:60] for k in val)), f.loc())
        R.check(n >= 3, 'paths' + tag, 'only %d keeping paths of new_collapsed analysed' % n, f.loc())

    R.guard(body)


def settings_conversions(rep, F, tag):
    """Duration::from_secs_f64 / from_secs_f32 panic on negative, non-finite or huge (> ~1.8e19) arguments.  Applied to a measured time
    that is fine; applied to a user setting (time_limit may legitimately be f64::MAX - the JSON writer stores exactly that for
    "no limit") it turns a verbose solve into a panic."""
    R = rep.rule('C04.R15', 'no panicking std conversion (Duration::from_secs_f64/f32) is applied to a settings field')

    def body():
        fields = set()
        for nm in ('DefaultSettings', 'CoreSettings'):
            try:
                for v in F.adt(nm)['variants']:
                    fields |= {fl['n'] for fl in v['fields']}
            except Exception:
                pass
        if len(fields) < 10:
            raise AnchorError('settings fields not found')
        n = 0
        for f in F.fns:
            if f.from_expansion:
                continue
            for c in f.calls:
                k = c.callee.key or ''
                if not re.search(r'Duration::(from_secs_f64|from_secs_f32)$', k):
                    continue
                n += 1
                a = canon(f.sym_operand(c.args[0]))
                hit = [x for x in fields if re.search(r'\.%s\b' % re.escape(x), a)]
                R.check(not hit, 'settings-duration|%s|%s%s' % (short(f.key), ','.join(sorted(hit)), tag),
                        '%s converts the setting %s with %s, which panics for values above ~1.8e19 s, negative or NaN: use the fallible '
                        'try_from_secs_f64 or format the number itself' % (f.key, sorted(hit), k.rsplit('::', 1)[-1]), f.loc(c.sp))
        R.check(n >= 1, 'sites' + tag, 'no Duration::from_secs_f64 call found (expected the footer\'s solve time)')

    R.guard(body)


def fail_sets_status(rep, F, tag):
    """The main loop leaves through `StrategyCheckpoint::Fail => break`; solve() then returns whatever status the info holds.  Every path of
    a checkpoint that returns Fail must therefore have a terminal status in place: it sets one itself (NumericalError,
    InsufficientProgress), or it is only taken when the status already is InsufficientProgress (the slow-progress checkpoint)."""
    R = rep.rule('C04.R17', 'every checkpoint path that returns Fail has set a terminal status (or runs only under status == InsufficientProgress)')

    def body():
        n = 0
        for f in F.fns:
            if not (f.name.startswith('strategy_checkpoint_') and f.dk == 'AssocFn' and f.impl_self):
                continue
            for val, ret, ev, tr in Walker(f).leaves():
                if ret[0] != 's' or not str(ret[1]).endswith('::Fail'):
                    continue
                n += 1
                sets = [split_args(str(e[2]))[1] for e in ev if e[0] == 'call' and e[1] == 'set_status']
                term = [x for x in sets if x.rsplit('::', 1)[-1] in ('NumericalError', 'InsufficientProgress', 'MaxIterations', 'MaxTime')]
                under_ip = any((k in ('ne(SolverStatus::InsufficientProgress, get_status(self.info))', 'ne(get_status(self.info), SolverStatus::InsufficientProgress)') and v == 0)
                               or (k in ('eq(SolverStatus::InsufficientProgress, get_status(self.info))', 'eq(get_status(self.info), SolverStatus::InsufficientProgress)') and v == 1) for k, v in val.items())
                R.check(bool(term) or under_ip, 'fail-has-status|%s|%s%s' % (f.name, sorted(v for v in val.values()), tag),
                        '%s returns Fail under %s without setting a terminal status (set_status calls on the path: %s): the loop breaks and solve() returns Unsolved' % (
                            f.name, {k[:50]: v for k, v in val.items()}, sets), f.loc())
        R.check(n >= 6, 'paths' + tag, 'only %d Fail-returning checkpoint paths analysed' % n)

    R.guard(body)


def scratch_restored(rep, F, tag):
    """The nonsymmetric cones borrow their scratch vectors by std::mem::take and put them back before returning.  A return between the two leaves an
    empty vector behind: the next use (the combined-direction line search of the same iteration, compute_barrier, the next solve) fails a length
    assertion - a panic inside solve()."""
    R = rep.rule('C04.R19', 'every scratch buffer taken out of self with mem::take is stored back on every returning path')

    def body():
        n = 0
        for f in F.fns:
            tk = [c for c in f.calls if c.callee.name == 'take' and (c.callee.path or '').endswith('mem::take') and c.args]
            fields = sorted(set(canon(f.sym_operand(c.args[0])) for c in tk))
            fields = [x for x in fields if x.startswith('self.')]
            if not fields:
                continue
            for val, ret, ev, tr in Walker(f, cut_loops=True, local_stores=True).leaves():
                if ret[0] not in ('s', 'c'):
                    continue
                for fld in fields:
                    taken = [i for i, e in enumerate(ev) if e[0] == 'call' and e[1] == 'take' and str(e[2]) == 'take(%s)' % fld]
                    if not taken:
                        continue
                    n += 1
                    back = [i for i, e in enumerate(ev) if e[0] == 'store' and str(e[1]) == fld and i > taken[-1]]
                    R.check(bool(back), 'restored|%s|%s%s' % (f.name, fld.rsplit('.', 1)[-1], tag),
                            '%s returns on the path %s without storing %s back after mem::take: the scratch vector stays empty and the next use panics on its length' % (
                                f.name, {k[:40]: v for k, v in val.items()}, fld), f.loc())
        R.check(n >= 3, 'instances' + tag, 'only %d take/restore paths analysed' % n)

    R.guard(body)


def _num_mixed(t, env):
    """numeric value of a canonical text with Rust's integer semantics for usize operands (integer division truncates)"""
    t = t.strip()
    if t in env:
        return env[t]
    m = re.fullmatch(r'(\d+)_(usize|u32|u64|i32|i64)', t)
    if m:
        return int(m.group(1))
    m = re.fullmatch(r'(-?\d+(?:\.\d+)?(?:e-?\d+)?)(f64|f32)?', t)
    if m:
        return float(m.group(1))
    if t == 'one()':
        return 1.0
    if t == 'zero()':
        return 0.0
    if t == 'epsilon()':
        return 2.220446049250313e-16
    if '(' not in t:
        raise ValueError(t)
    nm = t[:t.index('(')].replace('withoverflow', '')
    a = [_num_mixed(x, env) for x in split_args(t)]
    if nm in ('as_T', 'clone', 'from', 'into'):
        return float(a[0])
    if nm == 'add':
        return a[0] + a[1]
    if nm == 'sub':
        return a[0] - a[1]
    if nm == 'mul':
        return a[0] * a[1]
    if nm == 'div':
        return a[0] // a[1] if isinstance(a[0], int) and isinstance(a[1], int) else a[0] / a[1]
    if nm == 'shr':
        return a[0] >> a[1]
    if nm in ('max', 'min'):
        return max(a) if nm == 'max' else min(a)
    raise ValueError(t)


def genpow_sum_tolerance(rep, F, tag):
    """A generalised power cone with exponents that sum to one exactly must be accepted for every length, 1 included: the tolerance of the sum check has to
    be positive for len = 1, 2, 3 (an integer halving before the conversion to float makes it 0 for a single exponent: `|1 - 1| < 0' is false and the
    constructor panics on a well-formed cone)."""
    R = rep.rule('C04.R20', 'GenPowerConeData::new: the tolerance of the exponent-sum check is positive for every admissible number of exponents')

    def body():
        fs = [f for f in F.find(name='new') if 'GenPowerConeData' in (f.impl_self or '')]
        if len(fs) != 1:
            raise AnchorError('GenPowerConeData::new matched %d functions' % len(fs))
        f = fs[0]
        ks = set()
        for val, ret, ev, tr in Walker(f, cut_loops=True, local_stores=True).leaves():
            for k in val:
                if 'sum(' in k and k.startswith(('lt(', 'le(')):
                    ks.add(resolve_path_locals(f, k, tr))
        if not R.check(len(ks) == 1, 'sum-test' + tag, 'exponent-sum tests found: %s' % sorted(k[:80] for k in ks), f.loc()):
            return
        k = list(ks)[0]
        tol = split_args(k)[1]
        for n_ in (1, 2, 3, 7):
            try:
                v = _num_mixed(tol, {'len(arg1)': n_, 'var:dim1': n_})
            except (ValueError, ZeroDivisionError, TypeError) as ex:
                R.bad('tolerance-evaluable' + tag, 'the tolerance %s of the exponent-sum check could not be evaluated (%r)' % (tol[:80], ex), f.loc())
                return
            R.check(v > 0, 'positive|len=%d%s' % (n_, tag), 'for %d exponent(s) the tolerance %s of the exponent-sum check evaluates to %r: an exact sum of one is rejected '
                    '(strict `<`), the constructor panics on a well-formed cone' % (n_, tol[:80], v), f.loc())

    R.guard(body)


def run(ctx, rep, tier):
    for cfg in CONFIGS:
        F = ctx.facts(cfg)
        E = ctx.eff(cfg)
        G = ctx.cg(cfg)
        tag = '' if cfg == 'default' else '[%s]' % cfg
        ranking(rep, F, tag)
        limits(rep, F, tag)
        clock(rep, F, E, tag)
        timer_stack(rep, F, tag)
        bounded_loops(rep, F, tag)
        construction_checks(rep, F, tag)
        dead_panics(rep, F, G, tag)
        settings_strings(rep, F, tag)
        exp_format_guard(rep, F, tag)
        qdldl_unwrap_guard(rep, F, tag)
        print_index_bounds(rep, F, tag)
        dead_match_arms(rep, F, G, tag)
        settings_conversions(rep, F, tag)
        empty_cones_dropped(rep, F, tag)
        fail_sets_status(rep, F, tag)
        scratch_restored(rep, F, tag)
        genpow_sum_tolerance(rep, F, tag)
        from . import steplen
        steplen.barrier_trial_points(rep, F, tag, 'C04.R18')
        shared.status_provenance(rep, F, E, tag, 'C04.R12', statuses=('Solved',), full_fn='check_convergence_full', slot=9)
        # degenerate cones (empty, singleton) are collapsed before anything else sees the cone list
        from . import c05
        c05.input_normalisation(_Ren(rep, 'C05.R5', 'C04.R9'), F, tag)


class _Ren:
    def __init__(self, rep, old, new):
        self.rep, self.old, self.new = rep, old, new
        self.assumptions = rep.assumptions

    def rule(self, rid, desc):
        return self.rep.rule(self.new if rid == self.old else rid, desc)
