"""C03 -- the solver's report is truthful and self-consistent (structural clauses)"""
from . import shared

CONFIGS = ['default', 'full']
TECHNIQUE = 'MIR store/copy provenance tables, sibling agreement (save/reset), who-may-write effects, units abstract interpretation'
EXPLANATION = (
    "Decides on the MIR of the current tree: (R1) every reported figure is a copy of the matching DefaultInfo "
    "field (field-to-field table) and nobody else writes it; (R2) units: objective formulas; (R3) Almost* "
    "constants come only from check_convergence_almost, called only from Info::post_process under "
    "is_errored/MaxIterations/MaxTime with the six reduced tolerances position by position; (R4) rollback "
    "save/reset symmetry over the six reported scalars + all five iterate components; (R5) vector lengths from "
    "the user's A; (R6) iterations written only by reset/save_scalars from the loop counter; (R3p/R1n/R7) the shared predicate tables, NaN-objective rule and units premises are re-run under this id. NOT decided: "
    "agreement 'to rounding' of recomputed values."
    " (R3t) also checks the tolerance plumbing of the full-accuracy check (Solved is judged with tol_feas, not reduced_tol_feas).")
ASSUMPTIONS = ['rustc MIR construction and trait resolution are correct']


def run(ctx, rep, tier):
    for cfg in CONFIGS:
        F = ctx.facts(cfg)
        E = ctx.eff(cfg)
        G = ctx.cg(cfg)
        tag = '' if cfg == 'default' else '[%s]' % cfg
        shared.report_provenance(rep, F, E, tag, 'C03.R1')
        shared.pred_is_solved(rep, F, tag, 'C03.R3p')
        shared.pred_check_convergence(rep, F, tag, 'C03.R3p')
        shared.nan_objectives(rep, F, tag, 'C03.R1n')
        shared.status_provenance(rep, F, E, tag, 'C03.R3', statuses=('AlmostSolved', 'AlmostPrimalInfeasible', 'AlmostDualInfeasible'),
                                 full_fn='check_convergence_almost', slot=9)
        shared.tolerance_plumbing(rep, F, tag, 'C03.R3t', which='almost')
        shared.tolerance_plumbing(rep, F, tag, 'C03.R3t', which='full')
        shared.almost_only_reduced(rep, F, G, tag, 'C03.R3g')
        shared.rollback_symmetry(rep, F, tag, 'C03.R4')
        shared.unscale_before_copy(rep, F, E, tag, 'C03.R5')
        shared.iteration_count(rep, F, E, tag, 'C03.R6')
        shared.freshness(rep, F, E, G, tag, 'C03.R1f')
    from . import units_rules
    units_rules.c03(ctx, rep)
    from . import primitives
    primitives.vector_primitives(rep, ctx.facts('default'), ctx.eff('default'), '', 'C03.R8')


