"""C11 -- the assembled KKT system is the intended matrix (structural clauses)"""
import re
from engine.mir import last_seg, show, AnchorError, strip_generics
from engine.preds import canon, Walker
from engine.effects import IDX, fmt_path
from .common import *
from . import shared

CONFIGS = ['default', 'full']
TECHNIQUE = 'sibling agreement (count pass vs fill pass, per shape and per cone kind), constant-table agreement (pdim/D/Dsigns/nnz_vec), sign-domain evaluation, pairing rule on the regularisation restore, effect rules on the scaling state'
EXPLANATION = (
    "Entry positions and values are index arithmetic over runtime data and are NOT decided. Decided on the MIR of the "
    "current tree are the agreements that must hold for any pattern: (R1) the column-count pass and the fill pass "
    "perform the same block operations with the same matrix / offset / transpose arguments in each triangle layout, "
    "the same per-cone branch structure, row offsets and auxiliary-column progression, also inside each sparse-cone "
    "expansion; fill order of the missing diagonal per layout; (R2) the allocation count is the sum of the seven "
    "documented terms and pdim = |D| = |Dsigns|, nnz_vec = sum of the off-diagonal index vectors for each expansion "
    "map; (R3) the signs written through map.D equal the Dsigns literal; _fill_signs is (+ on x, - on z, Dsigns per "
    "map, placed by a running offset that advances by each map's own pdim); the Hs block is negated before it is written; the regulariser shifts with the sign; (R4) the "
    "regularisation shift and its restore are guarded by the same flag, the restore follows the refactorisation and "
    "iterative refinement reads only the restored copy; (R5) one scaling state per factorisation: nothing between kktsystem.update and the last kktsystem.solve of an iteration writes a field that get_Hs / the sparse update / mul_Hs read; (R6) all four passes select sparse cones with the same test; (R8) get_Hs of every cone type fills its whole block; (R7) KKT mirror discipline: the value array and the LDL engine's permuted copy are written only through the paired helpers (re-run of C08.R5)."
    " (R6) also: the second-order cone's layout predicates are its representation flag (sparse_data) or literally the allocation test of new; (R9) GenPowerCone::mul_Hs applies mu (D + p p' - q q' - r r') with whole-block inner products and get_Hs the diagonal mu d1, mu d2."
    " R9 also: the expansion columns p, q, r are each scaled by -sqrt(mu)."
    " (R10) fill_block / colcount_block place an entry (r, j, v) of a block at (r + initrow, j + initcol) resp. transposed, with value and map entry, count = fill (C16.R10 re-run)."
    " (R11) colcount_missing_diag and fill_missing_diag take the same column-by-column decision.")
ASSUMPTIONS = ['rustc MIR construction and trait resolution are correct',
               'the block utilities (colcount_block/fill_block ...) are mutually consistent (C16 territory)']

PAIR = {'colcount_block': 'fill_block', 'colcount_missing_diag': 'fill_missing_diag', 'colcount_diag': 'fill_diag',
        'colcount_dense_triangle': 'fill_dense_triangle', 'csc_colcount_sparsecone': 'csc_fill_sparsecone',
        'colcount_colvec': 'fill_colvec', 'colcount_rowvec': 'fill_rowvec'}


def split_args(k):
    inner = k[k.index('(') + 1:-1]
    out = []
    d = 0
    cur = ''
    for ch in inner:
        if ch in '([':
            d += 1
        elif ch in ')]':
            d -= 1
        if ch == ',' and d == 0:
            out.append(cur.strip())
            cur = ''
        else:
            cur += ch
    if cur.strip():
        out.append(cur.strip())
    return out


def abstract(name, key, side):
    """(kind, abstract args) of a block operation; side = 'count' | 'fill'"""
    a = split_args(key)
    if name in ('colcount_block',):
        return ('block', a[1], a[2], a[3])
    if name == 'fill_block':
        return ('block', a[1], a[4], a[5])
    if name in ('colcount_missing_diag', 'fill_missing_diag'):
        return ('missing_diag', a[1], a[2])
    if name == 'colcount_diag':
        return ('diag', a[1], a[2])
    if name == 'fill_diag':
        return ('diag', a[2], a[3])
    if name == 'colcount_dense_triangle':
        return ('dense_triangle', a[1], a[2], a[3])
    if name == 'fill_dense_triangle':
        return ('dense_triangle', a[2], a[3], a[4])
    if name in ('csc_colcount_sparsecone', 'csc_fill_sparsecone'):
        m = a[1].replace('iter_mut(', 'iter(')
        return ('sparsecone', a[0], m, a[3], a[4], a[5])
    return None


def passes_agree(rep, F, tag):
    R = rep.rule('C11.R1', 'count pass == fill pass (block operations, arguments, per-cone structure, sparse expansions)')

    def table(f, side):
        rows = {}
        for val, ret, ev, tr in Walker(f, cut_loops=True).leaves():
            if ret[0] == 'diverge':
                continue
            shape = [v for k, v in val.items() if k == 'discr(arg6)']
            if not shape:
                continue
            br = tuple(sorted((re.sub(r'\(.*', '', k), v) for k, v in val.items() if k.startswith('Hs_is_diagonal(') or k.startswith('is_sparse_expandable(')))
            ops = []
            for e in ev:
                if e[0] == 'call' and (e[1] in PAIR or e[1] in PAIR.values()):
                    ab = abstract(e[1], e[2], side)
                    if ab:
                        ops.append(ab)
            pd = [e[2].replace('iter_mut(', 'iter(') for e in ev if e[0] == 'call' and e[1] == 'pdim']
            rows[(shape[0], br)] = (ops, pd)
        return rows

    def body():
        cc = F.one(name='_kkt_assemble_colcounts')
        fl = F.one(name='_kkt_assemble_fill')
        tc, tf = table(cc, 'count'), table(fl, 'fill')
        R.check(set(tc) == set(tf) and len(tc) >= 10, 'branch-structure' + tag,
                'the two passes do not have the same (shape x cone kind) case structure: only-count=%s only-fill=%s' % (
                    sorted(set(tc) - set(tf))[:2], sorted(set(tf) - set(tc))[:2]), cc.loc())
        for key in sorted(set(tc) & set(tf)):
            (oc, pc), (of, pf) = tc[key], tf[key]
            shape = 'Triu' if key[0] == 0 else 'Tril'
            R.check(sorted(oc) == sorted(of), 'ops|%s|%s%s' % (shape, key[1], tag),
                    'layout %s, cone case %s: the count pass performs %s but the fill pass performs %s' % (
                        shape, dict(key[1]), [o for o in oc if o not in of][:2], [o for o in of if o not in oc][:2]), fl.loc())
            R.check(pc == pf, 'pcol|%s|%s%s' % (shape, key[1], tag), 'auxiliary column progression differs: %s vs %s' % (pc, pf), fl.loc())
            # ordering of the missing diagonal relative to P in the fill pass
            names = [o[0] + ':' + o[1] for o in of]
            if 'missing_diag:arg2' in names and 'block:arg2' in names:
                md, bp = names.index('missing_diag:arg2'), names.index('block:arg2')
                R.check((md > bp) if shape == 'Triu' else (md < bp), 'diag-order|%s|%s%s' % (shape, key[1], tag),
                        'layout %s: the missing diagonal must be filled %s the P block' % (shape, 'after' if shape == 'Triu' else 'before'), fl.loc())
        # maps wired to the right matrices in the fill pass
        for val, ret, ev, tr in Walker(fl, cut_loops=True).leaves():
            for e in ev:
                if e[0] == 'call' and e[1] == 'fill_block':
                    a = split_args(e[2])
                    R.check((a[1], a[2]) in (('arg2', 'arg5.P'), ('arg3', 'arg5.A')), 'map-wiring|%s%s' % (a[1], tag),
                            'fill_block records the positions of %s into %s' % (a[1], a[2]), fl.loc())
        # sparse-cone expansions
        for K, MAP in (('SecondOrderCone', 'SOCExpansionMap'), ('GenPowerCone', 'GenPowExpansionMap')):
            cf = [g for g in F.fns if g.name == 'csc_colcount_sparsecone' and K in (g.impl_self or '')]
            ff = [g for g in F.fns if g.name == 'csc_fill_sparsecone' and K in (g.impl_self or '')]
            if len(cf) != 1 or len(ff) != 1:
                raise AnchorError('sparse expansion impls for %s' % K)
            cf, ff = cf[0], ff[0]
            # declared lengths of the map vectors
            mn = F.one(name='new', adt=MAP)
            lens = {}
            for bi, si, st in mn.assignments():
                rv = st['rv']
                if rv['k'] == 'agg' and rv['ak']['a'] == 'adt' and last_seg(strip_generics(rv['ak']['adt'])) == MAP:
                    for nm, op in zip(rv['ak']['fields'], rv['ops']):
                        c = canon(mn.sym_operand(op))
                        m = re.match(r'from_elem\(0_usize, (\w+)\(', c)
                        lens[nm] = m.group(1) if m else c

            def rows(f, side):
                out = {}
                for val, ret, ev, tr in Walker(f).leaves():
                    if ret[0] == 'diverge':
                        continue
                    sh = [v for k, v in val.items() if k == 'discr(arg6)']
                    if not sh:
                        continue
                    ops = []
                    for e in ev:
                        if e[0] == 'call' and e[1] in ('colcount_colvec', 'colcount_rowvec', 'fill_colvec', 'fill_rowvec', 'colcount_diag', 'fill_diag'):
                            a = split_args(e[2])
                            kind = e[1].split('_', 1)[1]
                            if kind == 'diag':
                                ops.append(('diag', 'pdim', a[1] if side == 'count' else a[2], ''))
                                continue
                            if side == 'count':
                                ln = re.sub(r'\(.*', '', a[1])
                                ops.append((kind, ln, re.sub(r'addwithoverflow\((.*)\)\.0', r'\1', a[2]), re.sub(r'addwithoverflow\((.*)\)\.0', r'\1', a[3])))
                            else:
                                fld = a[1].rsplit('.', 1)[-1]
                                ln = lens.get(fld, fld)
                                ops.append((kind, ln, re.sub(r'addwithoverflow\((.*)\)\.0', r'\1', a[2]), re.sub(r'addwithoverflow\((.*)\)\.0', r'\1', a[3])))
                    out[sh[0]] = ops
                return out
            rc, rf = rows(cf, 'count'), rows(ff, 'fill')
            for sh in sorted(set(rc) | set(rf)):
                a, b = rc.get(sh), rf.get(sh)
                norm = lambda ops: sorted((k, re.sub(r'^numel$|^nvars$', 'numel', l), r, c) for k, l, r, c in ops)
                na = norm(a or [])
                nb = norm(b or [])
                # pdim entry: count uses pdim(map) ; fill uses the D array: both are 'diag' with length pdim
                na = [(k, 'pdim' if k == 'diag' else l, r, c) for k, l, r, c in na]
                nb = [(k, 'pdim' if k == 'diag' else l, r, c) for k, l, r, c in nb]
                R.check(na == nb and len(na) >= 3, 'expansion|%s|%s%s' % (K, 'Triu' if sh == 0 else 'Tril', tag),
                        '%s expansion, layout %s: count pass %s vs fill pass %s' % (K, 'Triu' if sh == 0 else 'Tril', na, nb), ff.loc())

    R.guard(body)


def flatten_sum(k):
    """signed terms of an add/sub tree printed by canon (overflow wrappers included)"""
    k = k.strip()
    m = re.fullmatch(r'(addwithoverflow|subwithoverflow|add|sub)\((.*)\)(\.0)?', k)
    if m:
        a = split_args(m.group(1) + '(' + m.group(2) + ')')
        if len(a) == 2:
            l = flatten_sum(a[0])
            r = flatten_sum(a[1])
            if m.group(1).startswith('sub'):
                r = [(-s, t) for s, t in r]
            return l + r
    return [(1, k)]


def size_bookkeeping(rep, F, tag):
    R = rep.rule('C11.R2', 'allocation count = seven documented terms; pdim = |D| = |Dsigns|; nnz_vec = sum of off-diagonal vectors')

    def body():
        f = F.one(name='assemble_kkt_matrix')
        sp = [c for c in f.calls if c.callee.name == 'spalloc']
        if len(sp) != 1:
            raise AnchorError('spalloc call')
        nnz = canon(f.sym_operand(sp[0].args[1]))
        terms = sorted(flatten_sum(nnz))
        want = sorted([(1, 'nnz(arg1)'), (1, 'size(arg2).1'), (-1, 'count_diagonal_entries(arg1, MatrixTriangle::Triu)'), (1, 'nnz(arg2)'),
                       (1, 'len(new(arg1, arg2, arg3).Hsblocks)'), (1, 'nnz_vec(new(arg1, arg2, arg3).sparse_maps)'), (1, 'pdim(new(arg1, arg2, arg3).sparse_maps)')])
        R.check(terms == want, 'nnzKKT-terms' + tag, 'nnzKKT is %s; expected the seven terms %s' % (terms, want), f.loc(sp[0].sp))
        dims = canon(f.sym_operand(sp[0].args[0]))
        R.check(dims.count('pdim(') == 2 and dims.count('size(arg2)') >= 4, 'dimension' + tag, 'KKT dimension is %s' % dims, f.loc(sp[0].sp))
        for MAP, vecs in (('SOCExpansionMap', ('u', 'v')), ('GenPowExpansionMap', ('p', 'q', 'r'))):
            pd = F.one(name='pdim', adt=MAP)
            ds = F.one(name='Dsigns', adt=MAP)
            nv = F.one(name='nnz_vec', adt=MAP)
            p = canon(pd.sym_local(0))
            m = re.match(r'(\d+)_usize', p)
            sig = canon(ds.sym_local(0))
            nsig = len(split_args(sig)) if sig.startswith('array(') else -1
            adt = F.adt(MAP)
            dty = [fl['ty'] for fl in adt['variants'][0]['fields'] if fl['n'] == 'D'][0]
            md = re.match(r'\[usize; (\d+)\]', dty)
            R.check(bool(m) and bool(md) and int(m.group(1)) == int(md.group(1)) == nsig, 'pdim|%s%s' % (MAP, tag),
                    '%s: pdim()=%s, D has type %s, Dsigns()=%s - the three must have the same length' % (MAP, p, dty, sig), pd.loc())
            n = canon(nv.sym_local(0))
            if MAP == 'SOCExpansionMap':
                ok = n in ('mulwithoverflow(2_usize, len(self.v)).0', 'mulwithoverflow(2_usize, len(self.u)).0', 'mul(2_usize, len(self.v))') or sorted(t for s, t in flatten_sum(n)) == ['len(self.u)', 'len(self.v)']
            else:
                ok = sorted(flatten_sum(n)) == sorted((1, 'len(self.%s)' % v) for v in vecs)
            R.check(ok, 'nnz_vec|%s%s' % (MAP, tag), '%s::nnz_vec returns %s, expected the total length of %s' % (MAP, n, vecs), nv.loc())
            # the vectors all have their declared lengths from the cone
        vp = F.one(name='pdim', self_ty='std::vec::Vec')
        vn = F.one(name='nnz_vec', self_ty='std::vec::Vec')
        for g, inner in ((vp, 'pdim'), (vn, 'nnz_vec')):
            clo = F.closures_of.get(g.key, [])
            R.check(any(any(c.callee.name == inner for c in x.calls) for x in clo) and any(c.callee.name == 'fold' for c in g.calls), 'vec-%s%s' % (inner, tag),
                    'Vec<SparseExpansionMap>::%s is not the sum of the per-map values' % inner, g.loc())

    R.guard(body)


def sign_of(k):
    k = k.strip()
    if k.startswith('neg(') and k.endswith(')'):
        s = sign_of(k[4:-1])
        return {'+': '-', '-': '+'}.get(s, s)
    if k in ('one()',):
        return '+'
    m = re.fullmatch(r'(-?)(\d+)(_i8|_i32|f64|f32)?', k)
    if m:
        return '-' if m.group(1) else ('+' if int(m.group(2)) > 0 else '0')
    if k.startswith('mul(') and k.endswith(')'):
        a = split_args(k)
        if len(a) == 2 and a[0] == a[1]:
            return '+'
        if len(a) == 2:
            sa, sb = sign_of(a[0]), sign_of(a[1])
            if sa in '+-' and sb in '+-':
                return '+' if sa == sb else '-'
    if k.startswith('sqrt('):
        return '+'
    return '?'


def sign_pattern(rep, F, tag):
    R = rep.rule('C11.R3', 'sign pattern: values written through map.D vs Dsigns; _fill_signs; negated Hs block; signed regulariser')

    def body():
        for K, MAP in (('SecondOrderCone', 'SOCExpansionMap'), ('GenPowerCone', 'GenPowExpansionMap')):
            uf = [g for g in F.fns if g.name == 'csc_update_sparsecone' and K in (g.impl_self or '')]
            if len(uf) != 1:
                raise AnchorError('csc_update_sparsecone for %s' % K)
            uf = uf[0]
            ds = canon(F.one(name='Dsigns', adt=MAP).sym_local(0))
            want = [sign_of(x) for x in split_args(ds)]
            got = None
            for c in uf.calls:
                if c.callee.indirect is None:
                    continue
                ops = None
                if len(c.args) == 4:
                    ops = [uf.sym_operand(a) for a in c.args]
                elif len(c.args) == 2:
                    tup = uf.sym_operand(c.args[1])
                    while tup[0] in ('ref', 'deref'):
                        tup = tup[1]
                    if tup[0] == 'agg' and len(tup[2]) == 4:
                        ops = list(tup[2])
                if ops:
                    idx = canon(ops[2])
                    if idx.endswith('.D'):
                        vals = canon(ops[3])
                        if vals.startswith('array('):
                            got = [sign_of(x) for x in split_args(vals)]
            R.check(got is not None and got == want, 'D-signs|%s%s' % (K, tag),
                    '%s: the diagonal values written through map.D have signs %s but Dsigns() declares %s: the regulariser / '
                    'pivot-sign bookkeeping would disagree with the matrix' % (K, got, want), uf.loc())
        fs = F.one(name='_fill_signs')
        ev = []
        for val, ret, evs, tr in Walker(fs, cut_loops=True).leaves():
            if len(evs) > len(ev):
                ev = evs
        calls = [e[2] for e in ev if e[0] == 'call']
        R.check(any(k == 'fill(arg1, 1_i8)' for k in calls), 'fill_signs|default+' + tag, '_fill_signs does not start from +1: %s' % calls[:4], fs.loc())
        neg = [g for g in F.closures_of.get(fs.key, []) if any(st['rv']['k'] == 'un' and st['rv']['op'] == 'Neg' for bi, si, st in g.assignments())]
        R.check(len(neg) == 1, 'fill_signs|negate-z' + tag, '_fill_signs does not negate the constraint block', fs.loc())
        rng = [canon(fs.sym_operand(o)) for bi, si, st in fs.assignments() if st['rv']['k'] == 'agg' and st['rv']['ak']['a'] == 'adt' and last_seg(strip_generics(st['rv']['ak']['adt'])) == 'Range' for o in st['rv']['ops']]
        R.check('arg3' in rng and any(x.startswith('addwithoverflow(arg3, arg2)') for x in rng), 'fill_signs|range' + tag, '_fill_signs negates the range %s, expected n..n+m' % rng, fs.loc())
        allcalls = set()
        for val, ret, evs, tr in Walker(fs, cut_loops=True).leaves():
            for e in evs:
                if e[0] == 'call':
                    allcalls.add(e[1])
        R.check('Dsigns' in allcalls and 'copy_from_slice' in allcalls, 'fill_signs|maps' + tag, '_fill_signs does not copy the per-map Dsigns', fs.loc())
        # the per-map sign blocks sit where the KKT assembly puts the extension diagonals: a running offset that starts
        # at m+n and advances by pdim of the map just written (the maps may have different pdim: SOC 2, GenPow 3)
        cp = [c for c in fs.calls if c.callee.name == 'copy_from_slice']
        ok = False
        why = 'no copy_from_slice'
        if len(cp) == 1:
            dst = fs.sym_operand(cp[0].args[0])
            srcmap = canon(fs.sym_operand(cp[0].args[1]))
            # find the Range aggregate feeding the destination slice
            cands = []
            for bi, si, st in fs.assignments():
                if st['rv']['k'] == 'agg' and st['rv']['ak']['a'] == 'adt' and last_seg(strip_generics(st['rv']['ak']['adt'])) == 'Range':
                    ops = [fs.sym_operand(o) for o in st['rv']['ops']]
                    txt = [canon(o) for o in ops]
                    if 'pdim(' in txt[1]:
                        cands.append((ops, txt))
            if len(cands) == 1:
                (lo, hi), (tlo, thi) = cands[0]
                why = 'block range %s..%s' % (tlo, thi)
                if lo[0] == 'var':
                    defs = fs.defs.get(lo[1], [])
                    vals = []
                    for d in defs:
                        if d[0] == 's':
                            vals.append(canon(fs.sym_rvalue(fs.blocks[d[1]]['s'][d[2]]['rv'])).replace('withoverflow', '').replace(').0', ')'))
                    init = [v for v in vals if v in ('add(arg2, arg3)', 'add(arg3, arg2)')]
                    step = [v for v in vals if re.fullmatch(r'add\(var:\w+, pdim\(.*\)\)|add\(pdim\(.*\), var:\w+\)', v)]
                    nthi = thi.replace('withoverflow', '').replace(').0', ')')
                    marg = None
                    k0 = nthi.find('pdim(')
                    if k0 >= 0:
                        depth, k1 = 0, k0 + len('pdim(')
                        for k2 in range(k1, len(nthi)):
                            if nthi[k2] == '(':
                                depth += 1
                            elif nthi[k2] == ')':
                                if depth == 0:
                                    marg = nthi[k1:k2]
                                    break
                                depth -= 1
                    same_map = marg is not None and ('Dsigns(%s)' % marg) in srcmap and all(('pdim(%s)' % marg) in v for v in step)
                    ok = len(vals) == 2 and len(init) == 1 and len(step) == 1 and same_map and nthi in (
                        'add(%s, pdim(%s))' % (tlo, marg), 'add(pdim(%s), %s)' % (marg, tlo))
                    why += '; offset defined by %s' % vals
                else:
                    why += '; the offset is not a running variable'
        R.check(ok, 'fill_signs|running-offset' + tag,
                '_fill_signs places the per-map sign block by %s: expected a running offset that starts at m+n and advances by pdim() of the '
                'map whose Dsigns were just copied (maps of different kinds have different pdim)' % why, fs.loc())
        up = F.one(name='update', adt='DirectLDLKKTSolver')
        gh = one_call(up, 'get_Hs')
        ng = one_call(up, 'negate')
        uv = [c for c in up.calls if c.callee.name == '_update_values']
        R.check(len(uv) == 1 and up.dominates(gh.bb, ng.bb) and up.dominates(ng.bb, uv[0].bb), 'negated-Hs' + tag,
                'DirectLDLKKTSolver::update does not negate the Hs block between get_Hs and _update_values', up.loc())
        if uv:
            a = [canon(up.sym_operand(x)) for x in uv[0].args]
            R.check(a == ['self.ldlsolver', 'self.KKT', 'self.map.Hsblocks', 'self.Hsblocks'], 'Hs-wiring' + tag, '_update_values(%s)' % a, up.loc(uv[0].sp))
        rr = F.one(name='regularize_and_refactor', adt='DirectLDLKKTSolver')
        # the sign test may sit in a closure (for_each) or in a loop of the function itself, and may be written == 1 or != 1
        seen_pm = set()
        ok = True
        for g in [rr] + [g_ for g_ in F.closures_of.get(rr.key, [])]:
            for val, ret, evs, tr in Walker(g, cut_loops=True).leaves():
                if ret[0] == 'diverge':
                    continue
                k = [x for x in val if x.startswith(('eq(', 'ne(')) and '1_i8' in x]
                if not k:
                    continue
                positive = val[k[0]] if k[0].startswith('eq(') else 1 - val[k[0]]
                names = [e[1] for e in evs if e[0] == 'call' and e[1] in ('add_assign', 'sub_assign')]
                if names == ['add_assign' if positive else 'sub_assign']:
                    seen_pm.add(positive)
                else:
                    ok = False
        ok = ok and seen_pm == {0, 1}
        R.check(ok, 'regulariser-sign' + tag, 'the static regulariser does not add eps where sign==1 and subtract otherwise', rr.loc())

    R.guard(body)


def restore_pairing(rep, F, E, tag):
    R = rep.rule('C11.R4', 'the refinement copy carries no regularisation: shift and restore guarded by the same flag, restore after refactor')

    def body():
        f = F.one(name='regularize_and_refactor', adt='DirectLDLKKTSolver')
        rf = one_call(f, 'refactor')
        seen = set()
        for val, ret, ev, tr in Walker(f, cut_loops=True).leaves():
            k = [x for x in val if x.endswith('.static_regularization_enable')]
            if not k or ret[0] in ('diverge', 'cut'):
                continue
            en = val[k[0]]
            seen.add(en)
            names = [(e[1], e[2], e[3]) for e in ev if e[0] == 'call']
            shift = [n for n in names if n[0] == '_update_values']
            restore = [n for n in names if n[0] == '_update_values_KKT']
            R.check(bool(shift) == bool(en) and bool(restore) == bool(en), 'same-guard|%d%s' % (en, tag),
                    'with static_regularization_enable=%d: shift %s, restore %s - they must be applied together or not at all '
                    '(an unguarded restore overwrites the KKT diagonal with a stale work buffer)' % (
                        en, 'applied' if shift else 'skipped', 'applied' if restore else 'skipped'), f.loc())
            if en and shift and restore:
                order = [n[0] for n in names if n[0] in ('_update_values', 'refactor', '_update_values_KKT')]
                R.check(order == ['_update_values', 'refactor', '_update_values_KKT'], 'order' + tag, 'sequence is %s' % order, f.loc())
                R.check(restore[0][1] == '_update_values_KKT(self.KKT, self.map.diag_full, self.work1)', 'restore-args' + tag, 'restore is %s' % restore[0][1], f.loc())
                R.check(shift[0][1] == '_update_values(self.ldlsolver, self.KKT, self.map.diag_full, self.work2)', 'shift-args' + tag, 'shift is %s' % shift[0][1], f.loc())
        R.check(seen == {0, 1}, 'both-settings' + tag, 'returning paths seen for static_regularization_enable in %s' % sorted(seen))
        # diag_kkt filled from KKT.nzval[diag_full]
        ok = False
        for val, ret, ev, tr in Walker(f, cut_loops=True).leaves():
            for e in ev:
                if e[0] == 'store' and 'work1' in e[1] and 'self.KKT.nzval' in str(e[2]) and 'diag_full' in (str(e[2]) + e[1]):
                    ok = True
        R.check(ok, 'saved-diagonal' + tag, 'the true diagonal is not saved from KKT.nzval[diag_full] before the shift', f.loc())
        ir = F.one(name='iterative_refinement', adt='DirectLDLKKTSolver')
        ge = [c for c in ir.calls if c.callee.name == '_get_refine_error']
        R.check(len(ge) >= 1 and all(canon(ir.sym_operand(c.args[2])) == 'self.KKT' for c in ge), 'refine-reads-KKT' + tag,
                'iterative refinement does not evaluate residuals against self.KKT', ir.loc())

    R.guard(body)


def same_filter(rep, F, tag):
    R = rep.rule('C11.R6', 'all passes select sparse cones with the same predicate and consume the maps in cone order')

    def body():
        sites = []
        for nm, kw in (('new', dict(adt='LDLDataMap')), ('_kkt_assemble_colcounts', {}), ('_kkt_assemble_fill', {}), ('update', dict(adt='DirectLDLKKTSolver'))):
            f = F.one(name=nm, **kw)
            fs = [f] + F.closures_of.get(f.key, [])
            n = sum(1 for g in fs for c in g.calls if c.callee.name == 'is_sparse_expandable')
            t = sum(1 for g in fs for c in g.calls if c.callee.name == 'to_sparse_expansion')
            sites.append((nm, n, t))
            R.check(n >= 1 and t >= 1, 'filter|%s%s' % (nm, tag), '%s selects sparse cones with %d is_sparse_expandable / %d to_sparse_expansion calls' % (nm, n, t), f.loc())
        # is_sparse_expandable <=> to_sparse_expansion is Some, per cone type
        tse = F.one(name='to_sparse_expansion', adt='SupportedCone')
        adt = F.adt('SupportedCone')
        vn = [v['n'] for v in adt['variants']]
        some = set()
        for val, ret, ev, tr in Walker(tse).leaves():
            k = [x for x in val if x.startswith('discr(self)')]
            out = None
            for b in tr:
                for st in tse.blocks[b]['s']:
                    if 'p' in st and 'rv' in st and st['p']['l'] == 0 and not st['p']['p']:
                        out = canon(tse.sym_rvalue(st['rv']))
            if k and out and 'Option::Some' in out and val[k[0]] < len(vn):
                some.add(vn[val[k[0]]])
        R.check(some == {'SecondOrderCone', 'GenPowerCone'}, 'expandable-types' + tag, 'to_sparse_expansion is Some for %s' % sorted(some), tse.loc())
        for K in vn:
            fs = F.find(name='is_sparse_expandable', adt=K, trait='Cone')
            if not fs:
                continue
            r0 = canon(fs[0].sym_local(0))
            if K not in some:
                R.check(r0 == 'false', 'not-expandable|%s%s' % (K, tag), '%s::is_sparse_expandable returns %s but to_sparse_expansion gives None (unwrap would panic)' % (K, r0), fs[0].loc())
        # the second-order cone has two representations; which one a cone uses is recorded once, in sparse_data, and get_Hs /
        # update_scaling / the sparse maps dispatch on that field.  The layout predicates must be that same fact, not a re-derived
        # size test that can disagree with it (dense block allocated, sparse values written into it)
        soc = F.one(name='is_sparse_expandable', adt='SecondOrderCone', trait='Cone')
        r0 = canon(soc.sym_local(0))
        # (a size test is accepted only if it is literally the allocation test of SecondOrderCone::new)
        alloc = set()
        nw = F.one(name='new', adt='SecondOrderCone')
        for val, ret, ev, tr in Walker(nw, cut_loops=True).leaves():
            sd = []
            for b_ in tr:
                for st_ in nw.blocks[b_]['s']:
                    if 'rv' in st_ and not st_['p']['p'] and nw.local_name(st_['p']['l']) == 'sparse_data' and st_['rv']['k'] == 'agg' and 'variant' in st_['rv']['ak']:
                        sd.append('Option::' + st_['rv']['ak']['variant'])
            if ret[0] == 's' and sd:
                ks = [k for k in val if k != 'le(2_usize, arg1)']
                if len(ks) == 1 and (val[ks[0]] == 1) == sd[-1].startswith('Option::Some'):
                    alloc.add(ks[0].replace('arg1', 'self.dim'))
        R.check(r0 == 'is_some(self.sparse_data)' or (len(alloc) == 1 and r0 in alloc), 'soc-single-flag|is_sparse_expandable' + tag,
                'SecondOrderCone::is_sparse_expandable returns %s: the KKT layout must follow the representation the cone actually holds (sparse_data.is_some()), '
                'which is what get_Hs and update_scaling dispatch on' % r0, soc.loc())
        hd = F.one(name='Hs_is_diagonal', adt='SecondOrderCone', trait='Cone')
        r1 = canon(hd.sym_local(0))
        R.check(r1 in ('is_sparse_expandable(self)', 'is_some(self.sparse_data)'), 'soc-single-flag|Hs_is_diagonal' + tag,
                'SecondOrderCone::Hs_is_diagonal returns %s, expected the representation flag' % r1, hd.loc())
        n_disp = 0
        for nm in ('get_Hs', 'update_scaling', 'set_identity_scaling'):
            g = F.one(name=nm, adt='SecondOrderCone', trait='Cone')
            ks = set()
            for val, ret, ev, tr in Walker(g, cut_loops=True).leaves():
                ks |= {k for k in val if 'sparse_data' in k or 'is_sparse_expandable' in k or k.startswith(('lt(', 'le(')) and 'self.dim' in k}
            n_disp += 1
            R.check(ks <= {'discr(self.sparse_data)', 'is_some(self.sparse_data)'} and ks, 'soc-single-flag|%s%s' % (nm, tag),
                    'SecondOrderCone::%s selects the representation with %s, expected the sparse_data field itself' % (nm, sorted(ks)), g.loc())
        gp = F.one(name='is_sparse_expandable', adt='GenPowerCone', trait='Cone')
        R.check(canon(gp.sym_local(0)) == 'true', 'genpow-expandable' + tag, 'GenPowerCone::is_sparse_expandable returns %s' % canon(gp.sym_local(0)), gp.loc())

    R.guard(body)


# scratch buffers of the cones: every reader overwrites them before reading within the same call
SCRATCH = {
    'PSDTriangleCone': {'workmat1', 'workmat2', 'workmat3', 'workvec', 'Eig', 'SVD', 'chol1', 'chol2'},
    'GenPowerCone': {'work', 'work_pb'},
}
CONES = ('ZeroCone', 'NonnegativeCone', 'SecondOrderCone', 'PSDTriangleCone', 'ExponentialCone', 'PowerCone', 'GenPowerCone')


def one_scaling_state(rep, F, E, tag):
    R = rep.rule('C11.R5', 'one scaling state per factorisation: nothing between kktsystem.update and the last kktsystem.solve of an '
                           'iteration writes a field that get_Hs / the sparse update / mul_Hs read')

    def body():
        s = shared.solve_fn(F)
        h, lb = shared.main_loop(s)
        ku = [c for c in s.calls if c.callee.name == 'update' and (c.callee.trait or '').endswith('KKTSystem') and c.bb in lb]
        ks = [c for c in s.calls if c.callee.name == 'solve' and (c.callee.trait or '').endswith('KKTSystem') and c.bb in lb]
        sc = [c for c in s.calls if c.callee.name == 'scale_cones' and c.bb in lb]
        if len(ku) != 1 or len(ks) < 2 or len(sc) < 1:
            raise AnchorError('kktsystem.update / solve / scale_cones sites in the main loop: %d/%d/%d' % (len(ku), len(ks), len(sc)))
        R.check(any(s.dominates(c.bb, ku[0].bb) for c in sc), 'scale-before-update' + tag, 'scale_cones does not precede kktsystem.update', s.loc(ku[0].sp))
        for k in ks:
            R.check(s.dominates(ku[0].bb, k.bb), 'update-before-solve|%d%s' % (k.line, tag), 'kktsystem.solve is not preceded by kktsystem.update', s.loc(k.sp))
        last = ks[-1]
        reg = region_between(s, ku[0].bb, last.bb, avoid=[h]) - {ku[0].bb}
        n = 0
        for K in CONES:
            readers = F.find(name='get_Hs', adt=K) + F.find(name='mul_Hs', adt=K) + [g for g in F.fns if g.name == 'csc_update_sparsecone' and K in (g.impl_self or '')]
            if not readers:
                continue
            read = set()
            for g in readers:
                for r, ch in E.R[g.key]:
                    nc = norm_chain(ch)
                    if r[0] == 'param' and nc and nc[0][0] == K:
                        read.add(nc)
            leaves = {q for q in read if not any(p != q and p[:len(q)] == q for p in read)}
            scratch = SCRATCH.get(K, set())
            leaves = {q for q in leaves if not any(e[1] in scratch for e in q)}
            n += 1
            for bi in sorted(reg):
                c = s.call_at.get(bi)
                if c is None:
                    continue
                w, _ = E.call_effects(s, c)
                hit = set()
                for r, ch in w:
                    nc = norm_chain(ch)
                    for i, e in enumerate(nc):
                        if e[0] == K:
                            sub = nc[i:]
                            if any(e2[1] in scratch for e2 in sub):
                                continue
                            for q in leaves:
                                if sub[:len(q)] == q or (q[:len(sub)] == sub and len(sub) >= 2):
                                    hit.add('.'.join(x[1] for x in q))
                for fld in sorted(hit):
                    R.bad('state-write|%s|%s|%s%s' % (K, fld, c.callee.name, tag),
                          '%s (between kktsystem.update and the last kktsystem.solve) writes %s.%s, which the KKT block / slack recovery '
                          'read: the factorised matrix and the operator used afterwards would come from different scaling states' % (c.callee.name, K, fld), s.loc(c.sp))
            R.ok('state-stable|%s%s' % (K, tag), {'read_leaves': len(leaves)})
        R.check(n >= 5, 'cone-types' + tag, 'only %d cone types analysed' % n)
        # the slack recovery uses the cones' operator after the linear solve
        kk = F.one(name='solve', adt='DefaultKKTSystem')
        mh = [c for c in kk.calls if c.callee.name == 'mul_Hs']
        so = [c for c in kk.calls if c.callee.name == 'solve' and 'KKTSolver' in (c.callee.trait or c.callee.key or '')]
        R.check(len(mh) >= 1, 'slack-recovery-uses-mul_Hs' + tag, 'KKTSystem::solve does not recover the slack step with cones.mul_Hs', kk.loc())

    R.guard(body)


def _name_izip(v):
    """replace every next(into_iter(IZIP))@Some.0.k in the canonical text v by <operand k of the izip>"""
    from .c14 import _izip_operands
    out = ''
    i = 0
    key = 'next(into_iter('
    while True:
        j = v.find(key, i)
        if j < 0:
            return out + v[i:]
        out += v[i:j]
        k = j + len(key)
        d = 2
        while k < len(v) and d:
            d += v[k] == '('
            d -= v[k] == ')'
            k += 1
        inner = v[j + len(key):k - 2]
        m = re.match(r'@Some\.0\.(\d)', v[k:])
        ops = _izip_operands(inner)
        if m and int(m.group(1)) < len(ops):
            out += '<%s>' % ops[int(m.group(1))]
            i = k + m.end()
        elif v[k:].startswith('@Some.0') and len(ops) == 1:
            out += '<%s>' % ops[0]
            i = k + len('@Some.0')
        else:
            out += v[j:k]
            i = k


def genpow_operator(rep, F, tag, rid):
    """GenPowerCone: the KKT matrix carries Hs through the diagonal D and the three expansion columns p, q, r, i.e.
    mu (D + p p' - q q' - r r').  mul_Hs - used to recover ds from the same system - must apply exactly that operator: each rank-one
    term is (inner product of the vector with the whole x block) times the vector."""
    R = rep.rule(rid, 'GenPowerCone::mul_Hs applies mu (D + p p\' - q q\' - r r\'), the operator encoded by get_Hs and the sparse expansion columns')

    def body():
        f = F.one(name='mul_Hs', adt='GenPowerCone', trait='Cone')
        norm = lambda x: _name_izip(str(x)).replace('self.data.0.pointer.', '').replace('self.data.', '')
        X1, X2 = 'index(arg3, RangeTo::RangeTo(dim1(self)))', 'index(arg3, RangeFrom::RangeFrom(dim1(self)))'
        Y1, Y2 = 'into_iter(index_mut(arg2, RangeTo::RangeTo(dim1(self))))', 'into_iter(index_mut(arg2, RangeFrom::RangeFrom(dim1(self))))'

        def forms(d, x, vec, xs):
            a = ['mul(<%s>, <%s>)' % (d, x), 'mul(<%s>, <%s>)' % (x, d)] if d != 'd2' else ['mul(d2, <%s>)' % x, 'mul(<%s>, d2)' % x]
            b = ['mul(dot(%s, %s), <%s>)' % (vec, xs, vec), 'mul(<%s>, dot(%s, %s))' % (vec, vec, xs)]
            return {'sub(%s, %s)' % (p_, q_) for p_ in a for q_ in b}
        want = {Y1: forms('d1', X1, 'q', X1), Y2: forms('d2', X2, 'r', X2)}
        seen = set()
        tail = None
        for val, ret, ev, tr in Walker(f, cut_loops=True).leaves():
            for e in ev:
                if e[0] == 'store':
                    t, v = norm(e[1]), norm(e[2])
                    t = t.strip('<>')
                    if t in want:
                        seen.add(t)
                        R.check(v in want[t], 'block|%s%s' % ('y1' if t == Y1 else 'y2', tag),
                                'mul_Hs stores %s into %s: expected d.*x - <v, x_block> v with the inner product over the whole block (the expansion '
                                'column encodes the rank-one term v v\', not diag(v^2))' % (v[:200], 'y1' if t == Y1 else 'y2'), f.loc())
                    else:
                        R.bad('store-target' + tag, 'mul_Hs stores into %s' % t[:100], f.loc())
            if ret[0] == 's':
                tail = [norm(e[2]) for e in ev if e[0] == 'call' and e[1] in ('axpby', 'scale', 'axpy', 'negate')]
        R.check(seen == set(want), 'both-blocks' + tag, 'mul_Hs writes blocks %s' % sorted(seen), f.loc())
        R.check(tail == ['axpby(arg2, dot(p, arg3), p, one())', 'scale(arg2, μ)'], 'rank-one-p-then-mu' + tag,
                'mul_Hs finishes with %s, expected y += <p, x> p and then y *= mu' % tail, f.loc())
        # the expansion columns carry sqrt(mu): eliminating the auxiliary variables then gives mu (p p' - q q' - r r'), the operator above
        us = [h for h in F.fns if h.name == 'csc_update_sparsecone' and 'GenPowerCone' in (h.impl_self or '')]
        if len(us) != 1:
            raise AnchorError('csc_update_sparsecone for GenPowerCone matched %d functions' % len(us))
        u = us[0]
        sc = {}
        for c in u.calls:
            if c.callee.name == '<indirect>' and len(c.args) == 4:
                a = [canon(u.sym_operand(x)).replace('self.data.0.pointer.', '') for x in c.args]
                m_ = re.fullmatch(r'recover_map\(self, arg2\)\.(\w+)', a[2])
                if m_ and not a[3].startswith(('array(', 'p', 'q', 'r')) or (m_ and a[3].startswith('neg(')):
                    sc[m_.group(1)] = a[3]
        R.check({k: v for k, v in sc.items() if k in 'pqr'} == {'p': 'neg(sqrt(μ))', 'q': 'neg(sqrt(μ))', 'r': 'neg(sqrt(μ))'}, 'column-scale' + tag,
                'the expansion columns are scaled by %s: each of p, q, r must carry -sqrt(mu), so that the eliminated block is mu (p p\' - q q\' - r r\') as in mul_Hs' % sc, u.loc())
        g = F.one(name='get_Hs', adt='GenPowerCone', trait='Cone')
        calls = [canon(('call', c.callee.target_key or c.callee.name, tuple(g.sym_operand(a) for a in c.args), c.bb)).replace('self.data.0.pointer.', '') for c in g.calls if c.callee.name in ('scalarop_from', 'set', 'fill')]
        R.check(len(calls) == 2 and calls[0].startswith('scalarop_from(index_mut(arg2, RangeTo::RangeTo(dim1(self))), closure(') and calls[0].endswith(', d1)')
                and calls[1] in ('set(index_mut(arg2, RangeFrom::RangeFrom(dim1(self))), mul(μ, d2))', 'fill(index_mut(arg2, RangeFrom::RangeFrom(dim1(self))), mul(μ, d2))',
                                 'set(index_mut(arg2, RangeFrom::RangeFrom(dim1(self))), mul(d2, μ))', 'fill(index_mut(arg2, RangeFrom::RangeFrom(dim1(self))), mul(d2, μ))'), 'diagonal-block' + tag, 'get_Hs performs %s, expected mu*d1 on the first block and mu*d2 on the second' % calls, g.loc())
        cl = F.closures_of.get(g.key, [])
        R.check(len(cl) == 1 and re.sub(r'arg1\.(_ref__)?data(__|\.0\.pointer\.|\.)', '', canon(cl[0].sym_local(0))) in ('mul(μ, arg2)', 'mul(arg2, μ)'), 'diagonal-block|d1' + tag,
                'get_Hs maps d1 to %s' % [canon(c.sym_local(0)) for c in cl], g.loc())

    R.guard(body)


def missing_diag_pairing(rep, F, tag):
    """P's structural diagonal is completed in two passes over the same columns: colcount_missing_diag reserves a slot, fill_missing_diag writes
    it.  Both decide "this column lacks its diagonal entry" by themselves; if the two decisions differ for some column (e.g. one treats a
    last entry above the diagonal as present), the fill pass writes into a slot that was never reserved and overwrites a user entry."""
    R = rep.rule('C11.R11', 'colcount_missing_diag and fill_missing_diag take the same decision, column by column (sibling agreement of the two predicates)')

    def body():
        from .c16 import normalise
        tables = {}
        for nm in ('colcount_missing_diag', 'fill_missing_diag'):
            f = F.one(name=nm, adt='CscMatrix')
            rows = set()
            for val, ret, ev, tr in Walker(f, cut_loops=True, local_stores=True).leaves():
                if ret[0] != 'cut':
                    continue
                v = {normalise(k, 'arg2'): x for k, x in val.items()}
                dec = tuple(sorted((k, x) for k, x in v.items() if ('arg2.colptr[' in k or 'arg2.rowval[' in k) and k[:3] in ('eq(', 'ne(', 'lt(', 'le(')))
                acts = any(e[0] == 'store' and 'self.' in str(e[1]) for e in ev)
                if dec:
                    rows.add((dec, acts))
            tables[nm] = rows
            R.check(len(rows) >= 3 and any(a for d, a in rows) and any(not a for d, a in rows), 'table|%s%s' % (nm, tag), '%s: decision table has %d rows' % (nm, len(rows)), f.loc())
        a, b = tables['colcount_missing_diag'], tables['fill_missing_diag']
        R.check(a == b, 'same-decision' + tag,
                'the count pass and the fill pass disagree on which columns lack a diagonal entry: only in count %s, only in fill %s - the fill pass would write a structural zero into a '
                'slot the count pass did not reserve (or leave a reserved slot unwritten)' % (sorted(a - b)[:2], sorted(b - a)[:2]), F.one(name='fill_missing_diag', adt='CscMatrix').loc())

    R.guard(body)


def hs_block_complete(rep, F, tag, rid='C11.R8'):
    """Every cone's get_Hs must fill its whole block of the KKT matrix: the entries it leaves alone keep the values of the
    previous iteration (or the structural initial value), so the assembled matrix is not the intended one."""
    R = rep.rule(rid, 'get_Hs of every cone type writes its whole block (whole-slice write, complementary ranges, iteration over the block, or an indexed fill loop)')

    def body():
        WHOLE = ('fill', 'set', 'copy_from', 'copy_from_slice', 'clone_from_slice')
        n = 0
        for f in F.find(name='get_Hs', trait='Cone'):
            K = last_seg(strip_generics(f.impl_adt or f.impl_self or '?'))
            if K in ('CompositeCone', 'SupportedCone'):
                continue
            n += 1
            for val, ret, ev, tr in Walker(f, cut_loops=True).leaves():
                if ret[0] in ('diverge', 'cut'):
                    continue
                whole = False
                lo, hi = [], []
                for e in ev:
                    if e[0] == 'call':
                        a = split_args(e[2]) if '(' in e[2] else []
                        if e[1] in WHOLE and a and a[0] == 'arg2':
                            whole = True
                        if e[1] == 'pack_triu' and 'arg2' in a:
                            whole = True
                        if e[1] == 'zip' and a and a[0] == 'arg2':
                            whole = True
                        if e[1] in WHOLE + ('scalarop_from', 'scalarop') and a and a[0].startswith(('index_mut(arg2, Range', 'index(arg2, Range')):
                            m1 = re.search(r'RangeTo\((.*)\)\)$', a[0])
                            m2 = re.search(r'RangeFrom\((.*)\)\)$', a[0])
                            if m1:
                                lo.append(m1.group(1))
                            if m2:
                                hi.append(m2.group(1))
                loopfill = any(l2[1][0] == 'cut' and any(e[0] == 'store' and re.fullmatch(r'arg2\[var:\w+\]', str(e[1])) for e in l2[2]) for l2 in Walker(f, cut_loops=True).leaves())
                ok = whole or (lo and hi and set(lo) & set(hi)) or loopfill
                R.check(bool(ok), 'hs-block-complete|%s%s' % (K, tag),
                        '%s::get_Hs does not fill its whole block on the path %s (ranges written: ..%s / %s..): the rest of the block keeps stale values in the '
                        'KKT matrix' % (K, {k[:40]: v for k, v in val.items()}, lo, hi), f.loc())
        R.check(n >= 6, 'hs-block-cones' + tag, 'only %d cone types analysed' % n)

    R.guard(body)


def run(ctx, rep, tier):
    for cfg in CONFIGS:
        F = ctx.facts(cfg)
        E = ctx.eff(cfg)
        tag = '' if cfg == 'default' else '[%s]' % cfg
        passes_agree(rep, F, tag)
        size_bookkeeping(rep, F, tag)
        sign_pattern(rep, F, tag)
        restore_pairing(rep, F, E, tag)
        same_filter(rep, F, tag)
        one_scaling_state(rep, F, E, tag)
        hs_block_complete(rep, F, tag)
        genpow_operator(rep, F, tag, 'C11.R9')
        # P, A' and every cone block enter the KKT matrix through fill_block / colcount_block (C16.R10 re-run)
        from . import c16
        c16.block_placement(rep, F, tag, 'C11.R10')
        missing_diag_pairing(rep, F, tag)
        from . import c05
        # R5 (shared): identity scaling rewrites everything the KKT update reads
    from . import c08
    for cfg in CONFIGS:
        c08.kkt_mirror(_Ren(rep, 'C08.R5', 'C11.R7'), ctx.facts(cfg), ctx.eff(cfg), ctx.cg(cfg), '' if cfg == 'default' else '[%s]' % cfg)
    from . import c05
    for cfg in CONFIGS:
        c05.fresh_start(rep, ctx.facts(cfg), ctx.eff(cfg), ctx.cg(cfg), '' if cfg == 'default' else '[%s]' % cfg)


class _Ren:
    def __init__(self, rep, old, new):
        self.rep, self.old, self.new = rep, old, new
        self.assumptions = rep.assumptions

    def rule(self, rid, desc):
        return self.rep.rule(self.new if rid == self.old else rid, desc)
