//! Type-level witnesses for C05 / C08 / C20.  Each property is a pair of doc-tests: a twin that
//! must compile and a `compile_fail,E....` twin that differs only in the offending line.  Nothing
//! here is ever *run* against the solver's numerics: the compiling twins are `no_run`.

/// send: a solver can be moved to another thread (C05 R4)
/// ```no_run
/// fn assert_send<T: Send>() {}
/// assert_send::<clarabel::solver::DefaultSolver<f64>>();
/// ```
pub struct Send_;

/// stream_sync: print targets handed to the solver must be Send + Sync (C05 R4 / C20)
/// ```no_run
/// use clarabel::io::ConfigurablePrintTarget;
/// fn set(s: &mut clarabel::solver::DefaultSolver<f64>) {
///     let w: Box<dyn std::io::Write + Send + Sync> = Box::new(std::io::Cursor::new(Vec::<u8>::new()));
///     s.print_to_stream(w);
/// }
/// ```
/// ```compile_fail,E0277
/// use clarabel::io::ConfigurablePrintTarget;
/// struct NotSend(std::rc::Rc<std::cell::RefCell<Vec<u8>>>);
/// impl std::io::Write for NotSend {
///     fn write(&mut self, b: &[u8]) -> std::io::Result<usize> { self.0.borrow_mut().extend_from_slice(b); Ok(b.len()) }
///     fn flush(&mut self) -> std::io::Result<()> { Ok(()) }
/// }
/// fn set(s: &mut clarabel::solver::DefaultSolver<f64>) {
///     s.print_to_stream(Box::new(NotSend(Default::default())));
/// }
/// ```
pub struct StreamSync;

/// update_needs_mut: data updates need exclusive access, so they cannot overlap a solve (C08 R7)
/// ```no_run
/// fn upd(s: &mut clarabel::solver::DefaultSolver<f64>) {
///     let _ = s.update_b(&vec![1.0f64]);
/// }
/// ```
/// ```compile_fail,E0596
/// fn upd(s: &clarabel::solver::DefaultSolver<f64>) {
///     let _ = s.update_b(&vec![1.0f64]);
/// }
/// ```
pub struct UpdateNeedsMut;

/// private_stream: the print target inside the solver cannot be swapped behind the API's back (C20)
/// ```no_run
/// use clarabel::io::ConfigurablePrintTarget;
/// fn f(s: &mut clarabel::solver::DefaultSolver<f64>) { s.print_to_buffer(); }
/// ```
/// ```compile_fail,E0616
/// fn f(s: &mut clarabel::solver::DefaultSolver<f64>) { let _ = &mut s.info.stream; }
/// ```
pub struct PrivateStream;
