#!/usr/bin/env python3
"""Checker self-test mutants: one compiling edit per rule instance.  `python3 selftest/mutants.py build`
materialises selftest/patches/<name>.diff from the (file, old, new) table against the current /repo."""
import json, os, subprocess, sys, tempfile, shutil

R = 'src/solver/'
D = R + 'implementations/default/'
MUTANTS = [
 # name, property, file, old, new
 ('c01_is_solved_or', 'C01', D + 'info.rs', '            && (self.res_primal < tol_feas)\n            && (self.res_dual < tol_feas)', '            && ((self.res_primal < tol_feas)\n            || (self.res_dual < tol_feas))'),
 ('c01_full_uses_reduced_tol', 'C01', D + 'info.rs', 'let tol_feas = settings.tol_feas;', 'let tol_feas = settings.reduced_tol_feas;'),
 ('c01_unscale_s_with_e', 'C01', D + 'variables.rs', 'self.s.hadamard(einv).scale(scaleinv);', 'self.s.hadamard(e).scale(scaleinv);'),
 ('c01_res_dual_no_cinv', 'C01', D + 'info.rs', 'residuals.rx.norm_scaled(dinv) * τinv * cinv /', 'residuals.rx.norm_scaled(dinv) * τinv /'),
 ('c01_normx_late', 'C01', D + 'info.rs', '        normx *= τinv;\n        normz *= τinv;', '        normz *= τinv;'),
 ('c01_rz_plus_tau', 'C01', D + 'residuals.rs', '.waxpby(T::one(), &self.rz_inf, -variables.τ, &data.b);', '.waxpby(T::one(), &self.rz_inf, -variables.κ, &data.b);'),
 ('c01_rescale_after_check', 'C01', R + 'core/solver.rs', '            if isdone{', '            if isdone{ self.variables.rescale();'),
 ('c02_tau_on_infeasible', 'C02', D + 'variables.rs', '                T::recip(self.κ)', '                T::recip(self.τ)'),
 ('c02_obj_dual_not_nan', 'C02', D + 'solution.rs', '            self.obj_val_dual = T::nan();', '            self.obj_val_dual = info.cost_dual;'),
 ('c02_rz_inf_e', 'C02', D + 'info.rs', 'residuals.rz_inf.norm_scaled(einv)', 'residuals.rz_inf.norm_scaled(e)'),
 ('c02_abs_sign', 'C02', D + 'info.rs', '(residuals.dot_bz < -tol_infeas_abs)', '(residuals.dot_bz < tol_infeas_abs)'),
 ('c03_rprim_swapped', 'C03', D + 'solution.rs', 'self.r_prim = info.res_primal;', 'self.r_prim = info.res_dual;'),
 ('c03_cost_dual_sign', 'C03', D + 'info.rs', '(-residuals.dot_bz * τinv - xPx_τinvsq_over2) * cinv', '(-residuals.dot_bz * τinv - xPx_τinvsq_over2)'),
 ('c03_reset_drops_gap_rel', 'C03', D + 'info.rs', '        self.gap_rel = self.prev_gap_rel;\n', ''),
 ('c03_almost_full_tol', 'C03', D + 'info.rs', 'let tol_gap_rel = settings.reduced_tol_gap_rel;', 'let tol_gap_rel = settings.tol_gap_rel;'),
 ('c04_update_primaldual', 'C04', R + 'core/solver.rs', '                && α < self.settings.core().min_switch_step_length\n            {\n                output = StrategyCheckpoint::Update(ScalingStrategy::Dual);', '                && α < self.settings.core().min_switch_step_length\n            {\n                output = StrategyCheckpoint::Update(ScalingStrategy::PrimalDual);'),
 ('c04_max_iter_lt', 'C04', D + 'info.rs', 'if settings.max_iter == self.iterations {', 'if settings.max_iter < self.iterations {'),
 ('c04_powcone_symmetric', 'C04', R + 'core/cones/powcone.rs', '    fn is_symmetric(&self) -> bool {\n        false', '    fn is_symmetric(&self) -> bool {\n        true'),
 ('c05_static_cache', 'C05', D + 'variables.rs', 'fn calc_mu(&mut self, residuals: &DefaultResiduals<T>, cones: &CompositeCone<T>) -> T {', 'fn calc_mu(&mut self, residuals: &DefaultResiduals<T>, cones: &CompositeCone<T>) -> T {\n        static CALLS: std::sync::atomic::AtomicUsize = std::sync::atomic::AtomicUsize::new(0);\n        CALLS.fetch_add(1, std::sync::atomic::Ordering::Relaxed);'),
 ('c05_no_triu', 'C05', D + 'problemdata.rs', '        if !P.is_triu() {\n            P_new = Some(P.to_triu());\n        }', '        if P.is_triu() {\n            P_new = Some(P.to_triu());\n        }'),
 ('c07_kappa_no_alpha', 'C07', D + 'variables.rs', 'self.κ += α * step.κ;', 'self.κ += step.κ;'),
 ('c07_alpha_without_one', 'C07', D + 'variables.rs', 'let α = [ατ, ακ, T::one()].minimum();', 'let α = [ατ, ακ, T::max_value()].minimum();'),
 ('c07_fraction_always', 'C07', D + 'variables.rs', '        if step_direction == StepDirection::Combined {\n            α *= settings.core().max_step_fraction;\n        }', '        let _ = step_direction;\n        α *= settings.core().max_step_fraction;'),
 ('c08_update_A_swapped', 'C08', D + 'data_updating.rs', 'data.update_matrix(&mut self.data.A, e, d, None)?;', 'data.update_matrix(&mut self.data.A, d, e, None)?;'),
 ('c08_no_clear_normb', 'C08', D + 'data_updating.rs', '        self.data.clear_normb();\n', ''),
 ('c08_zip_rscale_row', 'C08', D + 'data_updating.rs', 'M.nzval[idx] = lscale[row] * rscale[col] * value;', 'M.nzval[idx] = lscale[row] * rscale[row] * value;'),
 ('c08_copy_before_check', 'C08', D + 'data_updating.rs', '        if data.len() != v.len() {\n            return Err(SparseFormatError::IncompatibleDimension);\n        }\n\n        v.copy_from_slice(data);', '        let k = data.len().min(v.len());\n        v[..k].copy_from_slice(&data[..k]);\n        if data.len() != v.len() {\n            return Err(SparseFormatError::IncompatibleDimension);\n        }\n        v.copy_from_slice(data);'),
 ('c09_drop_soc', 'C09', D + 'presolver.rs', '        if matches!(cone, SupportedConeT::NonnegativeConeT(_)) {\n            for _ in 0..numel_cone {', '        if matches!(cone, SupportedConeT::NonnegativeConeT(_) | SupportedConeT::SecondOrderConeT(_)) {\n            for _ in 0..numel_cone {'),
 ('c09_z_not_zero', 'C09', D + 'presolver.rs', '                solution.z[idx] = T::zero();', '                solution.z[idx] = variables.z[ctr];'),
 ('c09_reverse_reads_global', 'C09', D + 'presolver.rs', 'solution.s[idx] = self.infbound.as_T();', 'solution.s[idx] = crate::get_infinity().as_T();'),
 ('c10_lrscale_swapped', 'C10', D + 'problemdata.rs', '            A.lrscale(e, d);', '            A.lrscale(d, e);'),
 ('c10_no_e_after_rectify', 'C10', D + 'problemdata.rs', '            scale_data(P, A, q, b, None, ework);\n            e.hadamard(ework);', '            scale_data(P, A, q, b, None, ework);'),
 ('c10_clip_absolute', 'C10', D + 'problemdata.rs', '*dwork = T::clip(dwork, scale_min / d, scale_max / d);', '*dwork = T::clip(dwork, scale_min, scale_max / d);'),
 ('c10_soc_not_rectified', 'C10', R + 'core/cones/socone.rs', '        δ.copy_from(e).recip().scale(e.mean());\n\n        true // scalar equilibration', '        δ.set(T::one());\n        let _ = e;\n        false'),
 ('c10_q_not_scaled', 'C10', D + 'problemdata.rs', '                P.scale(ctmp);\n                q.scale(ctmp);', '                P.scale(ctmp);'),
 ('c11_soc_dsigns', 'C11', R + 'core/kktsolvers/direct/quasidef/datamaps.rs', '        &[-1, 1]', '        &[1, -1]'),
 ('c11_genpow_pdim', 'C11', R + 'core/kktsolvers/direct/quasidef/datamaps.rs', '    fn pdim(&self) -> usize {\n        3', '    fn pdim(&self) -> usize {\n        2'),
 ('c11_tril_missing_diag', 'C11', R + 'core/kktsolvers/direct/quasidef/kkt_assembly.rs', '        MatrixTriangle::Tril => {\n            K.colcount_missing_diag(P, 0);\n            K.colcount_block(P, 0, MatrixShape::T);', '        MatrixTriangle::Tril => {\n            K.colcount_block(P, 0, MatrixShape::T);'),
 ('c12_first_pivot_le', 'C12', 'src/qdldl/qdldl.rs', '            if D[0] * sign < regularize_eps {', '            if D[0] * sign <= regularize_eps {'),
 ('c12_new_before_check', 'C12', 'src/qdldl/qdldl.rs', '        check_structure(Ain)?;\n        _qdldl_new(Ain, opts)', '        let out = _qdldl_new(Ain, opts);\n        check_structure(Ain)?;\n        out'),
 ('c12_no_len_assert', 'C12', 'src/qdldl/qdldl.rs', '        assert_eq!(b.len(), self.D.len());\n\n        // permute b', '        // permute b'),
 ('c12_marker_zero', 'C12', 'src/qdldl/qdldl.rs', 'let mut b = vec![usize::MAX; p.len()];\n\n    for (i, j) in p.iter().enumerate() {\n        if *j < p.len() && b[*j] == usize::MAX {', 'let mut b = vec![0; p.len()];\n\n    for (i, j) in p.iter().enumerate() {\n        if *j < p.len() && b[*j] == 0 {'),
 ('c14_genpow_data_r', 'C14', R + 'core/cones/genpowcone.rs', 'gr.scalarop_from(|r| (g1 / norm_r) * r, r);', 'gr.scalarop_from(|r| (g1 / norm_r) * r, &data.r);'),
 ('c14_genpow_allows_pd', 'C14', R + 'core/cones/genpowcone.rs', '    fn allows_primal_dual_scaling(&self) -> bool {\n        false', '    fn allows_primal_dual_scaling(&self) -> bool {\n        true'),
 ('c15_swap_closures', 'C15', R + 'core/cones/expcone.rs', 'let αz = backtrack_search(dz, z, αmax, αmin, step, _is_dual_feasible_fcn, &mut work);', 'let αz = backtrack_search(dz, z, αmax, αmin, step, _is_prim_feasible_fcn, &mut work);'),
 ('c15_nn_no_min', 'C15', R + 'core/cones/nonnegativecone.rs', '                αz = T::min(αz, -z[i] / dz[i]);', '                αz = -z[i] / dz[i];'),
 ('c19_export_A_e', 'C19', D + 'json.rs', 'json_data.A.lrscale(einv, dinv);', 'json_data.A.lrscale(dinv, dinv);'),
 ('c19_override_lost', 'C19', D + 'json.rs', 'let settings = settings.unwrap_or(json_data.settings);', 'let settings = { let _ = settings; json_data.settings };'),
 ('c19_no_validation', 'C19', D + 'json.rs', '        check_json_problem_data(&P, &q, &A, &b, &cones)?;\n', '        let _ = check_json_problem_data::<T>;\n'),
 ('c20_footer_unguarded', 'C20', D + 'info_print.rs', '    fn print_footer(&mut self, settings: &DefaultSettings<T>) -> std::io::Result<()> {\n        if !settings.verbose {\n            return std::io::Result::Ok(());\n        }\n', '    fn print_footer(&mut self, settings: &DefaultSettings<T>) -> std::io::Result<()> {\n        let _ = settings;\n'),
 ('c13_nn_w_inverted', 'C13', R + 'core/cones/nonnegativecone.rs', '*w = T::sqrt((*s) / (*z));', '*w = T::sqrt((*z) / (*s));'),
 ('c13_nn_winv_mul', 'C13', R + 'core/cones/nonnegativecone.rs', 'y[i] = α * (x[i] / self.w[i]) + β * y[i];', 'y[i] = α * (x[i] * self.w[i]) + β * y[i];'),
 ('c13_nn_offset_mul', 'C13', R + 'core/cones/nonnegativecone.rs', '*outi = dsi / zi;', '*outi = dsi * zi;'),
 ('c13_nn_hs_w', 'C13', R + 'core/cones/nonnegativecone.rs', '*blki = wi * wi;', '*blki = wi;'),
 ('c13_shift_winv_on_dz', 'C13', R + 'core/cones/symmetric_common.rs', 'self.mul_W(MatrixShape::N, step_z, tmp, T::one(), T::zero());', 'self.mul_Winv(MatrixShape::N, step_z, tmp, T::one(), T::zero());'),
 ('c13_shift_sigma_sign', 'C13', R + 'core/cones/symmetric_common.rs', 'self.scaled_unit_shift(shift, -σμ, PrimalOrDualCone::PrimalCone);', 'self.scaled_unit_shift(shift, σμ, PrimalOrDualCone::PrimalCone);'),
 ('c13_offset_no_transpose', 'C13', R + 'core/cones/symmetric_common.rs', 'self.mul_W(MatrixShape::T, out, work, T::one(), T::zero());', 'self.mul_W(MatrixShape::N, out, work, T::one(), T::zero());'),
 ('c13_psd_hs_flags', 'C13', R + 'core/cones/psdtrianglecone.rs', 'self.mul_W(MatrixShape::T, y, work, T::one(), T::zero()); // y = c', 'self.mul_W(MatrixShape::N, y, work, T::one(), T::zero()); // y = c'),
 ('c13_soc_winv_sign', 'C13', R + 'core/cones/socone.rs', 'let c = -x[0] + ζ / (T::one() + w[0]);', 'let c = x[0] + ζ / (T::one() + w[0]);'),
 ('c13_soc_hs_no_two', 'C13', R + 'core/cones/socone.rs', 'let c = self.w.dot(x) * (2.).as_T();', 'let c = self.w.dot(x);'),
 ('c13_soc_w0_not_normalised', 'C13', R + 'core/cones/socone.rs', '        w[0] = T::sqrt(T::one() + w1sq);\n', ''),
 ('c13_soc_inv_circ_c2', 'C13', R + 'core/cones/socone.rs', 'let c2 = T::recip(y[0]);', 'let c2 = T::recip(p);'),
 ('c13_soc_affine_ds_w', 'C13', R + 'core/cones/socone.rs', '_circ_op(ds, &self.λ, &self.λ);', '_circ_op(ds, &self.λ, &self.w);'),
 ('c13_psd_winv_uses_R', 'C13', R + 'core/cones/psdtrianglecone.rs', '&self.data.Rinv,\n            &mut self.data.workmat1,\n            &mut self.data.workmat2,\n            &mut self.data.workmat3,\n        )\n', '&self.data.R,\n            &mut self.data.workmat1,\n            &mut self.data.workmat2,\n            &mut self.data.workmat3,\n        )\n'),
 ('c13_psd_T_arm_no_t', 'C13', R + 'core/cones/psdtrianglecone.rs', 'tmp.mul(X, &Rx.t(), T::one(), T::zero());', 'tmp.mul(X, Rx, T::one(), T::zero());'),
 ('c13_soc_sparse_d', 'C13', R + 'core/cones/socone.rs', 'sparse_data.d = half * wsqinv;', 'sparse_data.d = wsqinv;'),
 ('c13_soc_sparse_fill_order', 'C13', 'src/solver/core/kktsolvers/direct/quasidef/datamaps.rs', 'K.fill_colvec(&mut map.v, row, col); //u\n                K.fill_colvec(&mut map.u, row, col + 1); //v', 'K.fill_colvec(&mut map.u, row, col); //u\n                K.fill_colvec(&mut map.v, row, col + 1); //v'),
 ('c13_soc_sparse_Dswap', 'C13', 'src/solver/core/kktsolvers/direct/quasidef/datamaps.rs', 'updateFcn(ldl, K, &map.D, &[-η2, η2]);', 'updateFcn(ldl, K, &map.D, &[η2, -η2]);'),
 ('c13_soc_sparse_hs_d', 'C13', R + 'core/cones/socone.rs', '            Hsblock[0] *= sparse_data.d;\n', '            Hsblock[0] = sparse_data.d;\n'),
 ('c13_soc_identity_v_partial', 'C13', R + 'core/cones/socone.rs', '            sparse_data.v.fill(T::zero());\n        }\n    }\n\n    fn update_scaling', '            sparse_data.v[0] = T::zero();\n        }\n    }\n\n    fn update_scaling'),
 ('c14_pow_sign_after', 'C14', R + 'core/cones/powcone.rs', '            if s[2] < T::zero() {\n                g[2] = -g[2];\n            }\n            g[0] = -(α * g[2] * s[2] + T::one() + α) / s[0];\n            g[1] = -((T::one() - α) * g[2] * s[2] + two - α) / s[1];', '            g[0] = -(α * g[2] * s[2] + T::one() + α) / s[0];\n            g[1] = -((T::one() - α) * g[2] * s[2] + two - α) / s[1];\n            if s[2] < T::zero() {\n                g[2] = -g[2];\n            }'),
 ('c14_exp_grad2', 'C14', R + 'core/cones/expcone.rs', 'grad[2] = (c2 * z[0] - T::one()) / z[2];', 'grad[2] = (c2 * z[0] + T::one()) / z[2];'),
 ('c14_exp_H01', 'C14', R + 'core/cones/expcone.rs', 'H[(0, 1)] = -l / (r * r);', 'H[(0, 1)] = l / (r * r);'),
 ('c14_pow_H22', 'C14', R + 'core/cones/powcone.rs', 'H[(2, 2)] = gψ[2] * gψ[2] + two / ψ;', 'H[(2, 2)] = gψ[2] * gψ[2] + T::one() / ψ;'),
 ('c15_shift_merged', 'C15', D + 'variables.rs', '        cones.scaled_unit_shift(z, -min_margin, pd);\n        cones.scaled_unit_shift(z, target, pd);', '        cones.scaled_unit_shift(z, target - min_margin, pd);'),
 ('c07_shift_swapped', 'C07', D + 'variables.rs', '        cones.scaled_unit_shift(z, -min_margin, pd);\n        cones.scaled_unit_shift(z, target, pd);', '        cones.scaled_unit_shift(z, target, pd);\n        cones.scaled_unit_shift(z, -min_margin, pd);'),
 ('c14_exp_primal_g2', 'C14', R + 'core/cones/expcone.rs', 'g[2] = ω / ((T::one() - ω) * s[2]);', 'g[2] = ω / ((ω - T::one()) * s[2]);'),
 ('c14_exp_primal_g1', 'C14', R + 'core/cones/expcone.rs', 'g[1] = g[0] + g[0] * ((ω * s[1] / s[2]).logsafe()) - T::one() / s[1];', 'g[1] = g[0] * ((ω * s[1] / s[2]).logsafe()) - T::one() / s[1];'),
 ('c15_composite_same_flag', 'C15', R + 'core/cones/compositecone.rs', '        α = innerfcn(α, false);', '        α = innerfcn(α, true);'),
 ('c15_soc_linear_case_reverted', 'C15', R + 'core/cones/socone.rs', '        return if b < T::zero() {\n            T::min(αmax, -c / b)\n        } else {\n            αmax\n        };', '        return αmax;'),
 ('c04_switch_falls_through', 'C04', R + 'core/solver.rs', 'StrategyCheckpoint::Update(s) => {scaling = s; continue}\n                    }\n            }  // allows', 'StrategyCheckpoint::Update(s) => {scaling = s}\n                    }\n            }  // allows'),
 ('c03_prim_norm_inf_scaled_noabs', 'C03', 'src/algebra/vecmath.rs', 'zip(self, v).fold(T::zero(), |acc, (&x, &y)| T::max(acc, T::abs(x * y)))', 'zip(self, v).fold(T::zero(), |acc, (&x, &y)| T::max(acc, x * y))'),
 ('c01_prim_axpby_swapped', 'C01', 'src/algebra/vecmath.rs', 'zip(&mut *self, x).for_each(|(y, x)| *y = a * (*x) + b * (*y));', 'zip(&mut *self, x).for_each(|(y, x)| *y = b * (*x) + a * (*y));'),
 ('c08_prim_norm_inf_no_abs', 'C08', 'src/algebra/vecmath.rs', '            out = T::max(out, v.abs());', '            out = T::max(out, v);'),
 ('c10_prim_rsqrt_is_sqrt', 'C10', 'src/algebra/vecmath.rs', 'self.scalarop(|x| T::recip(T::sqrt(x)))', 'self.scalarop(|x| T::sqrt(T::recip(x)) * x / x)'),
 ('c14_pow_start_psi2', 'C14', R + 'core/cones/powcone.rs', 'let ψ = T::recip(α * α + (T::one() - α) * (T::one() - α));', 'let ψ: T = (2.).as_T();'),
 ('c12_first_pivot_unguarded', 'C12', 'src/qdldl/qdldl.rs', 'D[0] = if Ap[1] > Ap[0] { Ax[Ap[0]] } else { T::zero() };', 'D[0] = Ax[0];'),
 ('c17_root_at_argument', 'C17', 'src/solver/chordal/merge/disjoint_set_union.rs', '        while parent != self.parents[parent] {\n            self.parents[parent] = self.parents[self.parents[parent]]; //path compression\n            parent = self.parents[parent];', '        while parent != self.parents[x] {\n            self.parents[x] = self.parents[self.parents[x]]; //path compression\n            parent = self.parents[x];'),
 ('c17_union_links_element', 'C17', 'src/solver/chordal/merge/disjoint_set_union.rs', '            std::cmp::Ordering::Less => {\n                self.parents[r] = s;', '            std::cmp::Ordering::Less => {\n                self.parents[x] = s;'),
 ('c17_kruskal_inverted', 'C17', 'src/solver/chordal/merge/clique_graph.rs', '        if !connected_c.in_same_set(row, col) {', '        if connected_c.in_same_set(row, col) {'),
 ('c20_println_debug', 'C20', R + 'core/solver.rs', '            if is_scaling_success {\n                StrategyCheckpoint::NoUpdate', '            if is_scaling_success {\n                println!("scaling ok");\n                StrategyCheckpoint::NoUpdate'),
 ('c20_header_wrong_m', 'C20', D + 'info_print.rs', 'writeln!(out, "  constraints   = {}", data.m)?;', 'writeln!(out, "  constraints   = {}", data.n)?;'),
 ('c14_exp_barrier_div', 'C14', R + 'core/cones/expcone.rs', '        -(-z[2] * z[0]).logsafe() - (z[1] - z[0] - z[0] * l).logsafe()', '        -(-z[2] / z[0]).logsafe() - (z[1] - z[0] - z[0] * l).logsafe()'),
 ('c14_pow_hessian_22_sign', 'C14', R + 'core/cones/powcone.rs', '        H[(2, 2)] = gψ[2] * gψ[2] + two / ψ;', '        H[(2, 2)] = gψ[2] * gψ[2] - two / ψ;'),
 ('c13_soc_dense_diag_minus', 'C13', R + 'core/cones/socone.rs', '                Hsblock[hidx - 1] += T::one()', '                Hsblock[hidx - 1] -= T::one()'),
 ('c17_connect_skip_first', 'C17', 'src/solver/chordal/chordal_info.rs', '    for j in 0..(n - 1) {\n        let row_val = &L.rowval;', '    for j in 1..(n - 1) {\n        let row_val = &L.rowval;'),
 ('c17_connect_superdiagonal', 'C17', 'src/solver/chordal/chordal_info.rs', '            L.set_entry((j + 1, j), T::one());', '            L.set_entry((j, j + 1), T::one());'),
 ('c11_genpow_q_with_p_coef', 'C11', R + 'core/cones/genpowcone.rs', '            *y = d1 * x - coef_q * q;', '            *y = d1 * x - coef_p * q;'),
 ('c08_tuple_matrix_wrong_scale', 'C08', D + 'data_updating.rs', '                M.nzval[idx] = lscale[row] * rscale[col] * c * value;', '                M.nzval[idx] = lscale[col] * rscale[row] * c * value;'),
 ('c15_backtrack_return_next', 'C15', R + 'core/cones/nonsymmetric_common.rs', '        if is_in_cone_fcn(work) {\n            break;\n        }\n        α *= step;', '        let ok = is_in_cone_fcn(work);\n        α *= step;\n        if ok {\n            α /= step * step;\n            break;\n        }'),
 ('c20_conedims_single_last', 'C20', D + 'info_print.rs', '        write!(out, "{})", nvars[nvars.len() - 1])?;', '        write!(out, "{})", nvars[nvars.len() - 2])?;'),
 ('c04_scaling_checkpoint_update', 'C04', R + 'core/solver.rs', '            if is_scaling_success {\n                StrategyCheckpoint::NoUpdate\n            } else {', '            if is_scaling_success {\n                StrategyCheckpoint::NoUpdate\n            } else if _scaling == ScalingStrategy::PrimalDual {\n                StrategyCheckpoint::Update(ScalingStrategy::Dual)\n            } else {'),
 ('c16_gemvN_drops_alpha', 'C16', 'src/algebra/csc/matrix_math.rs', '                y[A.rowval[i]] += a * A.nzval[i] * *xj;', '                y[A.rowval[i]] += A.nzval[i] * *xj;'),
 ('c16_gemvT_minus_path_adds', 'C16', 'src/algebra/csc/matrix_math.rs', '                *yj -= A.nzval[k] * x[A.rowval[k]];', '                *yj += A.nzval[k] * x[A.rowval[k]];'),
 ('c16_gemvT_uses_col_x', 'C16', 'src/algebra/csc/matrix_math.rs', '                *yj += a * A.nzval[k] * x[A.rowval[k]];', '                *yj += a * A.nzval[k] * x[j];'),
 ('c16_symv_doubles_diagonal', 'C16', 'src/algebra/csc/matrix_math.rs', '                *y.get_unchecked_mut(row) += a * Aij * xcol;\n                if row != col {', '                *y.get_unchecked_mut(row) += a * Aij * xcol;\n                if row <= col {'),
 ('c16_quadform_tmp2_x', 'C16', 'src/algebra/csc/matrix_math.rs', '                tmp2 += Mv * y[row];', '                tmp2 += Mv * x[row];'),
 ('c16_quadform_close_swapped', 'C16', 'src/algebra/csc/matrix_math.rs', '        out += tmp1 * y[col] + tmp2 * x[col];', '        out += tmp1 * x[col] + tmp2 * y[col];'),
 ('c16_lrscale_drops_r', 'C16', 'src/algebra/csc/matrix_math.rs', '                *val *= l[*row] * ri;', '                *val *= l[*row];'),
 ('c16_row_norms_no_abs', 'C16', 'src/algebra/csc/matrix_math.rs', '            norms[*row] = T::max(norms[*row], T::abs(*val));', '            norms[*row] = T::max(norms[*row], *val);'),
 ('c16_col_norms_sym_one_side', 'C16', 'src/algebra/csc/matrix_math.rs', '                norms[r] = T::max(norms[r], tmp);\n', ''),
 ('c16_beta_zero_skips_fill', 'C16', 'src/algebra/csc/matrix_math.rs', 'fn _csc_axpby_T<T: FloatT>(A: &CscMatrix<T>, y: &mut [T], x: &[T], a: T, b: T) {\n    //first do the b*y part\n    if b == T::zero() {\n        y.fill(T::zero());\n    } else if b == T::one() {', 'fn _csc_axpby_T<T: FloatT>(A: &CscMatrix<T>, y: &mut [T], x: &[T], a: T, b: T) {\n    //first do the b*y part\n    if b == T::zero() || b == T::one() {'),
 ('c16_rscale_next_column', 'C16', 'src/algebra/csc/matrix_math.rs', '            vals[colptr[i]..colptr[i + 1]].scale(r[i]);', '            vals[colptr[i]..colptr[i + 1]].scale(r[i + 1 - 1 + 0]);'),
 ('c16_gemv_routes_T', 'C16', 'src/algebra/csc/matrix_math.rs', 'impl<T: FloatT> MatrixVectorMultiply<T> for CscMatrix<T> {\n    fn gemv(&self, y: &mut [T], x: &[T], a: T, b: T) {\n        _csc_axpby_N(self, y, x, a, b);', 'impl<T: FloatT> MatrixVectorMultiply<T> for CscMatrix<T> {\n    fn gemv(&self, y: &mut [T], x: &[T], a: T, b: T) {\n        _csc_axpby_N(self, y, x, b, a);'),
 ('c15_nn_ratio_le', 'C15', R + 'core/cones/nonnegativecone.rs', '            if ds[i] < T::zero() {\n                αs = T::min(αs, -s[i] / ds[i]);', '            if ds[i] <= T::zero() {\n                αs = T::min(αs, -s[i] / ds[i]);'),
 ('c15_nn_ratio_wrong_vector', 'C15', R + 'core/cones/nonnegativecone.rs', '                αz = T::min(αz, -z[i] / dz[i]);', '                αz = T::min(αz, -s[i] / dz[i]);'),
 ('c09_row_cursor_skip_plus_one', 'C09', D + 'presolver.rs', '            // skip this cone\n            idx += numel_cone;', '            // skip this cone\n            idx += 1;'),
 ('c13_soc_identity_u0_one', 'C13', R + 'core/cones/socone.rs', '            sparse_data.u[0] = T::FRAC_1_SQRT_2();\n            sparse_data.v.fill(T::zero());', '            sparse_data.u[0] = T::one();\n            sparse_data.v.fill(T::zero());'),
 ('c17_purge_only_survivor', 'C17', 'src/solver/chordal/merge/clique_graph.rs', '        for set in adjacency_table.values_mut() {\n            set.shift_remove(&c_removed);\n        }', '        if let Some(set) = adjacency_table.get_mut(&c_1_ind) {\n            set.shift_remove(&c_removed);\n        }'),
 ('c17_decode_lt_one', 'C17', 'src/solver/chordal/supernode_tree.rs', '        let k: isize = {\n            if snode_index[v] < 0 {', '        let k: isize = {\n            if snode_index[v] < 1 {'),
 ('c17_kruskal_before_weights', 'C17', 'src/solver/chordal/merge/clique_graph.rs', '        clique_intersections(&mut self.edges, &t.snode);\n\n        // find a maximum weight spanning tree of the clique graph using Kruskal\'s algorithm\n        kruskal(&mut self.edges, t.n_cliques);', '        // find a maximum weight spanning tree of the clique graph using Kruskal\'s algorithm\n        kruskal(&mut self.edges, t.n_cliques);\n        clique_intersections(&mut self.edges, &t.snode);'),
 ('c18_reverse_cone_z_from_s', 'C18', 'src/solver/chordal/decomp/reverse_compact.rs', '                new_z[row_range.start + offset] = old_z[row_ptr + counter];', '                new_z[row_range.start + offset] = old_z[row_ptr + offset];'),
 ('c04_footer_like_duration_on_setting', 'C04', D + 'info_print.rs', '                format!("{:?}", set.time_limit)', '                format!("{:?}", Duration::from_secs_f64(set.time_limit).as_secs_f64())'),
 ('c14_pow_unit_init_copy_early', 'C14', R + 'core/cones/genpowcone.rs', '        s[dim1..].set(T::zero());\n\n        z.copy_from(s);', '        z.copy_from(s);\n        s[dim1..].set(T::zero());'),
 ('c16_triu_strict', 'C16', 'src/algebra/csc/core.rs', 'rows.iter().filter(|&row| *row <= col).count();', 'rows.iter().filter(|&row| *row < col).count();'),
 ('c16_triu_nzval_src_shifted', 'C16', 'src/algebra/csc/core.rs', '            nzval[fdest..ldest].copy_from_slice(&self.nzval[fsrc..lsrc]);', '            nzval[fdest..ldest].copy_from_slice(&self.nzval[fdest..ldest]);'),
 ('c16_is_triu_ge', 'C16', 'src/algebra/csc/core.rs', '            if rows.iter().any(|&row| row > col) {', '            if rows.iter().any(|&row| row >= col) {'),
 ('c16_index_to_coord_off', 'C16', 'src/algebra/csc/core.rs', '        let col = self.colptr.partition_point(|&c| idx + 1 > c) - 1;', '        let col = self.colptr.partition_point(|&c| idx > c) - 1;'),
 ('c16_check_format_allows_duplicates', 'C16', 'src/algebra/csc/core.rs', 'if self.rowval[rng].windows(2).any(|c| c[0] >= c[1]) {', 'if self.rowval[rng].windows(2).any(|c| c[0] > c[1]) {'),
 ('c16_check_format_row_le_m', 'C16', 'src/algebra/csc/core.rs', 'if !self.rowval.iter().all(|r| r < &self.m) {', 'if !self.rowval.iter().all(|r| r <= &self.m) {'),
 ('c14_pow_newton_f1_slip', 'C14', R + 'core/cones/powcone.rs', '            (α * α * two) / (α * x + (T::one() + α) / s3)', '            (α * two) / (α * x + (T::one() + α) / s3)'),
 ('c04_small_step_fail_no_status', 'C04', R + 'core/solver.rs', '            } else if α <= T::max(T::zero(), self.settings.core().min_terminate_step_length) {\n                self.info.set_status(SolverStatus::InsufficientProgress);', '            } else if α <= T::max(T::zero(), self.settings.core().min_terminate_step_length) {'),
 ('c15_soc_root_always_minus', 'C15', R + 'core/cones/socone.rs', '            -b + T::sqrt(d)\n        }', '            -b - T::sqrt(d)\n        }'),
 ('c20_print_to_file_keeps', 'C20', 'src/io/mod.rs', '    fn print_to_sink(&mut self) {\n        *self = PrintTarget::Sink(std::io::sink());', '    fn print_to_sink(&mut self) {\n        if !matches!(self, PrintTarget::Sink(_)) {\n            *self = PrintTarget::Sink(std::io::sink());\n        }'),
 ('c13_soc_interior_ge', 'C13', R + 'core/cones/socone.rs', '    let res = _soc_residual(z);\n    if res > T::zero() {', '    let res = _soc_residual(z);\n    if res >= T::zero() {'),
 ('c11_genpow_r_scaled_mu', 'C11', R + 'core/kktsolvers/direct/quasidef/datamaps.rs', '        scaleFcn(ldl, K, &map.r, -sqrtμ);', '        scaleFcn(ldl, K, &map.r, -data.μ);'),
 ('c10_nn_rectify_uniform', 'C10', R + 'core/cones/nonnegativecone.rs', '    fn rectify_equilibration(&self, δ: &mut [T], _e: &[T]) -> bool {\n        δ.set(T::one());\n        false', '    fn rectify_equilibration(&self, δ: &mut [T], _e: &[T]) -> bool {\n        δ.copy_from(_e).recip().scale(_e.mean());\n        true'),
 ('c18_complete_scatter_forward', 'C18', 'src/solver/chordal/decomp/psd_completion.rs', '    A.subsref(&W, &ip, &ip);', '    A.subsref(&W, p, p);'),
 ('c18_cones_stale', 'C18', D + 'problemdata.rs', '            cones_new.as_ref().unwrap_or(&cones),\n            settings,\n        );', '            &cones,\n            settings,\n        );'),
]


def build(repo='/repo', out=None):
    out = out or os.path.join(os.path.dirname(os.path.abspath(__file__)), 'patches')
    os.makedirs(out, exist_ok=True)
    meta = []
    for name, prop, path, old, new in MUTANTS:
        src = open(os.path.join(repo, path), encoding='utf-8').read()
        if src.count(old) != 1:
            print('SKIP %s: anchor text found %d times' % (name, src.count(old)))
            continue
        w = tempfile.mkdtemp()
        a = os.path.join(w, 'a', path); b = os.path.join(w, 'b', path)
        os.makedirs(os.path.dirname(a)); os.makedirs(os.path.dirname(b))
        open(a, 'w', encoding='utf-8').write(src)
        open(b, 'w', encoding='utf-8').write(src.replace(old, new))
        p = subprocess.run(['diff', '-u', 'a/' + path, 'b/' + path], cwd=w, stdout=subprocess.PIPE, text=True)
        open(os.path.join(out, name + '.diff'), 'w', encoding='utf-8').write(p.stdout)
        shutil.rmtree(w)
        meta.append({'name': name, 'property': prop, 'file': path})
    json.dump(meta, open(os.path.join(out, 'index.json'), 'w'), indent=1)
    print('built %d mutants' % len(meta))


if __name__ == '__main__':
    build()
