#!/usr/bin/env python3
"""Behaviour-preserving edits: every check must stay silent on them (false-alarm corpus).
`python3 selftest/benign.py build` -> selftest/benign/<name>.diff"""
import json, os, subprocess, tempfile, shutil

R = 'src/solver/'
D = R + 'implementations/default/'
K = 'src/solver/core/kktsolvers/direct/quasidef/'
Q = R + 'core/kktsolvers/direct/quasidef/'
BENIGN = [
 ('is_solved_reordered', D + 'info.rs', '        ((self.gap_abs < tol_gap_abs) || (self.gap_rel < tol_gap_rel))\n            && (self.res_primal < tol_feas)\n            && (self.res_dual < tol_feas)',
  '        let feas = (self.res_dual < tol_feas) && (self.res_primal < tol_feas);\n        feas && ((self.gap_rel < tol_gap_rel) || (self.gap_abs < tol_gap_abs))'),
 ('max_iter_operands_swapped', D + 'info.rs', 'if settings.max_iter == self.iterations {', 'if self.iterations == settings.max_iter {'),
 ('max_iter_ge', D + 'info.rs', 'if settings.max_iter == self.iterations {', 'if self.iterations >= settings.max_iter {'),
 ('time_limit_swapped', D + 'info.rs', '} else if self.solve_time > settings.time_limit {', '} else if settings.time_limit < self.solve_time {'),
 ('unscale_renamed', D + 'variables.rs', '        let scaleinv = {\n            if is_infeasible {\n                T::recip(self.κ)\n            } else {\n                T::recip(self.τ)\n            }\n        };',
  '        let scaleinv = if is_infeasible { self.κ.recip() } else { self.τ.recip() };'),
 ('post_process_reordered', D + 'solution.rs', '        self.iterations = info.iterations;\n        self.r_prim = info.res_primal;\n        self.r_dual = info.res_dual;', '        self.r_dual = info.res_dual;\n        self.r_prim = info.res_primal;\n        self.iterations = info.iterations;'),
 ('solve_iter_renamed', R + 'core/solver.rs', None, None),  # handled specially: rename local iter -> it
 ('equilibrate_recip_method', D + 'problemdata.rs', 'let ctmp = T::recip(scale_cost);', 'let ctmp = scale_cost.recip();'),
 ('presolver_cmp_swapped', D + 'presolver.rs', 'if b[idx] > infbound {', 'if infbound < b[idx] {'),
 ('update_q_lets_swapped', D + 'data_updating.rs', '        let d = &self.data.equilibration.d;\n        let c = self.data.equilibration.c;\n        data.update_vector(&mut self.data.q, d, Some(c))?;', '        let c = self.data.equilibration.c;\n        let d = &self.data.equilibration.d;\n        data.update_vector(&mut self.data.q, d, Some(c))?;'),
 ('json_ops_reordered', D + 'json.rs', '        json_data.P.lrscale(dinv, dinv);\n        json_data.q.hadamard(dinv);\n        json_data.P.scale(c.recip());\n        json_data.q.scale(c.recip());', '        let cinv = c.recip();\n        json_data.P.scale(cinv);\n        json_data.P.lrscale(dinv, dinv);\n        json_data.q.scale(cinv);\n        json_data.q.hadamard(dinv);'),
 ('invperm_len_local', 'src/qdldl/qdldl.rs', '    let mut b = vec![usize::MAX; p.len()];\n\n    for (i, j) in p.iter().enumerate() {\n        if *j < p.len() && b[*j] == usize::MAX {', '    let n = p.len();\n    let mut b = vec![usize::MAX; n];\n\n    for (i, j) in p.iter().enumerate() {\n        if *j < n && b[*j] == usize::MAX {'),
 ('colcount_order', Q + 'kkt_assembly.rs', '            K.colcount_block(P, 0, MatrixShape::N);\n            K.colcount_missing_diag(P, 0);\n            K.colcount_block(A, n, MatrixShape::T);', '            K.colcount_block(A, n, MatrixShape::T);\n            K.colcount_missing_diag(P, 0);\n            K.colcount_block(P, 0, MatrixShape::N);'),
 ('header_extra_line', D + 'info_print.rs', '        writeln!(out, "\\nproblem:")?;', '        writeln!(out, "\\nproblem:")?;\n        writeln!(out, "  (internal representation)")?;'),
 ('buffer_write_all', 'src/io/mod.rs', '                buffer.extend_from_slice(buf);\n                Ok(buf.len())', '                buffer.write_all(buf)?;\n                Ok(buf.len())'),
 ('residuals_reordered', D + 'residuals.rs', '        let qx = data.q.dot(&variables.x);\n        let bz = data.b.dot(&variables.z);\n        let sz = variables.s.dot(&variables.z);', '        let sz = variables.z.dot(&variables.s);\n        let bz = variables.z.dot(&data.b);\n        let qx = variables.x.dot(&data.q);'),
 ('info_update_temps', D + 'info.rs', '        self.res_primal =\n            residuals.rz.norm_scaled(einv) * τinv / T::max(T::one(), normb + normx + norms);', '        let rp_num = residuals.rz.norm_scaled(einv) * τinv;\n        let rp_den = T::max(T::one(), normb + normx + norms);\n        self.res_primal = rp_num / rp_den;'),
 ('default_start_inverted', R + 'core/solver.rs', None, None),  # handled specially
 ('small_step_reordered', R + 'core/solver.rs', '            if !self.cones.is_symmetric()\n                && scaling == ScalingStrategy::PrimalDual\n                && α < self.settings.core().min_switch_step_length', '            if scaling == ScalingStrategy::PrimalDual\n                && !self.cones.is_symmetric()\n                && α < self.settings.core().min_switch_step_length'),
 ('kkt_update_P_local', Q + 'directldlkktsolver.rs', '        _update_values(&mut self.ldlsolver, &mut self.KKT, &self.map.P, &P.nzval);', '        let index = &self.map.P;\n        let values = &P.nzval;\n        _update_values(&mut self.ldlsolver, &mut self.KKT, index, values);'),
 ('print_target_arms_reordered', 'src/io/mod.rs', '            PrintTarget::Stdout(stdout) => stdout.write(buf),\n            PrintTarget::File(file) => file.write(buf),', '            PrintTarget::File(file) => file.write(buf),\n            PrintTarget::Stdout(stdout) => stdout.write(buf),'),
 ('add_step_reordered', D + 'variables.rs', '        self.x.axpby(α, &step.x, T::one());\n        self.s.axpby(α, &step.s, T::one());\n        self.z.axpby(α, &step.z, T::one());\n        self.τ += α * step.τ;\n        self.κ += α * step.κ;', '        self.κ += step.κ * α;\n        self.τ += step.τ * α;\n        self.z.axpby(α, &step.z, T::one());\n        self.s.axpby(α, &step.s, T::one());\n        self.x.axpby(α, &step.x, T::one());'),
 ('nn_step_length_temps', R + 'core/cones/nonnegativecone.rs', '            if dz[i] < T::zero() {\n                αz = T::min(αz, -z[i] / dz[i]);\n            }', '            if dz[i] < T::zero() {\n                let ratio = -z[i] / dz[i];\n                αz = T::min(ratio, αz);\n            }'),
 ('check_dims_reordered', D + 'solver.rs', '    assert!(n == A.ncols(), "A and q incompatible dimensions.");\n    assert!(n == P.ncols(), "P and q incompatible dimensions.");', '    assert!(n == P.ncols(), "P and q incompatible dimensions.");\n    assert!(A.ncols() == n, "A and q incompatible dimensions.");'),
 ('shift_strict_test', D + 'variables.rs', '    if min_margin <= T::zero() {\n        // at least', '    if min_margin < T::zero() {\n        // at least'),
 ('shift_circ_operands', R + 'core/cones/symmetric_common.rs', 'self.circ_op(shift, step_s, step_z);', 'self.circ_op(shift, step_z, step_s);'),
 ('nn_mul_W_commuted', R + 'core/cones/nonnegativecone.rs', 'y[i] = α * (x[i] * self.w[i]) + β * y[i];', 'y[i] = β * y[i] + α * (self.w[i] * x[i]);'),
 ('soc_mul_Hs_two_first', R + 'core/cones/socone.rs', 'let c = self.w.dot(x) * (2.).as_T();', 'let two: T = (2.).as_T();\n        let c = two * x.dot(&self.w);'),
 ('psd_T_arm_reassociated', R + 'core/cones/psdtrianglecone.rs', '            tmp.mul(X, &Rx.t(), T::one(), T::zero());\n            Y.mul(Rx, tmp, α, β);', '            tmp.mul(Rx, X, T::one(), T::zero());\n            Y.mul(tmp, &Rx.t(), α, β);'),
 ('soc_sparse_v_scale_positive', Q + 'datamaps.rs', 'scaleFcn(ldl, K, &map.v, -η2);', 'scaleFcn(ldl, K, &map.v, η2);'),
 ('soc_w0_norm_method', R + 'core/cones/socone.rs', 'w[0] = T::sqrt(T::one() + w1sq);', 'w[0] = (w1sq + T::one()).sqrt();'),
 ('soc_identity_reordered', R + 'core/cones/socone.rs', '            sparse_data.d = (0.5).as_T();\n            sparse_data.u.fill(T::zero());\n            sparse_data.u[0] = T::FRAC_1_SQRT_2();\n            sparse_data.v.fill(T::zero());', '            sparse_data.v.fill(T::zero());\n            sparse_data.u.fill(T::zero());\n            sparse_data.u[0] = T::FRAC_1_SQRT_2();\n            sparse_data.d = (0.5).as_T();'),
 ('composite_symmetric_first', R + 'core/cones/compositecone.rs', '                if cone.is_symmetric() == symcond {\n                    continue;\n                }\n                let (dzi, dsi)', '                if cone.is_symmetric() != symcond {\n                    continue;\n                }\n                let (dzi, dsi)'),
 ('composite_skip_ne', R + 'core/cones/compositecone.rs', None, None),  # handled specially: != and swapped flags
 ('is_triu_explicit_loop', 'src/algebra/csc/core.rs', '            if rows.iter().any(|&row| row > col) {\n                return false;\n            }', '            for &row in rows.iter() {\n                if row > col {\n                    return false;\n                }\n            }'),
 ('prim_dot_commuted', 'src/algebra/vecmath.rs', 'zip(self, y).fold(T::zero(), |acc, (&x, &y)| acc + x * y)', 'zip(self, y).fold(T::zero(), |acc, (&x, &y)| y * x + acc)'),
 ('prim_norm_inf_scaled_temp', 'src/algebra/vecmath.rs', 'zip(self, v).fold(T::zero(), |acc, (&x, &y)| T::max(acc, T::abs(x * y)))', 'zip(self, v).fold(T::zero(), |acc, (&x, &y)| {\n            let p = y * x;\n            T::max(T::abs(p), acc)\n        })'),
 ('expformat_negated_guard', D + 'info_print.rs', '        if $val.is_finite() {\n            _exp_str_reformat(format!($fmt, $val))\n        } else {\n            format!($fmt, $val)\n        }', '        if !$val.is_finite() {\n            format!($fmt, $val)\n        } else {\n            _exp_str_reformat(format!($fmt, $val))\n        }'),
 ('zero_unit_init_reordered', R + 'core/cones/zerocone.rs', '    fn unit_initialization(&self, z: &mut [T], s: &mut [T]) {\n        s.fill(T::zero());\n        z.fill(T::zero());', '    fn unit_initialization(&self, z: &mut [T], s: &mut [T]) {\n        z.fill(T::zero());\n        s.set(T::zero());'),
 ('reduce_cones_index_walk', D + 'presolver.rs', None, None),  # handled specially: index-based walk that advances on every path
 ('genpow_get_Hs_fill', R + 'core/cones/genpowcone.rs', 'Hsblock[dim1..].set(data.μ * data.d2);', 'Hsblock[dim1..].fill(data.μ * data.d2);'),
 ('exp_membership_reordered', R + 'core/cones/expcone.rs', 'if s[2] > T::zero() && s[1] > T::zero() {\n            //feasible', 'if s[1] > T::zero() && s[2] > T::zero() {\n            //feasible'),
 ('newton_relative_mul_form', R + 'core/cones/nonsymmetric_common.rs', '|| (T::abs(dx / x) < T::sqrt(T::epsilon()))', '|| (T::abs(dx) < T::sqrt(T::epsilon()) * T::abs(x))'),
 ('timer_reset_reordered', 'src/timers/timers.rs', '        self.start = None;\n        self.elapsed = Duration::ZERO;\n        self.subtimers.clear();', '        self.subtimers.clear();\n        self.elapsed = Duration::ZERO;\n        self.start = None;'),
 ('equil_new_clone', D + 'equilibration.rs', '        let d = vec![T::one(); n];\n        let dinv = vec![T::one(); n];', '        let d = vec![T::one(); n];\n        let dinv = d.clone();'),
 ('sparsity_mask_eq_form', 'src/solver/chordal/chordal_info.rs', '        if bi != T::zero() {\n            active[i] = true;\n        }', '        if bi == T::zero() {\n            continue;\n        }\n        active[i] = true;'),
 ('soc_expandable_size_test', R + 'core/cones/socone.rs', None, None),  # handled specially: size test identical to the allocation test
 ('tuple_update_vector_own_loop', D + 'data_updating.rs', '        let z = zip(self.0.iter(), self.1.iter());\n        z.update_vector(v, vscale, cscale)',
  '        let c = cscale.unwrap_or(T::one());\n        for (&idx, &value) in zip(self.0.iter(), self.1.iter()) {\n            if idx >= v.len() {\n                return Err(SparseFormatError::IncompatibleDimension);\n            }\n            v[idx] = value * vscale[idx] * c;\n        }\n        Ok(())'),
 ('conedims_last_unwrap', D + 'info_print.rs', '        write!(out, "...,{})", nvars[nvars.len() - 1])?;', '        write!(out, "...,{})", nvars.last().unwrap())?;'),
 ('load_from_reader', D + 'json.rs', '        let mut buffer = String::new();\n        file.read_to_string(&mut buffer)?;\n        let mut json_data: JsonProblemData<T> = serde_json::from_str(&buffer)?;',
  '        let mut buffer = Vec::new();\n        file.read_to_end(&mut buffer)?;\n        let mut json_data: JsonProblemData<T> = serde_json::from_slice(&buffer)?;'),
 ('backtrack_early_returns', R + 'core/cones/nonsymmetric_common.rs', '        if is_in_cone_fcn(work) {\n            break;\n        }\n        α *= step;\n        if α < α_min {\n            α = T::zero();\n            break;\n        }\n    }\n    α\n}',
  '        if is_in_cone_fcn(work) {\n            return α;\n        }\n        α *= step;\n        if α < α_min {\n            return T::zero();\n        }\n    }\n}'),
 ('pow_barrier_dual_grouped', R + 'core/cones/powcone.rs', '        -arg1.logsafe() - (T::one() - α) * z[0].logsafe() - α * z[1].logsafe()', '        -(arg1.logsafe() + α * z[1].logsafe() + (T::one() - α) * z[0].logsafe())'),
 ('psd_completion_nth', 'src/solver/chordal/decomp/psd_completion.rs', '        let row_ranges: Vec<_> = cones.rng_cones_iter().collect();\n\n        // loop over just the patterns\n        for pattern in self.spatterns.iter() {\n            let row_range = row_ranges[pattern.orig_index].clone();',
  '        // loop over just the patterns\n        for pattern in self.spatterns.iter() {\n            let row_range = cones.rng_cones_iter().nth(pattern.orig_index).unwrap();'),
 ('soc_dense_00_plain', R + 'core/cones/socone.rs', '            Hsblock[0] =\n                (T::SQRT_2() * self.w[0] - T::one()) * (T::SQRT_2() * self.w[0] + T::one());', '            Hsblock[0] = {\n                let t2: T = (2.).as_T();\n                t2 * self.w[0] * self.w[0] - T::one()\n            };'),
 ('scaling_checkpoint_output_var', R + 'core/solver.rs', '            if is_scaling_success {\n                StrategyCheckpoint::NoUpdate\n            } else {\n                self.info.set_status(SolverStatus::NumericalError);\n                StrategyCheckpoint::Fail\n            }',
  '            let output;\n            if !is_scaling_success {\n                self.info.set_status(SolverStatus::NumericalError);\n                output = StrategyCheckpoint::Fail;\n            } else {\n                output = StrategyCheckpoint::NoUpdate;\n            }\n            output'),
 ('genpow_mul_Hs_commuted', R + 'core/cones/genpowcone.rs', '            *y = data.d2 * x - coef_r * r;', '            *y = x * data.d2 - r * coef_r;'),
 ('composite_rectify_locals', R + 'core/cones/compositecone.rs', '            any_changed |= cone.rectify_equilibration(δi, ei);', '            let changed = cone.rectify_equilibration(δi, ei);\n            any_changed |= changed;'),
 ('presolver_drop_ge_form', D + 'presolver.rs', '                if b[idx] > infbound {\n                    keep_logical[idx] = false;\n                    mreduced -= 1;\n                }', '                if !(b[idx] <= infbound) {\n                    mreduced -= 1;\n                    keep_logical[idx] = false;\n                }'),
 ('connect_graph_flag_any', 'src/solver/chordal/chordal_info.rs', '        if !connected {\n            L.set_entry((j + 1, j), T::one());\n        }', '        if connected {\n            continue;\n        }\n        L.set_entry((j + 1, j), T::one());'),
 ('composite_rectify_skip_zero', R + 'core/cones/compositecone.rs', '            let δi = &mut δ[rng.clone()];\n            let ei = &e[rng.clone()];\n            any_changed |=', '            if matches!(cone, SupportedCone::ZeroCone(_)) {\n                continue;\n            }\n            let δi = &mut δ[rng.clone()];\n            let ei = &e[rng.clone()];\n            any_changed |='),
 ('json_cost_scaling_folded', D + 'json.rs', '        json_data.P.lrscale(dinv, dinv);\n        json_data.q.hadamard(dinv);\n        json_data.P.scale(c.recip());\n        json_data.q.scale(c.recip());',
  '        let cinv = c.recip();\n        let dinv_c: Vec<T> = dinv.iter().map(|&di| di * cinv).collect();\n        json_data.P.lrscale(dinv, &dinv_c);\n        json_data.q.hadamard(&dinv_c);'),
 ('csc_gemvN_commuted', 'src/algebra/csc/matrix_math.rs', '                y[A.rowval[i]] += a * A.nzval[i] * *xj;', '                y[A.rowval[i]] += *xj * (A.nzval[i] * a);'),
 ('csc_symv_lt_test', 'src/algebra/csc/matrix_math.rs', '                *y.get_unchecked_mut(row) += a * Aij * xcol;\n                if row != col {', '                *y.get_unchecked_mut(row) += a * Aij * xcol;\n                if col != row {'),
 ('csc_lscale_index_loop', 'src/algebra/csc/matrix_math.rs', '        for (val, row) in zip(&mut self.nzval, &self.rowval) {\n            *val *= l[*row];\n        }', '        for (row, val) in zip(&self.rowval, &mut self.nzval) {\n            *val *= l[*row];\n        }'),
 ('csc_quadform_commuted', 'src/algebra/csc/matrix_math.rs', '                tmp1 += Mv * x[row];\n                tmp2 += Mv * y[row];', '                tmp2 += y[row] * Mv;\n                tmp1 += x[row] * Mv;'),
 ('csc_row_sums_swapped_zip', 'src/algebra/csc/matrix_math.rs', '        for (&row, &val) in zip(&self.rowval, &self.nzval) {\n            sums[row] += val;\n        }', '        for (&val, &row) in zip(&self.nzval, &self.rowval) {\n            sums[row] += val;\n        }'),
 ('nn_ratio_swapped_operands', R + 'core/cones/nonnegativecone.rs', '            if ds[i] < T::zero() {\n                αs = T::min(αs, -s[i] / ds[i]);', '            if T::zero() > ds[i] {\n                αs = T::min(-s[i] / ds[i], αs);'),
 ('presolver_cursor_local', D + 'presolver.rs', '            // skip this cone\n            idx += numel_cone;', '            // skip this cone\n            idx = idx + numel_cone;'),
 ('new_collapsed_continue_form', R + 'core/cones/supportedcone.rs', None, None),  # handled specially: `if cone.nvars() == 0 { continue; }`
 ('clique_purge_iter_mut', 'src/solver/chordal/merge/clique_graph.rs', '        for set in adjacency_table.values_mut() {\n            set.shift_remove(&c_removed);\n        }', '        for (_, set) in adjacency_table.iter_mut() {\n            set.shift_remove(&c_removed);\n        }'),
 ('reverse_compact_all_sliced', 'src/solver/chordal/decomp/reverse_compact.rs', None, None),  # handled specially: all four vectors viewed through sub-slices
 ('equilibrate_rectify_scratch', D + 'problemdata.rs', '        if cones.rectify_equilibration(ework, e) {\n            // only rescale again if some cones were rectified\n            scale_data(P, A, q, b, None, ework);\n            e.hadamard(ework);\n        }',
  '        let mut delta = vec![T::one(); e.len()];\n        if cones.rectify_equilibration(&mut delta, e) {\n            // only rescale again if some cones were rectified\n            scale_data(P, A, q, b, None, &delta);\n            e.hadamard(&delta);\n        }'),
 ('pow_dual_membership_reordered', R + 'core/cones/powcone.rs', '                (α * two) * (z[0] / α).logsafe()\n                    + (T::one() - α) * (z[1] / (T::one() - α)).logsafe() * two,', '                two * (T::one() - α) * (z[1] / (T::one() - α)).logsafe()\n                    + (z[0] / α).logsafe() * (two * α),'),
 ('exp_correction_commuted', R + 'core/cones/expcone.rs', '        η[2] = -z[0] / z[2]; // gradient of ψ', '        η[2] = -(z[0] / z[2]); // gradient of ψ'),
 ('merge_loop_break_flag', 'src/solver/chordal/merge/mod.rs', '            if t.n_cliques == 1 {\n                break;\n            }', '            if 1 == t.n_cliques {\n                break;\n            }'),
 ('refactor_comment_and_let', 'src/qdldl/qdldl.rs', '        self.is_symbolic = false;\n        _factor(', '        self.is_symbolic = false;\n        let _n = self.D.len();\n        _factor('),
 ('factor_logical_continue', 'src/qdldl/qdldl.rs', None, None),  # handled specially: `if logical_factor { continue; }` ahead of an unindented pivot block
 ('standard_H_match_peek', 'src/solver/chordal/decomp/augment_standard.rs', '            if patterns_iter.len() != 0 && patterns_iter.peek().unwrap().orig_index == coneidx {\n                assert!(matches!(cone, SupportedConeT::PSDTriangleConeT(_)));\n                decompose_with_sparsity_pattern(\n                    &mut H_I,\n                    &mut cones_new,\n                    patterns_iter.next().unwrap(),\n                    row,\n                );\n            } else {\n                decompose_with_cone(&mut H_I, &mut cones_new, cone, row);\n            }',
  '            match patterns_iter.peek() {\n                Some(pattern) if pattern.orig_index == coneidx => {\n                    decompose_with_sparsity_pattern(\n                        &mut H_I,\n                        &mut cones_new,\n                        patterns_iter.next().unwrap(),\n                        row,\n                    );\n                }\n                _ => decompose_with_cone(&mut H_I, &mut cones_new, cone, row),\n            }'),
 ('status_display_name_table', R + 'core/solver.rs', '        write!(f, "{:?}", self)\n', '        let name = match self {\n            SolverStatus::Unsolved => "Unsolved",\n            SolverStatus::Solved => "Solved",\n            SolverStatus::PrimalInfeasible => "PrimalInfeasible",\n            SolverStatus::DualInfeasible => "DualInfeasible",\n            SolverStatus::AlmostSolved => "AlmostSolved",\n            SolverStatus::AlmostPrimalInfeasible => "AlmostPrimalInfeasible",\n            SolverStatus::AlmostDualInfeasible => "AlmostDualInfeasible",\n            SolverStatus::MaxIterations => "MaxIterations",\n            SolverStatus::MaxTime => "MaxTime",\n            SolverStatus::NumericalError => "NumericalError",\n            SolverStatus::InsufficientProgress => "InsufficientProgress",\n        };\n        f.write_str(name)\n'),
 ('parent_child_clears_reordered', 'src/solver/chordal/merge/parent_child.rs', '        t.snode[ch].clear();\n        t.separators[ch].clear();', '        t.separators[ch].clear();\n        t.snode[ch].clear();'),
 ('sortperm_len_local', 'src/solver/chordal/merge/clique_graph.rs', '        let slicep = &mut p[0..self.edges.nzval.len()];\n        sortperm_rev(slicep, &self.edges.nzval);', '        let nedges = self.edges.nzval.len();\n        sortperm_rev(&mut p[0..nedges], &self.edges.nzval);'),
 ('dedup_locals_renamed', 'src/algebra/csc/core.rs', None, None),  # handled specially: ptr/stop/nnz/accum/thisrow renamed inside deduplicate
 ('dedup_ne_bound', 'src/algebra/csc/core.rs', '            while ptr < stop {\n                let thisrow = self.rowval[ptr];', '            while ptr != stop {\n                let thisrow = self.rowval[ptr];'),
 ('dropzeros_always_move', 'src/algebra/csc/core.rs', '                    if writeidx != readidx {\n                        self.nzval[writeidx] = val;\n                        self.rowval[writeidx] = row;\n                    }\n', '                    self.nzval[writeidx] = val;\n                    self.rowval[writeidx] = row;\n'),
 ('select_rows_close_after_loop', 'src/algebra/csc/core.rs', '                }\n            }\n            Ared.colptr[Ared.n] = ptrred;\n        }\n\n        Ared', '                }\n            }\n        }\n        Ared.colptr[Ared.n] = ptrred;\n\n        Ared'),
 ('set_entry_absent_flag', 'src/algebra/csc/core.rs', '        if i == rows_in_this_column.len() || rows_in_this_column[i] != row {\n            // don\'t allocate', '        let absent = i == rows_in_this_column.len() || rows_in_this_column[i] != row;\n        if absent {\n            // don\'t allocate'),
 ('index_to_coord_le', 'src/algebra/csc/core.rs', 'self.colptr.partition_point(|&c| idx + 1 > c) - 1', 'self.colptr.partition_point(|&c| c <= idx) - 1'),
 ('pd_scaling_commuted', R + 'core/cones/nonsymmetric_common.rs', '            δs[i] = s[i] + μ * st[i];\n            δz[i] = z[i] + μ * zt[i];', '            δs[i] = μ * st[i] + s[i];\n            δz[i] = zt[i] * μ + z[i];'),
 ('pd_scaling_dyads_reordered', R + 'core/cones/nonsymmetric_common.rs', '                        s[i] * s[j] / dot_sz + δs[i] * δs[j] / dot_δsz + t * axis_z[i] * axis_z[j];', '                        δs[i] * δs[j] / dot_δsz + axis_z[i] * axis_z[j] * t + s[i] * s[j] / dot_sz;'),
 ('exp_higher_corr_recip', R + 'core/cones/expcone.rs', '        let inv_ψ2 = (ψ * ψ).recip();', '        let inv_ψ2 = T::one() / (ψ * ψ);'),
 ('exp_higher_corr_half', R + 'core/cones/expcone.rs', '        η[..].scale((0.5).as_T());\n    }\n\n    // 3rd-order correction at the point z.', '        η[..].scale(T::one() / two);\n    }\n\n    // 3rd-order correction at the point z.'),
 ('small_step_fail_order', R + 'core/solver.rs', '                self.info.set_status(SolverStatus::InsufficientProgress);\n                output = StrategyCheckpoint::Fail;', '                output = StrategyCheckpoint::Fail;\n                self.info.set_status(SolverStatus::InsufficientProgress);'),
 ('clique_graph_merge_clear_first_len', 'src/solver/chordal/merge/clique_graph.rs', '        set_union_into_indexed(&mut t.snode, c1, c2);\n        t.snode[c2].clear();\n\n        // decrement number of mergeable / nonempty cliques in graph\n        t.n_cliques -= 1', '        t.n_cliques -= 1;\n        set_union_into_indexed(&mut t.snode, c1, c2);\n        t.snode[c2].clear();'),
 ('is_triu_skip_empty_column', 'src/algebra/csc/core.rs', '            let rows = &self.rowval[first..last];\n\n            // number of entries on or above diagonal in this column,\n            // shifted by 1 (i.e. colptr keeps a 0 in the first column)\n            if rows.iter().any(', '            if first == last {\n                continue;\n            }\n            let rows = &self.rowval[first..last];\n\n            // number of entries on or above diagonal in this column,\n            // shifted by 1 (i.e. colptr keeps a 0 in the first column)\n            if rows.iter().any('),
 ('gate_two_step', D + 'data_updating.rs', '        if self.data.is_presolved() {\n            return Err(DataUpdateError::PresolveIsActive);\n        }', '        let presolved = self.data.is_presolved();\n        if presolved {\n            return Err(DataUpdateError::PresolveIsActive);\n        }'),
 ('cholesky_pivot_gt_form', 'src/algebra/densesym3x3/mod.rs', '        let t = A[(0, 0)];\n        if t <= T::zero() {\n            return false;\n        }', '        let t = A[(0, 0)];\n        if !(t > T::zero()) {\n            return false;\n        }'),
 ('pow_unit_init_two_minus_alpha', R + 'core/cones/powcone.rs', '        s[1] = (T::one() + (T::one() - α)).sqrt();', '        s[1] = (T::one() + T::one() - α).sqrt();'),
 ('combined_rhs_scale_step_s', D + 'variables.rs', '        if m != T::one() {\n            step.z.scale(m);\n        }', '        if m != T::one() {\n            step.s.scale(m);\n        }'),
 ('barrier_trial_commuted', R + 'core/cones/expcone.rs', '        let cur_s = [s[0] + α * ds[0], s[1] + α * ds[1], s[2] + α * ds[2]];\n\n        barrier += self.barrier_dual(&cur_z);\n        barrier += self.barrier_primal(&cur_s);', '        let cur_s = [ds[0] * α + s[0], s[1] + ds[1] * α, α * ds[2] + s[2]];\n\n        barrier += self.barrier_primal(&cur_s);\n        barrier += self.barrier_dual(&cur_z);'),
 ('info_reset_reordered', D + 'info.rs', '        self.status = SolverStatus::Unsolved;\n        self.iterations = 0;\n        self.solve_time = 0f64;\n\n        timers.reset_timer("solve");', '        timers.reset_timer("solve");\n        self.solve_time = 0f64;\n        self.iterations = 0;\n        self.status = SolverStatus::Unsolved;'),
 ('block_indices_le_swapped', 'src/solver/chordal/decomp/augment_compact.rs', '    for &i in snode {\n        for &j in separator {\n            block_indices.push((min(i, j), max(i, j), false));\n        }\n    }', '    for &j in separator {\n        for &i in snode {\n            block_indices.push((min(j, i), max(j, i), false));\n        }\n    }'),
 ('validator_size_in_message', D + 'json.rs', '    P.check_format().map_err(|e| invalid(format!("P: {}", e)))?;', '    P.check_format()\n        .map_err(|e| invalid(format!("P ({} x {}): {}", P.nrows(), P.ncols(), e)))?;'),
 ('info_gap_abs_swapped', D + 'info.rs', '        self.gap_abs = T::abs(self.cost_primal - self.cost_dual);', '        self.gap_abs = T::abs(self.cost_dual - self.cost_primal);'),
 ('info_dual_inf_max_swapped', D + 'info.rs', '        self.res_dual_inf = T::max(\n            residuals.Px.norm_scaled(dinv) / T::max(T::one(), normx),\n            residuals.rz_inf.norm_scaled(einv) / T::max(T::one(), normx + norms),\n        );', '        self.res_dual_inf = T::max(\n            residuals.rz_inf.norm_scaled(einv) / T::max(T::one(), norms + normx),\n            residuals.Px.norm_scaled(dinv) / T::max(normx, T::one()),\n        );'),
 ('info_tau_unscale_plain_mul', D + 'info.rs', '        normx *= τinv;\n        normz *= τinv;\n        norms *= τinv;', '        normx = normx * τinv;\n        normz = τinv * normz;\n        norms = norms * τinv;'),
 ('info_res_primal_regrouped', D + 'info.rs', '            residuals.rz.norm_scaled(einv) * τinv / T::max(T::one(), normb + normx + norms);', '            τinv * residuals.rz.norm_scaled(einv) / T::max(T::one(), normx + norms + normb);'),
 ('info_gap_rel_min_swapped', D + 'info.rs', '                T::min(T::abs(self.cost_primal), T::abs(self.cost_dual)),', '                T::min(T::abs(self.cost_dual), T::abs(self.cost_primal)),'),
 ('residuals_rx_two_steps_swapped', D + 'residuals.rs', '        self.rx.waxpby(-T::one(), &self.Px, -variables.τ, &data.q);\n        self.rx.axpby(T::one(), &self.rx_inf, T::one());', '        self.rx.waxpby(-variables.τ, &data.q, -T::one(), &self.Px);\n        self.rx.axpby(T::one(), &self.rx_inf, T::one());'),
 ('residuals_rtau_reordered', D + 'residuals.rs', '        self.rτ = qx + bz + variables.κ + xPx / variables.τ;', '        self.rτ = xPx / variables.τ + variables.κ + bz + qx;'),
 ('unscale_z_factor_local', D + 'variables.rs', '        self.z.hadamard(e).scale(scaleinv * cinv);', '        let zfac = cinv * scaleinv;\n        self.z.hadamard(e).scale(zfac);'),
 ('unscale_match_form', D + 'variables.rs', '            if is_infeasible {\n                T::recip(self.κ)\n            } else {\n                T::recip(self.τ)\n            }', '            match is_infeasible {\n                false => T::recip(self.τ),\n                true => T::recip(self.κ),\n            }'),
 ('kkt_tau_num_reordered', D + 'kktsystem.rs', '        let tau_num = rhs.τ - rhs.κ / variables.τ\n            + data.q.dot(x1)\n            + data.b.dot(z1)\n            + two * data.P.quad_form(ξ, x1);', '        let tau_num = data.b.dot(z1) + data.q.dot(x1) + rhs.τ - rhs.κ / variables.τ\n            + data.P.quad_form(ξ, x1) * two;'),
 ('kkt_lhs_waxpby_swapped', D + 'kktsystem.rs', '        lhs.x.waxpby(T::one(), x1, lhs.τ, x2);\n        lhs.z.waxpby(T::one(), z1, lhs.τ, z2);', '        lhs.z.waxpby(lhs.τ, z2, T::one(), z1);\n        lhs.x.waxpby(lhs.τ, x2, T::one(), x1);'),
 ('kkt_dkappa_regrouped', D + 'kktsystem.rs', '        lhs.κ = -(rhs.κ + variables.κ * lhs.τ) / variables.τ;', '        lhs.κ = -(lhs.τ * variables.κ + rhs.κ) / variables.τ;'),
 ('kkt_initial_qp_negate', D + 'kktsystem.rs', '            self.workx.scalarop_from(|q| -q, &data.q);\n            self.workz.copy_from(&data.b);', '            self.workz.copy_from(&data.b);\n            self.workx.axpby(-T::one(), &data.q, T::zero());'),
 ('equil_clip_loops_swapped', D + 'problemdata.rs', '            for (dwork, &d) in izip!(dwork.iter_mut(), d.iter()) {\n                *dwork = T::clip(dwork, scale_min / d, scale_max / d);\n            }\n            for (ework, &e) in izip!(ework.iter_mut(), e.iter()) {\n                *ework = T::clip(ework, scale_min / e, scale_max / e);\n            }', '            for (ework, &e) in izip!(ework.iter_mut(), e.iter()) {\n                *ework = T::clip(ework, scale_min / e, scale_max / e);\n            }\n            for (dwork, &d) in izip!(dwork.iter_mut(), d.iter()) {\n                *dwork = T::clip(dwork, scale_min / d, scale_max / d);\n            }'),
 ('equil_record_before_scale', D + 'problemdata.rs', '            scale_data(P, A, q, b, Some(dwork), ework);\n            d.hadamard(dwork);\n            e.hadamard(ework);', '            d.hadamard(dwork);\n            e.hadamard(ework);\n            scale_data(P, A, q, b, Some(dwork), ework);'),
 ('equil_cost_scale_min_form', D + 'problemdata.rs', '                let scale_cost = T::max(inf_norm_q, mean_col_norm_P);\n                let ctmp = T::recip(scale_cost);', '                let scale_cost = T::max(mean_col_norm_P, inf_norm_q);\n                let ctmp = T::one() / scale_cost;'),
 ('equil_cost_q_before_P', D + 'problemdata.rs', '                P.scale(ctmp);\n                q.scale(ctmp);\n                equil.c *= ctmp;', '                equil.c *= ctmp;\n                q.scale(ctmp);\n                P.scale(ctmp);'),
 ('termination_limits_time_first', D + 'info.rs', '            if settings.max_iter == self.iterations {\n                self.status = SolverStatus::MaxIterations;\n            } else if self.solve_time > settings.time_limit {\n                self.status = SolverStatus::MaxTime;\n            }', '            if self.iterations != settings.max_iter {\n                if self.solve_time > settings.time_limit {\n                    self.status = SolverStatus::MaxTime;\n                }\n            } else {\n                self.status = SolverStatus::MaxIterations;\n            }'),
 ('termination_return_matches', D + 'info.rs', '        // return TRUE if we settled on a final status\n        self.status != SolverStatus::Unsolved', '        // return TRUE if we settled on a final status\n        !matches!(self.status, SolverStatus::Unsolved)'),
 ('termination_poor_progress_collapsed', D + 'info.rs', '            if self.ktratio < T::one() {\n                if (self.res_dual > settings.tol_feas * (100.).as_T()\n                    && self.res_dual > self.prev_res_dual * (100.).as_T())\n                    || (self.res_primal > settings.tol_feas * (100.).as_T()\n                        && self.res_primal > self.prev_res_primal * (100.).as_T())\n                {\n                    self.status = SolverStatus::InsufficientProgress;\n                }\n            }', '            let hundred: T = (100.).as_T();\n            let dual_diverges = self.res_dual > settings.tol_feas * hundred && self.res_dual > self.prev_res_dual * hundred;\n            let primal_diverges = self.res_primal > settings.tol_feas * hundred && self.res_primal > self.prev_res_primal * hundred;\n            if self.ktratio < T::one() && (dual_diverges || primal_diverges) {\n                self.status = SolverStatus::InsufficientProgress;\n            }'),
 ('solve_isdone_match_arms_split', R + 'core/solver.rs', '                        StrategyCheckpoint::NoUpdate | StrategyCheckpoint::Fail => {break}\n                        StrategyCheckpoint::Update(s) => {scaling = s; continue}', '                        StrategyCheckpoint::Update(s) => {scaling = s; continue}\n                        StrategyCheckpoint::Fail => {break}\n                        StrategyCheckpoint::NoUpdate => {break}'),
 ('solve_mehrotra_m_if_swapped', R + 'core/solver.rs', '                let m = if iter > 1 {T::one()} else {α};', '                let m = if iter <= 1 {α} else {T::one()};'),
 ('solve_numerical_error_zero_after', R + 'core/solver.rs', '                StrategyCheckpoint::Update(s) => {α = T::zero(); scaling = s; continue}\n                StrategyCheckpoint::Fail => {α = T::zero(); break}\n            }\n\n\n            // compute final step length', '                StrategyCheckpoint::Update(s) => {scaling = s; α = T::zero(); continue}\n                StrategyCheckpoint::Fail => {α = T::zero(); break}\n            }\n\n\n            // compute final step length'),
 ('solve_final_row_ne_form', R + 'core/solver.rs', '        if α == T::zero() {\n            self.info.save_scalars(μ, α, σ, iter);', '        if !(α != T::zero()) {\n            self.info.save_scalars(μ, α, σ, iter);'),
 ('solve_scaling_init_inverted', R + 'core/solver.rs', '            if self.cones.allows_primal_dual_scaling() {ScalingStrategy::PrimalDual}\n            else {ScalingStrategy::Dual}', '            if !self.cones.allows_primal_dual_scaling() {ScalingStrategy::Dual}\n            else {ScalingStrategy::PrimalDual}'),
 ('solve_footer_before_solution_finalize', R + 'core/solver.rs', '        self.info.finalize(&mut timers);\n        self.solution.finalize(&self.info);\n\n        self.info.print_footer(&self.settings).unwrap();', '        self.info.finalize(&mut timers);\n        self.info.print_footer(&self.settings).unwrap();\n        self.solution.finalize(&self.info);\n'),
 ('regularize_sign_branch_swapped', K + 'directldlkktsolver.rs', '                if sign == 1 {\n                    *shift += eps;\n                } else {\n                    *shift -= eps;\n                }', '                if sign != 1 {\n                    *shift -= eps;\n                } else {\n                    *shift += eps;\n                }'),
 ('regularize_shift_from_signs', K + 'directldlkktsolver.rs', '            zip(&mut *diag_shifted, dsigns).for_each(|(shift, &sign)| {\n                if sign == 1 {\n                    *shift += eps;\n                } else {\n                    *shift -= eps;\n                }\n            });', '            for (shift, &sign) in zip(&mut *diag_shifted, dsigns) {\n                if sign == 1 {\n                    *shift += eps;\n                } else {\n                    *shift -= eps;\n                }\n            }'),
 ('regularize_remember_first', K + 'directldlkktsolver.rs', '            // overwrite the diagonal of KKT and within the ldlsolver\n            _update_values(&mut self.ldlsolver, KKT, &map.diag_full, diag_shifted);\n\n            // remember the value we used.  Not needed,\n            // but possibly useful for debugging\n            self.diagonal_regularizer = eps;', '            self.diagonal_regularizer = eps;\n\n            // overwrite the diagonal of KKT and within the ldlsolver\n            _update_values(&mut self.ldlsolver, KKT, &map.diag_full, diag_shifted);'),
 ('regularize_restore_guard_inverted', K + 'directldlkktsolver.rs', '        if settings.static_regularization_enable {\n            // put our internal copy', '        if !settings.static_regularization_enable {\n            return is_success;\n        }\n        {\n            // put our internal copy'),
 ('presolve_contract_commuted', D + 'presolver.rs', '    let infbound = (T::one() - T::epsilon() * (10.).as_T()) * infbound;', '    let infbound = infbound * (T::one() - T::epsilon() * (10.).as_T());'),
 ('presolve_outoption_ne', D + 'presolver.rs', '        if mreduced < b.len() {\n            Some(PresolverRowReductionIndex { keep_logical })\n        } else {\n            None\n        }', '        if mreduced == b.len() {\n            None\n        } else {\n            Some(PresolverRowReductionIndex { keep_logical })\n        }'),
 ('presolve_skip_branch_first', D + 'presolver.rs', '        if matches!(cone, SupportedConeT::NonnegativeConeT(_)) {\n            for _ in 0..numel_cone {\n                if b[idx] > infbound {\n                    keep_logical[idx] = false;\n                    mreduced -= 1;\n                }\n                idx += 1;\n            }\n        } else {\n            // skip this cone\n            idx += numel_cone;\n        }', '        if !matches!(cone, SupportedConeT::NonnegativeConeT(_)) {\n            // skip this cone\n            idx += numel_cone;\n            continue;\n        }\n        for _ in 0..numel_cone {\n            if b[idx] > infbound {\n                keep_logical[idx] = false;\n                mreduced -= 1;\n            }\n            idx += 1;\n        }'),
 ('reverse_presolve_not_keep_first', D + 'presolver.rs', '            if keep {\n                solution.s[idx] = variables.s[ctr];\n                solution.z[idx] = variables.z[ctr];\n                ctr += 1;\n            } else {\n                solution.s[idx] = self.infbound.as_T();\n                solution.z[idx] = T::zero();\n            }', '            if !keep {\n                solution.z[idx] = T::zero();\n                solution.s[idx] = self.infbound.as_T();\n            } else {\n                solution.z[idx] = variables.z[ctr];\n                solution.s[idx] = variables.s[ctr];\n                ctr += 1;\n            }'),
 ('reduce_cones_nkeep_ne_zero', D + 'presolver.rs', '                if nkeep > 0 {\n                    cones_new.push(SupportedConeT::NonnegativeConeT(nkeep));\n                }', '                if nkeep != 0 {\n                    cones_new.push(SupportedConeT::NonnegativeConeT(nkeep));\n                }'),
 ('presolver_count_reduced_locals', D + 'presolver.rs', '        self.mfull - self.mreduced\n', '        let (full, red) = (self.mfull, self.mreduced);\n        full - red\n'),
 ('update_matrix_zip_one_product', D + 'data_updating.rs', '            if let Some(c) = cscale {\n                M.nzval[idx] = lscale[row] * rscale[col] * c * value;\n            } else {\n                M.nzval[idx] = lscale[row] * rscale[col] * value;\n            }', '            let c = cscale.unwrap_or(T::one());\n            M.nzval[idx] = value * c * rscale[col] * lscale[row];'),
 ('update_matrix_slice_scale_first', D + 'data_updating.rs', '        // reapply original equilibration\n        M.lrscale(lscale, rscale);\n        if let Some(c) = cscale {\n            M.scale(c);\n        }', '        // reapply original equilibration\n        if let Some(c) = cscale {\n            M.scale(c);\n        }\n        M.lrscale(lscale, rscale);'),
 ('update_vector_len_checks_swapped', D + 'data_updating.rs', '        if data.len() != v.len() {\n            return Err(SparseFormatError::IncompatibleDimension);\n        }\n\n        v.copy_from_slice(data);\n\n        //reapply original equilibration', '        if v.len() != data.len() {\n            return Err(SparseFormatError::IncompatibleDimension);\n        }\n\n        v.copy_from_slice(data);\n\n        //reapply original equilibration'),
 ('json_save_A_before_P', D + 'json.rs', '        json_data.P.lrscale(dinv, dinv);\n        json_data.q.hadamard(dinv);\n        json_data.P.scale(c.recip());\n        json_data.q.scale(c.recip());\n\n        json_data.A.lrscale(einv, dinv);\n        json_data.b.hadamard(einv);', '        json_data.b.hadamard(einv);\n        json_data.A.lrscale(einv, dinv);\n\n        let cinv = c.recip();\n        json_data.q.scale(cinv);\n        json_data.q.hadamard(dinv);\n        json_data.P.scale(cinv);\n        json_data.P.lrscale(dinv, dinv);'),
 ('json_save_to_vec', D + 'json.rs', '        let json = serde_json::to_string(&json_data)?;\n        file.write_all(json.as_bytes())?;', '        let json = serde_json::to_vec(&json_data)?;\n        file.write_all(&json)?;'),
 ('json_load_validate_settings_first', D + 'json.rs', '        check_json_problem_data(&P, &q, &A, &b, &cones)?;\n        settings\n            .validate()\n            .map_err(|e| io::Error::new(io::ErrorKind::InvalidData, e))?;', '        settings\n            .validate()\n            .map_err(|e| io::Error::new(io::ErrorKind::InvalidData, e))?;\n        check_json_problem_data(&P, &q, &A, &b, &cones)?;'),
 ('json_load_settings_match', D + 'json.rs', '        let settings = settings.unwrap_or(json_data.settings);', '        let settings = match settings {\n            Some(s) => s,\n            None => json_data.settings,\n        };'),
 ('json_validator_dims_reordered', D + 'json.rs', '    if A.ncols() != q.len() {\n        return Err(invalid("A and q incompatible dimensions.".to_string()));\n    }\n    if A.nrows() != b.len() {\n        return Err(invalid("A and b incompatible dimensions.".to_string()));\n    }', '    if b.len() != A.nrows() {\n        return Err(invalid("A and b incompatible dimensions.".to_string()));\n    }\n    if q.len() != A.ncols() {\n        return Err(invalid("A and q incompatible dimensions.".to_string()));\n    }'),
 ('nn_step_length_gt_form', R + 'core/cones/nonnegativecone.rs', '            if dz[i] < T::zero() {\n                αz = T::min(αz, -z[i] / dz[i]);\n            }\n            if ds[i] < T::zero() {\n                αs = T::min(αs, -s[i] / ds[i]);\n            }', '            if T::zero() > ds[i] {\n                αs = T::min(-s[i] / ds[i], αs);\n            }\n            if T::zero() > dz[i] {\n                αz = T::min(-z[i] / dz[i], αz);\n            }'),
 ('soc_step_scalar_cap_swapped_conj', R + 'core/cones/socone.rs', '    if x[0] >= T::zero() && y[0] < T::zero() {\n        αmax = T::min(αmax, -x[0] / y[0]);\n    }', '    if y[0] < T::zero() && x[0] >= T::zero() {\n        αmax = T::min(-x[0] / y[0], αmax);\n    }'),
 ('soc_step_c_zero_inverted', R + 'core/cones/socone.rs', '        return if a >= T::zero() { αmax } else { T::zero() };', '        return if a < T::zero() { T::zero() } else { αmax };'),
 ('soc_step_a_zero_inverted', R + 'core/cones/socone.rs', '        return if b < T::zero() {\n            T::min(αmax, -c / b)\n        } else {\n            αmax\n        };', '        return if b >= T::zero() {\n            αmax\n        } else {\n            T::min(-c / b, αmax)\n        };'),
 ('soc_step_discriminant_commuted', R + 'core/cones/socone.rs', '    let d = b * b - four * a * c;', '    let d = b * b - a * c * four;'),
 ('soc_step_root_branch_inverted', R + 'core/cones/socone.rs', '        if b >= T::zero() {\n            -b - T::sqrt(d)\n        } else {\n            -b + T::sqrt(d)\n        }', '        if b < T::zero() {\n            T::sqrt(d) - b\n        } else {\n            -b - T::sqrt(d)\n        }'),
 ('soc_step_final_min_regrouped', R + 'core/cones/socone.rs', '    T::min(αmax, T::min(r1, r2))\n}', '    T::min(T::min(r2, αmax), r1)\n}'),
 ('soc_step_negative_roots_form', R + 'core/cones/socone.rs', '    let r1 = if r1 < T::zero() { T::infinity() } else { r1 };\n    let r2 = if r2 < T::zero() { T::infinity() } else { r2 };', '    let r2 = if r2 >= T::zero() { r2 } else { T::infinity() };\n    let r1 = if r1 >= T::zero() { r1 } else { T::infinity() };'),
 ('soc_margins_beta_swapped', R + 'core/cones/socone.rs', '        let β = T::max(T::zero(), α);\n        (α, β)', '        let β = T::max(α, T::zero());\n        (α, β)'),
 ('nn_margins_fold_commuted', R + 'core/cones/nonnegativecone.rs', '        let β = z.iter().fold(T::zero(), |β, &zi| β + T::max(zi, T::zero()));', '        let β = z.iter().fold(T::zero(), |β, &zi| T::max(T::zero(), zi) + β);'),
 ('soc_unit_init_order', R + 'core/cones/socone.rs', '        s.fill(T::zero());\n        z.fill(T::zero());\n        self.scaled_unit_shift(s, T::one(), PrimalOrDualCone::PrimalCone);\n        self.scaled_unit_shift(z, T::one(), PrimalOrDualCone::DualCone);', '        z.fill(T::zero());\n        self.scaled_unit_shift(z, T::one(), PrimalOrDualCone::DualCone);\n        s.fill(T::zero());\n        self.scaled_unit_shift(s, T::one(), PrimalOrDualCone::PrimalCone);'),
 ('soc_identity_scaling_order', R + 'core/cones/socone.rs', '        self.w.fill(T::zero());\n        self.w[0] = T::one();\n        self.η = T::one();', '        self.η = T::one();\n        self.w.fill(T::zero());\n        self.w[0] = T::one();'),
 ('genpow_barrier_order_swapped', R + 'core/cones/genpowcone.rs', '        work.waxpby(T::one(), s, α, ds);\n        barrier += self.barrier_primal(&work);\n\n        work.waxpby(T::one(), z, α, dz);\n        barrier += self.barrier_dual(&work);', '        work.waxpby(T::one(), z, α, dz);\n        barrier += self.barrier_dual(&work);\n\n        work.waxpby(α, ds, T::one(), s);\n        barrier += self.barrier_primal(&work);'),
 ('soc_rectify_mean_local', R + 'core/cones/socone.rs', '        δ.copy_from(e).recip().scale(e.mean());\n\n        true // scalar equilibration', '        let mean = e.mean();\n        δ.copy_from(e);\n        δ.recip();\n        δ.scale(mean);\n\n        true // scalar equilibration'),
 ('exp_rectify_scalarop', R + 'core/cones/expcone.rs', '        δ.copy_from(e).recip().scale(e.mean());\n        true // scalar equilibration', '        let mean = e.mean();\n        δ.scalarop_from(|ei| mean / ei, e);\n        true // scalar equilibration'),
 ('chordal_reverse_standard_z_first', 'src/solver/chordal/decomp/reverse_standard.rs', '        H.gemv(&mut new_vars.s, &old_vars.s[m..], T::one(), T::zero());\n        H.gemv(&mut new_vars.z, &old_vars.z[m..], T::one(), T::zero());', '        H.gemv(&mut new_vars.z, &old_vars.z[m..], T::one(), T::zero());\n        H.gemv(&mut new_vars.s, &old_vars.s[m..], T::one(), T::zero());'),
 ('chordal_reverse_standard_div_form', 'src/solver/chordal/decomp/reverse_standard.rs', '            new_vars.z[ri] /= nnz;', '            new_vars.z[ri] = new_vars.z[ri] / nnz;'),
 ('chordal_reverse_compact_is_some_first', 'src/solver/chordal/decomp/reverse_compact.rs', '            if cone_map.tree_and_clique.is_none() {\n                row_ptr =\n                    add_blocks_with_cone(new_s, old_s, new_z, old_z, row_range, cone, row_ptr);\n            } else {', '            if let Some((tree_index, clique_index)) = cone_map.tree_and_clique {\n                let pattern = &self.spatterns[tree_index];\n                row_ptr = add_blocks_with_sparsity_pattern(\n                    new_s,\n                    old_s,\n                    new_z,\n                    old_z,\n                    row_range,\n                    pattern,\n                    clique_index,\n                    &mut clique_buffer,\n                    row_ptr,\n                );\n            } else if true {\n                row_ptr =\n                    add_blocks_with_cone(new_s, old_s, new_z, old_z, row_range, cone, row_ptr);\n            } else {'),
 ('chordal_analyse_dense_any_form', 'src/solver/chordal/chordal_info.rs', '        if nz_mask.iter().all(|x| *x) {\n            return; //dense / decomposable\n        }', '        if !nz_mask.iter().any(|x| !*x) {\n            return; //dense / decomposable\n        }'),
 ('chordal_analyse_single_clique_le', 'src/solver/chordal/chordal_info.rs', '        if spattern.sntree.n_cliques == 1 {\n            return; // not decomposed, or everything re-merged\n        }\n\n        self.spatterns.push(spattern);', '        if spattern.sntree.n_cliques != 1 {\n            self.spatterns.push(spattern);\n        }'),
]


def special(name, src):
    if name == 'dedup_locals_renamed':
        import re
        a = src.index('    fn deduplicate(&mut self)')
        b = src.index('    /// Check that for dimensional consistency.', a)
        body = src[a:b]
        for old, new in (('ptr', 'cursor'), ('stop', 'colend'), ('nnz', 'nout'), ('accum', 'total'), ('thisrow', 'r0')):
            body = re.sub(r'\b%s\b' % old, new, body)
        return src[:a] + body + src[b:]
    if name == 'factor_logical_continue':
        a = src.index('        if !logical_factor {\n            // apply dynamic regularization\n            if regularize_enable {\n                let sign = T::from_i8(Dsigns[k]).unwrap();')
        b = src.index('    } //end for k', a)
        blk = src[a:b]
        lines = blk.split('\n')
        assert lines[0] == '        if !logical_factor {'
        # drop the opening line and the closing brace of the if, unindent the rest
        body = lines[1:]
        while body and body[-1].strip() == '':
            body.pop()
        assert body[-1] == '        }', body[-1]
        body = body[:-1]
        body = [l[4:] if l.startswith('    ') else l for l in body]
        return src[:a] + '        if logical_factor {\n            continue;\n        }\n' + '\n'.join(body) + '\n' + src[b:]
    if name == 'solve_iter_renamed':
        import re
        a = src.index('fn solve(&mut self) {')
        b = src.index('// Encapsulate the internal helpers trait')
        body = src[a:b]
        body = re.sub(r'\biter\b', 'itcount', body)
        return src[:a] + body + src[b:]
    if name == 'default_start_inverted':
        a = src.index('            if self.cones.is_symmetric() {\n                // set all scalings to identity')
        b = src.index('        fn centering_parameter', a)
        old = src[a:b]
        k = old.index('            } else {')
        sym = old[old.index('\n') + 1:k]
        new = ('            if !self.cones.is_symmetric() {\n                // Assigns unit (z,s) and zeros the primal variables\n'
               '                self.variables.unit_initialization(&self.cones);\n            } else {\n' + sym + '            }\n        }\n\n')
        return src[:a] + new + src[b:]
    if name == 'composite_skip_ne':
        # select instead of skip, and swap the flags: exactly the same cones in exactly the same order
        src = src.replace('                if cone.is_symmetric() == symcond {\n                    continue;\n                }\n                let (dzi, dsi)',
                          '                if cone.is_symmetric() != symcond {\n                    continue;\n                }\n                let (dzi, dsi)')
        src = src.replace('        α = innerfcn(α, true);', '        α = innerfcn(α, FIRSTFLAG);').replace('        α = innerfcn(α, false);', '        α = innerfcn(α, true);')
        return src.replace('innerfcn(α, FIRSTFLAG)', 'innerfcn(α, false)')
    if name == 'reduce_cones_index_walk':
        a = src.index('        let mut keep_iter = map.keep_logical.iter();')
        b = src.index('        cones_new\n    }', a)
        new = '''        let mut start = 0; // index of the first marker of this cone

        for cone in cones {
            let numel_cone = cone.nvars();
            if matches!(cone, SupportedConeT::NonnegativeConeT(_)) {
                let markers = &map.keep_logical[start..start + numel_cone];
                let nkeep = markers.iter().filter(|&b| *b).count();
                if nkeep > 0 {
                    cones_new.push(SupportedConeT::NonnegativeConeT(nkeep));
                }
            } else {
                cones_new.push(cone.clone());
            }
            start += numel_cone;
        }

'''
        return src[:a] + new + src[b:]
    if name == 'new_collapsed_continue_form':
        a = src.index('            if cone.nvars() != 0 {\n                match cone {')
        b = src.index('        newcones.shrink_to_fit();', a)
        body = src[a:b]
        body = body.replace('            if cone.nvars() != 0 {\n                match cone {', '            if cone.nvars() == 0 {\n                continue;\n            }\n            {\n                match cone {', 1)
        return src[:a] + body + src[b:]
    if name == 'reverse_compact_all_sliced':
        src = src.replace('    let mut counter = 0;\n    for &j in clique_buffer.iter() {\n        for &i in clique_buffer.iter() {\n            if i <= j {\n                let offset = coord_to_upper_triangular_index((i, j));\n                new_s[row_range.start + offset] += old_s[row_ptr + counter];',
                          '    let new_s = &mut new_s[row_range.clone()];\n    let new_z = &mut new_z[row_range];\n    let old_s = &old_s[row_ptr..];\n    let old_z = &old_z[row_ptr..];\n    let mut counter = 0;\n    for &j in clique_buffer.iter() {\n        for &i in clique_buffer.iter() {\n            if i <= j {\n                let offset = coord_to_upper_triangular_index((i, j));\n                new_s[offset] += old_s[counter];')
        return src.replace('                new_z[row_range.start + offset] = old_z[row_ptr + counter];', '                new_z[offset] = old_z[counter];')
    if name == 'soc_expandable_size_test':
        src = src.replace('    pub fn new(dim: usize) -> Self {\n        const SOC_NO_EXPANSION_MAX_SIZE: usize = 4;\n', '    pub fn new(dim: usize) -> Self {\n')
        src = src.replace('pub struct SecondOrderConeSparseData<T> {', 'const SOC_NO_EXPANSION_MAX_SIZE: usize = 4;\n\npub struct SecondOrderConeSparseData<T> {', 1)
        return src.replace('    fn is_sparse_expandable(&self) -> bool {\n        self.sparse_data.is_some()', '    fn is_sparse_expandable(&self) -> bool {\n        self.dim > SOC_NO_EXPANSION_MAX_SIZE')
    raise KeyError(name)


def build(repo='/repo'):
    out = os.path.join(os.path.dirname(os.path.abspath(__file__)), 'benign')
    os.makedirs(out, exist_ok=True)
    meta = []
    for name, path, old, new in BENIGN:
        src = open(os.path.join(repo, path), encoding='utf-8').read()
        if old is None:
            dst = special(name, src)
        else:
            if src.count(old) != 1:
                print('SKIP %s: anchor text found %d times' % (name, src.count(old)))
                continue
            dst = src.replace(old, new)
        w = tempfile.mkdtemp()
        a = os.path.join(w, 'a', path); b = os.path.join(w, 'b', path)
        os.makedirs(os.path.dirname(a)); os.makedirs(os.path.dirname(b))
        open(a, 'w', encoding='utf-8').write(src)
        open(b, 'w', encoding='utf-8').write(dst)
        p = subprocess.run(['diff', '-u', 'a/' + path, 'b/' + path], cwd=w, stdout=subprocess.PIPE, text=True)
        open(os.path.join(out, name + '.diff'), 'w', encoding='utf-8').write(p.stdout)
        shutil.rmtree(w)
        meta.append({'name': name, 'file': path})
    json.dump(meta, open(os.path.join(out, 'index.json'), 'w'), indent=1)
    print('built %d benign edits' % len(meta))


if __name__ == '__main__':
    build()
