"""Whole-crate call graph over the fact base, with class-hierarchy resolution of
unresolved trait-method calls (filtered by the caller's trait bounds), closure edges and
function-pointer (address-taken) edges."""
import re
from .mir import strip_generics, last_seg


def _bounds_of(fn, tyname):
    """local-trait bounds `tyname: Trait<..>` among the where-clauses of fn"""
    out = []
    for p in fn.preds_where:
        m = re.match(r'^(.+?): (.+)$', p)
        if not m:
            continue
        if m.group(1).strip() != tyname:
            continue
        out.append(strip_generics(m.group(2).strip()))
    return out


class CallGraph:
    def __init__(self, facts):
        self.F = facts
        self.edges = {}       # fn key -> set(fn key)   (only crate-local callees)
        self.ext = {}         # fn key -> set(external callee key)
        self.sites = {}       # (caller key) -> list of (Call, [target keys])
        self.callers = {}
        self._impl_index()
        self._build()

    # -- class hierarchy -------------------------------------------------------
    def _impl_index(self):
        F = self.F
        self.trait_impls = {}   # trait key -> list of impl dicts
        self.type_traits = {}   # self_key -> set(trait keys)
        for im in F.impls:
            tk = im['trait_key']
            if not tk:
                continue
            self.trait_impls.setdefault(tk, []).append(im)
            self.type_traits.setdefault(im['self_key'], set()).add(tk)
        # blanket impls  `impl<C: A + B> Tr for C`  make every type satisfying the bounds
        # implement Tr; iterate to a fixpoint
        changed = True
        while changed:
            changed = False
            for im in F.impls:
                tk = im['trait_key']
                if not tk:
                    continue
                sk = im['self_key']
                if re.fullmatch(r'[A-Z][A-Za-z0-9]*', sk) and '::' not in sk:
                    # type parameter as Self: blanket impl
                    need = []
                    for p in im.get('preds', []):
                        m = re.match(r'^(.+?): (.+)$', p)
                        if m and m.group(1).strip() == sk:
                            b = strip_generics(m.group(2).strip())
                            if b in self.trait_impls or b in F.traits:
                                need.append(b)
                    for ty, trs in list(self.type_traits.items()):
                        if re.fullmatch(r'[A-Z][A-Za-z0-9]*', ty):
                            continue
                        if need and all(n in trs for n in need) and tk not in trs:
                            trs.add(tk)
                            changed = True

    def cha_targets(self, caller, callee):
        """targets (fn keys) of an unresolved trait-method call"""
        F = self.F
        tk = strip_generics(callee.trait)
        m = callee.method
        selfty = callee.selfty or ''
        self_key = strip_generics(selfty)
        # bounds of the caller on the receiver type (when it is a type parameter or
        # an associated-type projection we cannot see through, fall back to all impls)
        need = set()
        if re.fullmatch(r'[A-Z][A-Za-z0-9]*', self_key):
            need = set(b for b in _bounds_of(caller, self_key) if b in self.trait_impls or b in F.traits)
            # closures inherit their root fn's where clauses (already instantiated by rustc)
        out = []
        impls = self.trait_impls.get(tk, [])
        for im in impls:
            sk = im['self_key']
            is_param = bool(re.fullmatch(r'[A-Z][A-Za-z0-9]*', sk)) and '::' not in sk
            if need and not is_param:
                trs = self.type_traits.get(sk, set())
                if not all(n in trs for n in need):
                    continue
            for it in im['items']:
                if it['name'] == m:
                    out.append(F.uid_key.get(it.get('uid'), strip_generics(it['path'])))
        # provided method in the trait definition
        tr = F.traits.get(tk)
        if tr:
            for it in tr['items']:
                if it['name'] == m and it['provided']:
                    out.append(F.uid_key.get(it.get('uid'), strip_generics(it['path'])))
        return [k for k in dict.fromkeys(out) if k in F.by_key]

    # -- construction ------------------------------------------------------------
    def _build(self):
        F = self.F
        for f in F.fns:
            self.edges.setdefault(f.key, set())
            self.ext.setdefault(f.key, set())
            self.sites.setdefault(f.key, [])
        for f in F.fns:
            for c in f.calls:
                tg = self.targets_of(f, c)
                self.sites[f.key].append((c, tg))
                for t in tg:
                    self.edges[f.key].add(t)
                if not tg and c.callee.key:
                    self.ext[f.key].add(c.callee.target_key)
            # closures constructed here, fn items whose address is taken here
            for bi, si, st in f.assignments():
                rv = st['rv']
                if rv['k'] == 'agg' and rv['ak']['a'] == 'closure':
                    k = F.uid_key.get(rv['ak'].get('uid'), strip_generics(rv['ak']['def']))
                    if k in F.by_key:
                        self.edges[f.key].add(k)
                self._fnitem_operands(f, rv)
            for c in f.calls:
                for a in c.args:
                    self._fnitem_operand(f, a)
        for a, bs in self.edges.items():
            for b in bs:
                self.callers.setdefault(b, set()).add(a)

    def _fnitem_operand(self, f, op):
        k = op.get('k')
        if k and 'fn' in k:
            fn = k['fn']
            tk = self.F.uid_key.get(fn.get('res_uid') or fn.get('uid'), strip_generics(fn.get('res') or fn['path']))
            if tk in self.F.by_key:
                self.edges[f.key].add(tk)

    def _fnitem_operands(self, f, rv):
        for key in ('a', 'b'):
            if key in rv and isinstance(rv[key], dict):
                self._fnitem_operand(f, rv[key])
        for op in rv.get('ops', []):
            self._fnitem_operand(f, op)

    def targets_of(self, f, c):
        F = self.F
        cal = c.callee
        if cal.indirect is not None:
            # call through a local: closure or fn pointer -- edges were added at the
            # construction / address-taking site
            return []
        if cal.is_unresolved_trait_call():
            if strip_generics(cal.trait) in F.traits:
                return self.cha_targets(f, cal)
            # external trait with local impls (Fn*, Deref, PartialEq, Clone, Default ...)
            tk = strip_generics(cal.trait)
            out = []
            for im in self.trait_impls.get(tk, []):
                for it in im['items']:
                    if it['name'] == cal.method:
                        out.append(F.uid_key.get(it.get('uid'), strip_generics(it['path'])))
            sk = strip_generics(cal.selfty or '')
            if out and not re.fullmatch(r'[A-Z][A-Za-z0-9]*', sk):
                # concrete receiver that did not resolve to a local impl: external
                return []
            return [k for k in out if k in F.by_key] if tk not in ('std::cmp::PartialEq', 'std::cmp::PartialOrd',
                                                                   'std::clone::Clone', 'std::default::Default',
                                                                   'std::fmt::Debug', 'std::fmt::Display',
                                                                   'std::ops::Deref', 'std::convert::From',
                                                                   'std::convert::Into', 'std::ops::FnOnce',
                                                                   'std::ops::FnMut', 'std::ops::Fn',
                                                                   'std::iter::Iterator') else []
        tk = cal.target_key
        if tk in F.by_key:
            return [tk]
        return []

    # -- queries ---------------------------------------------------------------------
    def reachable(self, roots, stop=()):
        seen = set()
        st = list(roots)
        stop = set(stop)
        while st:
            x = st.pop()
            if x in seen:
                continue
            seen.add(x)
            if x in stop:
                continue
            st.extend(self.edges.get(x, ()))
        return seen

    def path(self, roots, target):
        """one call chain root -> ... -> target (list of keys) or None"""
        from collections import deque
        prev = {}
        dq = deque()
        for r in roots:
            prev[r] = None
            dq.append(r)
        while dq:
            x = dq.popleft()
            if x == target:
                out = []
                while x is not None:
                    out.append(x)
                    x = prev[x]
                return out[::-1]
            for y in self.edges.get(x, ()):
                if y not in prev:
                    prev[y] = x
                    dq.append(y)
        return None

    def callers_of(self, key):
        return sorted(self.callers.get(key, ()))

    def ext_callers(self, pred):
        """(caller fn, Call) for external callees whose key satisfies pred"""
        out = []
        for f in self.F.fns:
            for c, tg in self.sites[f.key]:
                if not tg and c.callee.key and pred(c.callee):
                    out.append((f, c))
        return out
