"""debug helper: python3 -m engine.dump <facts.json> <name-substring> [--raw]"""
import sys
from .mir import Facts, show


def dump_fn(f, raw=False):
    print('==', f.key, f.loc(), 'argc', f.argc, 'trait', f.impl_trait, 'adt', f.impl_adt)
    for bi, b in enumerate(f.blocks):
        if b['cleanup']:
            continue
        print(' bb%d:' % bi)
        for st in b['s']:
            if 'p' in st and 'rv' in st:
                tgt = show(f.sym_place(st['p']))
                if st['p']['p'] == [] and f.local_name(st['p']['l']) is None and len(f.defs.get(st['p']['l'], [])) == 1 and not raw:
                    continue  # temp, will be inlined
                print('    %s := %s    [l%d]' % (tgt, show(f.sym_rvalue(st['rv'])), st['sp']['l']))
            else:
                print('    ', {k: v for k, v in st.items() if k != 'sp'})
        t = b['t']
        if t['k'] == 'call':
            c = f.call_at[bi]
            print('    %s := CALL %s(%s) -> bb%s   [res=%s unresolved_trait=%s l%d]' % (
                show(f.sym_place(t['d'])), c.callee.key or 'indirect:' + show(f.sym_operand(t['f'])),
                ', '.join(show(a) for a in f.call_arg_syms(c)), t['t'], c.callee.res_key,
                c.callee.is_unresolved_trait_call(), c.line))
        elif t['k'] == 'switch':
            print('    SWITCH %s %s else bb%d' % (show(f.sym_operand(t['d'])), t['ts'], t['o']))
        elif t['k'] == 'assert':
            print('    ASSERT(%s) %s == %s -> bb%d' % (t['m'], show(f.sym_operand(t['c'])), t['e'], t['t']))
        elif t['k'] == 'drop':
            print('    drop -> bb%d' % t['t'])
        else:
            print('    ', t)


if __name__ == '__main__':
    F = Facts(sys.argv[1])
    pat = sys.argv[2]
    raw = '--raw' in sys.argv
    for f in F.fns:
        if pat in f.key:
            dump_fn(f, raw)
